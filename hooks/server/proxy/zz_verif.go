//go:build verif

package proxy

import "sort"

func (pm *Manager) VerifNames() []string {
	pm.mu.RLock()
	defer pm.mu.RUnlock()
	out := make([]string, 0, len(pm.pxys))
	for n := range pm.pxys {
		out = append(out, n)
	}
	sort.Strings(out)
	return out
}
