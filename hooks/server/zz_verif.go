//go:build verif

package server

import (
	"io"
	"sort"
	"sync"
)

// VerifSnapshot is a read-only view of the server's tables for the verification harness.
type VerifSnapshot struct {
	Sessions     []string       // run ids
	Proxies      []string       // proxy names (global manager)
	SessionPxys  map[string]int // run id -> number of proxies
	PortsUsedNum map[string]int // run id -> quota counter
	Pooled       map[string]int // run id -> len(workConnCh)
	TCPUsed      []int
	UDPUsed      []int
	TCPFree      int
	UDPFree      int
	Visitors     []string
	TCPGroups    []string
	HTTPGroups   []string
	TCPMuxGroups []string
	HTTPRoutes   int
	HTTPSRoutes  int
	TCPMuxRoutes int
	NatSessions  int
	NatClients   int
}

func (svr *Service) VerifSnapshot() VerifSnapshot {
	s := VerifSnapshot{SessionPxys: map[string]int{}, PortsUsedNum: map[string]int{}, Pooled: map[string]int{}}
	svr.ctlManager.mu.RLock()
	ctls := map[string]*Control{}
	for id, c := range svr.ctlManager.ctlsByRunID {
		ctls[id] = c
	}
	svr.ctlManager.mu.RUnlock()
	for id, c := range ctls {
		s.Sessions = append(s.Sessions, id)
		c.mu.RLock()
		s.SessionPxys[id] = len(c.proxies)
		s.PortsUsedNum[id] = c.portsUsedNum
		c.mu.RUnlock()
		s.Pooled[id] = len(c.workConnCh)
	}
	sort.Strings(s.Sessions)
	s.Proxies = svr.pxyManager.VerifNames()
	s.TCPUsed, s.TCPFree = svr.rc.TCPPortManager.VerifUsed()
	s.UDPUsed, s.UDPFree = svr.rc.UDPPortManager.VerifUsed()
	s.Visitors = svr.rc.VisitorManager.VerifNames()
	s.TCPGroups = svr.rc.TCPGroupCtl.VerifGroups()
	s.HTTPGroups = svr.rc.HTTPGroupCtl.VerifGroups()
	s.TCPMuxGroups = svr.rc.TCPMuxGroupCtl.VerifGroups()
	s.HTTPRoutes = svr.httpVhostRouter.VerifCount()
	if svr.rc.VhostHTTPSMuxer != nil {
		s.HTTPSRoutes = svr.rc.VhostHTTPSMuxer.VerifRouteCount()
	}
	if svr.rc.TCPMuxHTTPConnectMuxer != nil {
		s.TCPMuxRoutes = svr.rc.TCPMuxHTTPConnectMuxer.VerifRouteCount()
	}
	s.NatSessions, s.NatClients = svr.rc.NatHoleController.VerifCounts()
	return s
}

// ---- listeners that Service.Close() does not close (vhost HTTP server) ----------

var (
	verifExtraMu sync.Mutex
	verifExtra   = map[*Service][]io.Closer{}
)

func verifRegisterCloser(svr *Service, c io.Closer) {
	verifExtraMu.Lock()
	verifExtra[svr] = append(verifExtra[svr], c)
	verifExtraMu.Unlock()
}

// VerifCloseExtra closes what Close() leaves open so that the harness can reuse ports.
func (svr *Service) VerifCloseExtra() {
	verifExtraMu.Lock()
	l := verifExtra[svr]
	delete(verifExtra, svr)
	verifExtraMu.Unlock()
	for _, c := range l {
		_ = c.Close()
	}
}
