//go:build verif

package group

import "sort"

func (tgc *TCPGroupCtl) VerifGroups() []string {
	tgc.mu.Lock()
	defer tgc.mu.Unlock()
	out := make([]string, 0, len(tgc.groups))
	for n := range tgc.groups {
		out = append(out, n)
	}
	sort.Strings(out)
	return out
}

func (ctl *HTTPGroupController) VerifGroups() []string {
	ctl.mu.Lock()
	defer ctl.mu.Unlock()
	out := make([]string, 0, len(ctl.groups))
	for n := range ctl.groups {
		out = append(out, n)
	}
	sort.Strings(out)
	return out
}

func (tmgc *TCPMuxGroupCtl) VerifGroups() []string {
	tmgc.mu.Lock()
	defer tmgc.mu.Unlock()
	out := make([]string, 0, len(tmgc.groups))
	for n := range tmgc.groups {
		out = append(out, n)
	}
	sort.Strings(out)
	return out
}
