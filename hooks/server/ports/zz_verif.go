//go:build verif

package ports

import "sort"

func (pm *Manager) VerifUsed() (used []int, free int) {
	pm.mu.Lock()
	defer pm.mu.Unlock()
	for p := range pm.usedPorts {
		used = append(used, p)
	}
	sort.Ints(used)
	return used, len(pm.freePorts)
}
