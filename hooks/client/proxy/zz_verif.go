//go:build verif

package proxy

import "time"

// VerifSetTimings shortens the wrapper's package-level timing variables so that
// registration histories run in milliseconds. Returns a function restoring them.
func VerifSetTimings(statusCheck, waitResponse, startErr time.Duration) func() {
	a, b, c := statusCheckInterval, waitResponseTimeout, startErrTimeout
	statusCheckInterval, waitResponseTimeout, startErrTimeout = statusCheck, waitResponse, startErr
	return func() { statusCheckInterval, waitResponseTimeout, startErrTimeout = a, b, c }
}
