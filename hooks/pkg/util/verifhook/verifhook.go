//go:build verif

// Package verifhook provides named gate points for the verification harness.
// It exists only in the -overlay used by /verif; the released tree does not contain it.
package verifhook

import "sync/atomic"

var handler atomic.Value // of func(point string, keys []string)

// At is called at named points inside frp (inserted by the overlay). Without a
// handler it does nothing.
func At(point string, keys ...string) {
	if h, ok := handler.Load().(func(string, []string)); ok && h != nil {
		h(point, keys)
	}
}

// Set installs the harness handler (nil-safe: pass a no-op to clear).
func Set(h func(point string, keys []string)) { handler.Store(h) }
