//go:build verif

package vhost

func (r *Routers) VerifCount() int {
	r.mutex.RLock()
	defer r.mutex.RUnlock()
	n := 0
	for _, byUser := range r.indexByDomain {
		for _, l := range byUser {
			n += len(l)
		}
	}
	return n
}

func (v *Muxer) VerifRouteCount() int { return v.registryRouter.VerifCount() }
