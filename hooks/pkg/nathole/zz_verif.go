//go:build verif

package nathole

func (c *Controller) VerifCounts() (sessions, clients int) {
	c.mu.RLock()
	defer c.mu.RUnlock()
	return len(c.sessions), len(c.clientCfgs)
}
