#!/bin/bash
# usage: tools_mutant.sh <PROP> <name> <file> <old> <new> [check args...]
# Applies a one-off textual mutation to a scratch worktree of /repo (never /repo itself), runs ./check <PROP>
# against it and prints the verdict. The scratch copy is removed afterwards.
export GOFLAGS=-mod=mod GOPROXY=off GOSUMDB=off GOTOOLCHAIN=local
P=$1; NAME=$2; F=$3; OLD=$4; NEW=$5; shift 5
SCR=/tmp/mut-$P-$NAME; ALT=/tmp/mutalt-$P-$NAME
git -C /repo worktree remove --force $SCR 2>/dev/null; rm -rf $SCR $ALT
git -C /repo worktree add -q --detach $SCR HEAD || exit 2
python3 - "$SCR/$F" "$OLD" "$NEW" <<'PY' || { git -C /repo worktree remove --force $SCR; exit 3; }
import sys
p,old,new=sys.argv[1:4]
s=open(p).read()
if s.count(old)<1: print("mutation anchor not found"); sys.exit(1)
import os
open(p,'w').write(s.replace(old,new) if os.environ.get('MUT_ALL') else s.replace(old,new,1))
PY
( cd $SCR && go build ./... ) || { echo "MUTANT $P/$NAME: does not compile"; git -C /repo worktree remove --force $SCR; exit 4; }
mkdir -p $ALT
( cd /verif && VERIF_REPO=$SCR VERIF_ALT=$ALT timeout 1500 ./check $P "$@" > /tmp/mut-$P-$NAME.log 2>&1 ); C=$?
echo "MUTANT $P/$NAME: exit $C; $(grep -c '^VIOLATION' /tmp/mut-$P-$NAME.log) violations; $(grep -m1 'check=' /tmp/mut-$P-$NAME.log | cut -c1-300)"
tail -1 /tmp/mut-$P-$NAME.log | cut -c1-200
git -C /repo worktree remove --force $SCR; rm -rf $SCR $ALT
