#!/bin/bash
# usage: tools_confirm.sh <seed-dir-name> <package dir in repo>   (re)confirms a seeded change whose demo must live in a package dir
export GOFLAGS=-mod=mod GOPROXY=off GOSUMDB=off GOTOOLCHAIN=local
S=/verif/seeded/$1; PK=$2
SCR=/tmp/confirm-$1
git -C /repo worktree remove --force $SCR 2>/dev/null; rm -rf $SCR
git -C /repo worktree add -q --detach $SCR HEAD || exit 2
for f in $(find $S -maxdepth 2 -name '*_test.go'); do cp $f $SCR/$PK/zz_seed_$(basename $f); done
( cd $SCR && timeout 600 go test -vet=off -count=1 ./$PK/ > $S/demo_pristine.log 2>&1 ); PR=$?
( cd $SCR && git apply $S/patch.diff ) || { echo "patch does not apply"; exit 3; }
( cd $SCR && go build ./... > $S/build.log 2>&1 ); B=$?
( cd $SCR && rm -f $PK/zz_seed_* && go test -vet=off -count=1 ./pkg/... > $S/pinned.log 2>&1 ); T=$?
for f in $(find $S -maxdepth 2 -name '*_test.go'); do cp $f $SCR/$PK/zz_seed_$(basename $f); done
( cd $SCR && timeout 900 go test -vet=off -count=1 ./$PK/ > $S/demo_changed.log 2>&1 ); CH=$?
echo "re-confirmed with the demo placed in $PK: pristine exit $PR; with change: build exit $B, pinned tests exit $T, demo exit $CH" | tee -a $S/confirm.log
git -C /repo worktree remove --force $SCR; rm -rf $SCR
