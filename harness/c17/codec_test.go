package c17

import (
	"bytes"
	"encoding/binary"
	"encoding/hex"
	"encoding/json"
	"fmt"
	"io"
	"net"
	"reflect"
	"runtime"
	"sort"
	"strconv"
	"strings"
	"testing"

	"github.com/fatedier/frp/pkg/msg"
	"pgregory.net/rapid"

	"verifharness/fx"
)

func TestMain(m *testing.M) { fx.Main(m, "C17") }

const maxBody = 10240

// ---------- generators over the pinned schema --------------------------------

func genStr(t *rapid.T, label string) string {
	switch rapid.IntRange(0, 9).Draw(t, label+"/cls") {
	case 0:
		return ""
	case 1, 2, 3:
		return rapid.StringMatching(`[a-zA-Z0-9_.:\-]{1,16}`).Draw(t, label)
	case 4, 5, 6:
		return rapid.StringN(0, 40, -1).Draw(t, label)
	case 7:
		return rapid.SampledFrom([]string{"  ", "<script>&amp;", "\"\\\x00\x1f", "é世界🙂", "a\tb\nc", "�", "null", "{}"}).Draw(t, label)
	case 8:
		// long (may push the frame over the 10 KiB limit)
		n := rapid.SampledFrom([]int{200, 1000, 4000, 9000, 10100, 10240, 12000}).Draw(t, label+"/len")
		return strings.Repeat(rapid.StringMatching(`[a-z"\\é]`).Draw(t, label+"/unit"), n)
	default:
		return rapid.StringN(1, 8, -1).Draw(t, label)
	}
}

func genInt(t *rapid.T, label string) int64 {
	if rapid.Bool().Draw(t, label+"/extreme") {
		return rapid.SampledFrom([]int64{0, 1, -1, 65535, 65536, 1 << 31, -(1 << 31), 1<<53 + 1, 1<<63 - 1, -(1 << 63)}).Draw(t, label)
	}
	return rapid.Int64().Draw(t, label)
}

func genStrList(t *rapid.T, label string) []any {
	n := rapid.IntRange(0, 4).Draw(t, label+"/n")
	out := make([]any, 0, n)
	for i := 0; i < n; i++ {
		out = append(out, genStr(t, fmt.Sprintf("%s[%d]", label, i)))
	}
	return out
}

func genStrMap(t *rapid.T, label string) map[string]any {
	n := rapid.IntRange(0, 4).Draw(t, label+"/n")
	out := map[string]any{}
	for i := 0; i < n; i++ {
		out[genStr(t, fmt.Sprintf("%s.k%d", label, i))] = genStr(t, fmt.Sprintf("%s.v%d", label, i))
	}
	return out
}

func genUDPAddr(t *rapid.T, label string) any {
	switch rapid.IntRange(0, 5).Draw(t, label+"/cls") {
	case 0:
		return nil
	case 1:
		return map[string]any{"IP": "", "Port": int64(0), "Zone": ""}
	case 2, 3:
		b := rapid.SliceOfN(rapid.Byte(), 4, 4).Draw(t, label+"/ip4")
		return map[string]any{"IP": net.IP(b).String(), "Port": int64(rapid.IntRange(0, 65535).Draw(t, label+"/port")), "Zone": ""}
	default:
		b := rapid.SliceOfN(rapid.Byte(), 16, 16).Draw(t, label+"/ip6")
		return map[string]any{"IP": net.IP(b).String(), "Port": genInt(t, label+"/port"), "Zone": rapid.SampledFrom([]string{"", "eth0", "1"}).Draw(t, label+"/zone")}
	}
}

func genFields(t *rapid.T, fields []Field, label string) map[string]any {
	out := map[string]any{}
	for _, f := range fields {
		l := label + "." + f.JSON
		// each field independently absent (zero) with probability 1/4
		if rapid.IntRange(0, 3).Draw(t, l+"/present") == 0 {
			continue
		}
		switch f.Kind {
		case KStr:
			out[f.JSON] = genStr(t, l)
		case KInt:
			out[f.JSON] = genInt(t, l)
		case KU16:
			out[f.JSON] = int64(rapid.SampledFrom([]int{0, 1, 80, 443, 65535, 32768}).Draw(t, l))
		case KBool:
			out[f.JSON] = rapid.Bool().Draw(t, l)
		case KStrMap:
			out[f.JSON] = genStrMap(t, l)
		case KStrList:
			out[f.JSON] = genStrList(t, l)
		case KUDPAddr:
			if a := genUDPAddr(t, l); a != nil {
				out[f.JSON] = a
			}
		case KClientSpec:
			out[f.JSON] = genFields(t, ClientSpecFields, l)
		case KDetect:
			out[f.JSON] = genFields(t, DetectFields, l)
		case KPortsList:
			n := rapid.IntRange(0, 3).Draw(t, l+"/n")
			lst := []any{}
			for i := 0; i < n; i++ {
				lst = append(lst, genFields(t, PortsRangeFields, fmt.Sprintf("%s[%d]", l, i)))
			}
			out[f.JSON] = lst
		}
	}
	return out
}

// ---------- helpers -----------------------------------------------------------

func decodeGeneric(b []byte) (any, error) {
	d := json.NewDecoder(bytes.NewReader(b))
	d.UseNumber()
	var v any
	if err := d.Decode(&v); err != nil {
		return nil, err
	}
	return v, nil
}

// canonical drops zero leaves and empty containers (omitempty equivalence).
func canonical(v any) any {
	switch x := v.(type) {
	case nil:
		return nil
	case string:
		if x == "" {
			return nil
		}
		return x
	case bool:
		if !x {
			return nil
		}
		return x
	case json.Number:
		if x.String() == "0" || x.String() == "-0" {
			return nil
		}
		return x.String()
	case map[string]any:
		out := map[string]any{}
		for k, e := range x {
			if c := canonical(e); c != nil {
				out[k] = c
			}
		}
		if len(out) == 0 {
			return nil
		}
		return out
	case []any:
		if len(x) == 0 {
			return nil
		}
		out := make([]any, len(x))
		for i, e := range x {
			out[i] = canonicalKeep(e)
		}
		return out
	}
	return v
}

// inside lists, elements keep their position even when zero
func canonicalKeep(v any) any {
	c := canonical(v)
	if c == nil {
		switch v.(type) {
		case string:
			return ""
		case map[string]any:
			return map[string]any{}
		}
	}
	return c
}

func frame(tb byte, length int64, body []byte) []byte {
	var b bytes.Buffer
	b.WriteByte(tb)
	_ = binary.Write(&b, binary.BigEndian, length)
	b.Write(body)
	return b.Bytes()
}

type countingReader struct {
	r        *bytes.Reader
	consumed int
	maxReq   int
}

func (c *countingReader) Read(p []byte) (int, error) {
	if len(p) > c.maxReq {
		c.maxReq = len(p)
	}
	n, err := c.r.Read(p)
	c.consumed += n
	return n, err
}

func safeRead(r io.Reader) (m msg.Message, err error, panicked any) {
	defer func() {
		if p := recover(); p != nil {
			panicked = p
		}
	}()
	m, err = msg.ReadMsg(r)
	return
}

func safeWrite(m any) (b []byte, err error, panicked any) {
	defer func() {
		if p := recover(); p != nil {
			panicked = p
		}
	}()
	var buf bytes.Buffer
	err = msg.WriteMsg(&buf, m)
	return buf.Bytes(), err, nil
}

// checkBinding verifies by reflection that the decoded Go value carries the
// expected wire values in the pinned Go fields.
func checkBinding(v reflect.Value, fields []Field, exp map[string]any, path string) error {
	for _, f := range fields {
		fv := v.FieldByName(f.Go)
		if !fv.IsValid() {
			continue // Go-side rename is not a wire change
		}
		e, present := exp[f.JSON]
		p := path + "." + f.Go
		switch f.Kind {
		case KStr:
			want, _ := e.(string)
			if fv.Kind() == reflect.String && fv.String() != want {
				return fmt.Errorf("%s = %q, wire %q carried %q", p, fv.String(), f.JSON, want)
			}
		case KInt, KU16:
			var want int64
			if present {
				want = e.(int64)
			}
			var got int64
			switch fv.Kind() {
			case reflect.Int, reflect.Int64, reflect.Int32:
				got = fv.Int()
			case reflect.Uint16, reflect.Uint32, reflect.Uint64, reflect.Uint:
				got = int64(fv.Uint())
			default:
				continue
			}
			if got != want {
				return fmt.Errorf("%s = %d, wire %q carried %d", p, got, f.JSON, want)
			}
		case KBool:
			want, _ := e.(bool)
			if fv.Kind() == reflect.Bool && fv.Bool() != want {
				return fmt.Errorf("%s = %v, wire %q carried %v", p, fv.Bool(), f.JSON, want)
			}
		case KStrMap:
			want, _ := e.(map[string]any)
			if fv.Kind() != reflect.Map {
				continue
			}
			if fv.Len() != len(want) {
				return fmt.Errorf("%s has %d entries, wire %q carried %d", p, fv.Len(), f.JSON, len(want))
			}
			for k, wv := range want {
				gv := fv.MapIndex(reflect.ValueOf(k))
				if !gv.IsValid() || gv.String() != wv.(string) {
					return fmt.Errorf("%s[%q] mismatch", p, k)
				}
			}
		case KStrList:
			want, _ := e.([]any)
			if fv.Kind() != reflect.Slice {
				continue
			}
			if fv.Len() != len(want) {
				return fmt.Errorf("%s has %d elements, wire %q carried %d", p, fv.Len(), f.JSON, len(want))
			}
			for i := range want {
				if fv.Index(i).String() != want[i].(string) {
					return fmt.Errorf("%s[%d] = %q want %q", p, i, fv.Index(i).String(), want[i])
				}
			}
		case KUDPAddr:
			want, _ := e.(map[string]any)
			if fv.Kind() != reflect.Ptr {
				continue
			}
			if want == nil {
				if !fv.IsNil() {
					return fmt.Errorf("%s non-nil but wire had no %q", p, f.JSON)
				}
				continue
			}
			if fv.IsNil() {
				return fmt.Errorf("%s nil but wire carried %q", p, f.JSON)
			}
			a, ok := fv.Interface().(*net.UDPAddr)
			if !ok {
				continue
			}
			ipS, _ := want["IP"].(string)
			if ipS == "" {
				if len(a.IP) != 0 {
					return fmt.Errorf("%s.IP = %v want empty", p, a.IP)
				}
			} else if !a.IP.Equal(net.ParseIP(ipS)) {
				return fmt.Errorf("%s.IP = %v want %s", p, a.IP, ipS)
			}
			if int64(a.Port) != want["Port"].(int64) || a.Zone != want["Zone"].(string) {
				return fmt.Errorf("%s port/zone = %d/%q want %v/%v", p, a.Port, a.Zone, want["Port"], want["Zone"])
			}
		case KClientSpec:
			want, _ := e.(map[string]any)
			if err := checkBinding(fv, ClientSpecFields, want, p); err != nil {
				return err
			}
		case KDetect:
			want, _ := e.(map[string]any)
			if err := checkBinding(fv, DetectFields, want, p); err != nil {
				return err
			}
		case KPortsList:
			want, _ := e.([]any)
			if fv.Kind() != reflect.Slice {
				continue
			}
			if fv.Len() != len(want) {
				return fmt.Errorf("%s has %d elements want %d", p, fv.Len(), len(want))
			}
			for i := range want {
				if err := checkBinding(fv.Index(i), PortsRangeFields, want[i].(map[string]any), fmt.Sprintf("%s[%d]", p, i)); err != nil {
					return err
				}
			}
		}
	}
	return nil
}

// typed view of the generic tree after a JSON round trip (ints become int64)
func retype(v any) any {
	switch x := v.(type) {
	case json.Number:
		n, err := strconv.ParseInt(x.String(), 10, 64)
		if err != nil {
			return x.String()
		}
		return n
	case map[string]any:
		for k, e := range x {
			x[k] = retype(e)
		}
		return x
	case []any:
		for i, e := range x {
			x[i] = retype(e)
		}
		return x
	}
	return v
}

// ---------- sub-check 1: round trip + wire format -----------------------------

type RTCase struct {
	Type string `json:"type"`
	Body string `json:"body"` // reference JSON encoding of the wire fields
}

func genRT(t *rapid.T) RTCase {
	td := Schema[rapid.IntRange(0, len(Schema)-1).Draw(t, "type")]
	fields := genFields(t, td.Fields, td.Name)
	b, err := json.Marshal(fields)
	if err != nil {
		t.Fatalf("reference encoder: %v", err)
	}
	return RTCase{Type: td.Name, Body: string(b)}
}

func runRT(c RTCase) error {
	td := ByName(c.Type)
	if td == nil {
		return fmt.Errorf("bad case type")
	}
	g, err := decodeGeneric([]byte(c.Body))
	if err != nil {
		return fx.Inconclusive("case body: %v", err)
	}
	gx, _ := decodeGeneric([]byte(c.Body))
	exp, _ := retype(gx).(map[string]any)
	in := frame(td.Byte, int64(len(c.Body)), []byte(c.Body))
	cr := &countingReader{r: bytes.NewReader(append(in, 0xAA, 0xBB, 0xCC))} // trailing bytes must not be consumed
	m1, rerr, pan := safeRead(cr)
	if pan != nil {
		return fmt.Errorf("ReadMsg panicked: %v", pan)
	}
	if len(c.Body) > maxBody {
		if rerr == nil {
			return fmt.Errorf("frame with body of %d bytes (> %d) was accepted", len(c.Body), maxBody)
		}
		if cr.consumed > 9 {
			return fmt.Errorf("oversized frame: decoder consumed %d bytes, must stop after the 9-byte header", cr.consumed)
		}
		return nil
	}
	if rerr != nil {
		return fmt.Errorf("valid %s frame rejected: %v", td.Name, rerr)
	}
	if cr.consumed != len(in) {
		return fmt.Errorf("decoder consumed %d bytes of a %d byte frame", cr.consumed, len(in))
	}
	rv := reflect.ValueOf(m1)
	if rv.Kind() != reflect.Ptr || rv.Elem().Type().Name() != td.Name {
		return fmt.Errorf("type byte %q decoded to %T, released protocol says %s", td.Byte, m1, td.Name)
	}
	if err := checkBinding(rv.Elem(), td.Fields, exp, td.Name); err != nil {
		return fmt.Errorf("decode binding: %v", err)
	}
	out, werr, pan := safeWrite(m1)
	if pan != nil {
		return fmt.Errorf("WriteMsg panicked: %v", pan)
	}
	if werr != nil {
		return fmt.Errorf("WriteMsg(%s) failed: %v", td.Name, werr)
	}
	if len(out) < 9 {
		return fmt.Errorf("encoded frame shorter than header: %d", len(out))
	}
	if out[0] != td.Byte {
		return fmt.Errorf("%s encoded with type byte %q, released protocol uses %q", td.Name, out[0], td.Byte)
	}
	l := int64(binary.BigEndian.Uint64(out[1:9]))
	if l != int64(len(out)-9) {
		return fmt.Errorf("length field %d but body has %d bytes", l, len(out)-9)
	}
	g2, err := decodeGeneric(out[9:])
	if err != nil {
		return fmt.Errorf("encoded body is not JSON: %v", err)
	}
	body2, ok := g2.(map[string]any)
	if !ok {
		return fmt.Errorf("encoded body is not a JSON object")
	}
	allowed := map[string]bool{}
	for _, f := range td.Fields {
		allowed[f.JSON] = true
	}
	for k := range body2 {
		if !allowed[k] {
			return fmt.Errorf("%s encodes key %q which the released protocol does not have", td.Name, k)
		}
	}
	if !reflect.DeepEqual(canonical(g), canonical(g2)) {
		return fmt.Errorf("wire content changed by decode+encode:\n in  %s\n out %s", c.Body, string(out[9:]))
	}
	if len(out)-9 > maxBody {
		// frp's own (escaped) encoding of this value exceeds the frame bound: outside
		// the domain "messages that fit a frame"; nothing more to compare.
		return nil
	}
	// decode(encode(m1)) == m1
	m2, rerr2, pan := safeRead(bytes.NewReader(out))
	if pan != nil || rerr2 != nil {
		return fmt.Errorf("re-decode failed: %v %v", rerr2, pan)
	}
	o1, _, _ := safeWrite(m1)
	o2, _, _ := safeWrite(m2)
	if !bytes.Equal(o1, o2) {
		return fmt.Errorf("decode∘encode not stable")
	}
	if err := checkBinding(reflect.ValueOf(m2).Elem(), td.Fields, exp, td.Name); err != nil {
		return fmt.Errorf("decode(encode(m)) != m: %v", err)
	}
	return nil
}

func classRT(c RTCase) fx.Class {
	g, _ := decodeGeneric([]byte(c.Body))
	m, _ := g.(map[string]any)
	keys := make([]string, 0, len(m))
	kinds := map[string]bool{}
	for k, v := range m {
		if canonical(v) != nil {
			keys = append(keys, k)
			kinds[fmt.Sprintf("%T", v)] = true
		}
	}
	sort.Strings(keys)
	lab := []string{"type=" + c.Type}
	if len(c.Body) > maxBody {
		lab = append(lab, "oversized")
	}
	if strings.Contains(c.Body, `"IP"`) {
		lab = append(lab, "udpaddr")
	}
	return fx.Class{NonTrivial: len(keys) >= 1 || c.Type == "ReqWorkConn", Fingerprint: c.Type + "|" + c.Body, Labels: lab}
}

func TestRoundTrip(t *testing.T) {
	fx.Run(t, fx.Spec[RTCase]{Prop: "C17", Name: "roundtrip", Quick: 24000, Thorough: 1500000, Gen: genRT, Run: runRT, Class: classRT})
}

// ---------- sub-check 2: totality / boundedness on arbitrary bytes -------------

type DecCase struct {
	Hex  string `json:"hex"`
	Kind string `json:"kind"`
}

var typeBytes = func() []byte {
	var b []byte
	for _, td := range Schema {
		b = append(b, td.Byte)
	}
	return b
}()

func isRegistered(b byte) bool { return bytes.IndexByte(typeBytes, b) >= 0 }

func genDec(t *rapid.T) DecCase {
	kind := rapid.SampledFrom([]string{"valid", "typebyte", "length", "truncated", "badjson", "wrongtypes", "raw", "raw-typed"}).Draw(t, "kind")
	rt := genRT(t)
	td := ByName(rt.Type)
	body := []byte(rt.Body)
	var out []byte
	switch kind {
	case "valid":
		out = frame(td.Byte, int64(len(body)), body)
	case "typebyte":
		out = frame(rapid.Byte().Draw(t, "tb"), int64(len(body)), body)
	case "length":
		l := rapid.SampledFrom([]int64{-1, 0, int64(len(body)) - 1, int64(len(body)) + 1, 10240, 10241, 1 << 20, 1 << 31, 1<<62 + 5, 1<<63 - 1, -(1 << 63), 65536}).Draw(t, "len")
		out = frame(td.Byte, l, body)
	case "truncated":
		full := frame(td.Byte, int64(len(body)), body)
		out = full[:rapid.IntRange(0, len(full)).Draw(t, "cut")]
	case "badjson":
		b := append([]byte{}, body...)
		n := rapid.IntRange(1, 4).Draw(t, "nmut")
		for i := 0; i < n && len(b) > 0; i++ {
			p := rapid.IntRange(0, len(b)-1).Draw(t, "pos")
			b[p] = rapid.Byte().Draw(t, "byte")
		}
		out = frame(td.Byte, int64(len(b)), b)
	case "wrongtypes":
		alt := rapid.SampledFrom([]string{`[]`, `"x"`, `17`, `null`, `{"timestamp":"x"}`, `{"pool_count":1e400}`, `{"src_port":70000}`, `{"src_port":-1}`,
			`{"metas":[1]}`, `{"metas":{"a":1}}`, `{"l":{"IP":"not-an-ip"}}`, `{"l":{"Port":"x"}}`, `{"l":[]}`, `{"custom_domains":{}}`, `{"pool_count":9223372036854775808}`,
			`{"remote_port":1.5}`, `{"detect_behavior":{"candidate_ports":[1]}}`, `{"client_spec":[]}`, `{"use_encryption":"yes"}`, `{"a":{"a":{"a":{"a":{}}}}}`, `{`, ``, `{"version":"\ud800"}`}).Draw(t, "alt")
		out = frame(td.Byte, int64(len(alt)), []byte(alt))
	case "raw":
		out = rapid.SliceOfN(rapid.Byte(), 0, 64).Draw(t, "raw")
	default:
		raw := rapid.SliceOfN(rapid.Byte(), 0, 64).Draw(t, "raw")
		out = append([]byte{td.Byte}, raw...)
	}
	return DecCase{Hex: hex.EncodeToString(out), Kind: kind}
}

func runDec(c DecCase) error {
	in, err := hex.DecodeString(c.Hex)
	if err != nil {
		return fx.Inconclusive("bad hex")
	}
	cr := &countingReader{r: bytes.NewReader(in)}
	var ms0, ms1 runtime.MemStats
	declared := int64(-1)
	if len(in) >= 9 {
		declared = int64(binary.BigEndian.Uint64(in[1:9]))
	}
	measure := len(in) >= 9 && (declared > maxBody || declared < 0)
	if measure {
		runtime.ReadMemStats(&ms0)
	}
	m, rerr, pan := safeRead(cr)
	if measure {
		runtime.ReadMemStats(&ms1)
	}
	if pan != nil {
		return fmt.Errorf("ReadMsg panicked on %d bytes: %v", len(in), pan)
	}
	if len(in) == 0 {
		if rerr == nil {
			return fmt.Errorf("empty input decoded to %T", m)
		}
		return nil
	}
	if !isRegistered(in[0]) {
		if rerr == nil {
			return fmt.Errorf("unknown type byte %#x accepted as %T", in[0], m)
		}
		if cr.consumed > 1 {
			return fmt.Errorf("unknown type byte: decoder consumed %d bytes, must stop after the type byte", cr.consumed)
		}
		return nil
	}
	if len(in) >= 9 && (declared < 0 || declared > maxBody) {
		if rerr == nil {
			return fmt.Errorf("declared length %d accepted", declared)
		}
		if cr.consumed > 9 {
			return fmt.Errorf("declared length %d: decoder consumed %d bytes, must stop after the header", declared, cr.consumed)
		}
		if cr.maxReq > maxBody {
			return fmt.Errorf("declared length %d: decoder requested a read of %d bytes", declared, cr.maxReq)
		}
		if d := ms1.TotalAlloc - ms0.TotalAlloc; d > 1<<20 {
			return fmt.Errorf("declared length %d: decoder allocated %d bytes", declared, d)
		}
		return nil
	}
	if declared >= 0 && int64(cr.consumed) > 9+declared {
		return fmt.Errorf("decoder consumed %d bytes, frame is 9+%d", cr.consumed, declared)
	}
	if cr.maxReq > maxBody {
		return fmt.Errorf("decoder requested a read of %d bytes (> bound)", cr.maxReq)
	}
	if len(in) < 9 || int64(len(in)-9) < declared {
		if rerr == nil {
			return fmt.Errorf("truncated frame accepted as %T", m)
		}
		return nil
	}
	body := in[9 : 9+declared]
	if rerr == nil {
		if m == nil {
			return fmt.Errorf("nil message with nil error")
		}
		rv := reflect.ValueOf(m)
		td := (*TypeDesc)(nil)
		for i := range Schema {
			if Schema[i].Byte == in[0] {
				td = &Schema[i]
			}
		}
		if rv.Kind() != reflect.Ptr || rv.Elem().Type().Name() != td.Name {
			return fmt.Errorf("type byte %q decoded to %T", in[0], m)
		}
		if !json.Valid(body) {
			return fmt.Errorf("malformed JSON body accepted: %q", body)
		}
		// decode∘encode∘decode stable
		o1, werr, pan := safeWrite(m)
		if pan != nil {
			return fmt.Errorf("WriteMsg panicked on decoded message: %v", pan)
		}
		if werr == nil && len(o1)-9 <= maxBody {
			m2, e2, pan2 := safeRead(bytes.NewReader(o1))
			if pan2 != nil || e2 != nil {
				return fmt.Errorf("re-decode of re-encoded message failed: %v %v", e2, pan2)
			}
			o2, _, _ := safeWrite(m2)
			if !bytes.Equal(o1, o2) {
				return fmt.Errorf("decode∘encode∘decode unstable")
			}
		}
	} else {
		if c.Kind == "valid" && declared <= maxBody {
			return fmt.Errorf("valid frame rejected: %v", rerr)
		}
		if !json.Valid(body) {
			return nil
		}
	}
	return nil
}

func classDec(c DecCase) fx.Class {
	in, _ := hex.DecodeString(c.Hex)
	nt := len(in) > 0 && isRegistered(in[0])
	return fx.Class{NonTrivial: nt, Fingerprint: c.Hex, Labels: []string{"kind=" + c.Kind}}
}

func TestDecodeTotal(t *testing.T) {
	fx.Run(t, fx.Spec[DecCase]{Prop: "C17", Name: "decode_total", Quick: 24000, Thorough: 1500000, Gen: genDec, Run: runDec, Class: classDec})
}

// ---------- deterministic: type table bijection + golden vectors --------------

func TestGolden(t *testing.T) {
	if len(Schema) != 18 {
		t.Fatalf("schema must pin 18 types")
	}
	n := 0
	for b := 0; b < 256; b++ {
		fr := frame(byte(b), 2, []byte("{}"))
		m, err, pan := safeRead(bytes.NewReader(fr))
		var c = DecCase{Hex: hex.EncodeToString(fr), Kind: "golden"}
		var verr error
		td := (*TypeDesc)(nil)
		for i := range Schema {
			if Schema[i].Byte == byte(b) {
				td = &Schema[i]
			}
		}
		switch {
		case pan != nil:
			verr = fmt.Errorf("panic: %v", pan)
		case td == nil && err == nil:
			verr = fmt.Errorf("type byte %#x is not in the released protocol but decodes to %T", b, m)
		case td != nil && err != nil:
			verr = fmt.Errorf("type byte %q (%s) of the released protocol is rejected: %v", b, td.Name, err)
		case td != nil && reflect.TypeOf(m).Elem().Name() != td.Name:
			verr = fmt.Errorf("type byte %q decodes to %T, released protocol: %s", b, m, td.Name)
		}
		if verr != nil {
			fx.ReportViolation("C17", "decode_total", c, verr)
			t.Error(verr)
		}
		n++
	}
	fx.Record("golden_typebytes", fx.Class{NonTrivial: true, Fingerprint: "all-256-type-bytes"}, "all 256 type bytes against the pinned table")
	fx.Record("golden_typebytes", fx.Class{NonTrivial: true, Fingerprint: "18-types"}, fmt.Sprintf("%d type bytes probed", n))
}
