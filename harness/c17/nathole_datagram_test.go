package c17

import (
	"bytes"
	"encoding/binary"
	"fmt"
	"reflect"
	"testing"

	"github.com/fatedier/golib/crypto"
	"pgregory.net/rapid"

	"github.com/fatedier/frp/pkg/msg"
	"github.com/fatedier/frp/pkg/nathole"

	"verifharness/fx"
)

// nathole_datagram: the hole-punching datagrams carry one protocol frame inside an encrypted envelope
// (nathole.EncodeMessage / DecodeMessageInto). The decoder is fed by whatever arrives on a UDP socket that is open to
// the internet while a hole is being punched, in goroutines without recover: for every byte string it must return a
// message or an error, and what EncodeMessage produced must decode to an equal message under the same key.
type NDCase struct {
	Kind    string `json:"kind"` // roundtrip | prefix | garbage | envelope
	Key     string `json:"key"`
	Sid     string `json:"sid"`
	Tid     string `json:"tid"`
	Nonce   string `json:"nonce"`
	Resp    bool   `json:"resp"`
	Cut     int    `json:"cut"`     // prefix: number of bytes kept (clamped)
	Raw     []byte `json:"raw"`     // garbage: the datagram; envelope: the plaintext that is encrypted with Key
	TypeB   byte   `json:"type_b"`  // envelope: type byte of the hand-made frame
	LenF    int64  `json:"len_f"`   // envelope: declared length of the hand-made frame
	UseRaw  bool   `json:"use_raw"` // envelope: plaintext = Raw (else a frame TypeB | LenF | body)
	WrongKy bool   `json:"wrong_key"`
}

func genND(t *rapid.T) NDCase {
	c := NDCase{Kind: rapid.SampledFrom([]string{"roundtrip", "prefix", "prefix", "garbage", "garbage", "envelope", "envelope"}).Draw(t, "kind")}
	c.Key = rapid.SampledFrom([]string{"", "k", "secret-key", "a much longer key with spaces and ünïcode"}).Draw(t, "key")
	c.Sid = genStr(t, "sid")
	if len(c.Sid) > 600 {
		c.Sid = c.Sid[:600]
	}
	c.Tid = rapid.StringMatching(`[a-z0-9]{0,20}`).Draw(t, "tid")
	c.Nonce = rapid.StringMatching(`[ -~]{0,40}`).Draw(t, "nonce")
	c.Resp = rapid.Bool().Draw(t, "resp")
	c.Cut = rapid.IntRange(0, 80).Draw(t, "cut")
	c.WrongKy = rapid.Bool().Draw(t, "wrongkey")
	switch c.Kind {
	case "garbage":
		c.Raw = rapid.SliceOfN(rapid.Byte(), 0, 48).Draw(t, "raw")
	case "envelope":
		c.UseRaw = rapid.Bool().Draw(t, "useraw")
		c.Raw = rapid.SliceOfN(rapid.Byte(), 0, 24).Draw(t, "plain")
		c.TypeB = rapid.SampledFrom([]byte{'5', '5', 'o', 'h', 0, 0xff}).Draw(t, "tb")
		c.LenF = rapid.SampledFrom([]int64{0, 1, 2, int64(len(c.Raw)), int64(len(c.Raw)) + 1, -1, 10240, 10241, 1 << 40, -1 << 63}).Draw(t, "lenf")
	}
	return c
}

func safeNDDecode(data, key []byte) (out msg.NatHoleSid, err error, panicked any) {
	defer func() {
		if r := recover(); r != nil {
			panicked = r
		}
	}()
	// the decoder deciphers in place: every call gets its own copy of the datagram
	err = nathole.DecodeMessageInto(append([]byte(nil), data...), key, &out)
	return
}

func runND(c NDCase) error {
	key := []byte(c.Key)
	in := &msg.NatHoleSid{TransactionID: c.Tid, Sid: c.Sid, Response: c.Resp, Nonce: c.Nonce}
	switch c.Kind {
	case "roundtrip", "prefix":
		data, err := nathole.EncodeMessage(in, key)
		if err != nil {
			return fmt.Errorf("EncodeMessage(%+v): %v", in, err)
		}
		if c.Kind == "roundtrip" {
			dk := key
			if c.WrongKy {
				dk = append([]byte("x"), key...)
			}
			out, err, p := safeNDDecode(data, dk)
			if p != nil {
				return fmt.Errorf("DecodeMessageInto panicked on a datagram made by EncodeMessage (%d bytes, wrong key %v): %v", len(data), c.WrongKy, p)
			}
			if !c.WrongKy {
				if err != nil {
					return fmt.Errorf("a datagram made by EncodeMessage (%d bytes) is refused under the same key: %v", len(data), err)
				}
				if !reflect.DeepEqual(&out, in) {
					return fmt.Errorf("datagram round trip: sent %+v, decoded %+v", in, out)
				}
				// the released format: the control frame, enciphered with the key - whatever the key (also the empty
				// one), so that builds of the same protocol version read each other's datagrams
				var frame bytes.Buffer
				if e := msg.WriteMsg(&frame, in); e != nil {
					return fx.Inconclusive("WriteMsg: %v", e)
				}
				plain, e := crypto.Decode(append([]byte(nil), data...), key)
				if e != nil || !bytes.Equal(plain, frame.Bytes()) {
					return fmt.Errorf("key %q: the datagram made by EncodeMessage does not decipher to the control frame (err %v, %d bytes, want %d)", c.Key, e, len(plain), frame.Len())
				}
				ref, e := crypto.Encode(frame.Bytes(), key)
				if e != nil {
					return fx.Inconclusive("crypto.Encode: %v", e)
				}
				out2, err2, p2 := safeNDDecode(ref, key)
				if p2 != nil || err2 != nil || !reflect.DeepEqual(&out2, in) {
					return fmt.Errorf("key %q: a datagram in the released format (control frame enciphered with the key) is not read back: err %v panic %v got %+v want %+v", c.Key, err2, p2, out2, in)
				}
			}
			return nil
		}
		// every proper prefix of a valid datagram (a truncated packet) is an error, never a panic and never a message
		n := c.Cut
		if n > len(data) {
			n = len(data) - 1
		}
		out, err, p := safeNDDecode(data[:n], key)
		if p != nil {
			return fmt.Errorf("DecodeMessageInto panicked on the first %d of %d bytes of a valid datagram: %v", n, len(data), p)
		}
		if n < len(data) && err == nil {
			return fmt.Errorf("the first %d of %d bytes of a valid datagram decoded without error to %+v", n, len(data), out)
		}
	case "garbage":
		if _, _, p := safeNDDecode(c.Raw, key); p != nil {
			return fmt.Errorf("DecodeMessageInto panicked on a %d-byte datagram %x: %v", len(c.Raw), c.Raw, p)
		}
	case "envelope":
		plain := c.Raw
		if !c.UseRaw {
			plain = make([]byte, 9, 9+len(c.Raw))
			plain[0] = c.TypeB
			binary.BigEndian.PutUint64(plain[1:], uint64(c.LenF))
			plain = append(plain, c.Raw...)
		}
		data, err := crypto.Encode(plain, key)
		if err != nil {
			return fx.Inconclusive("crypto.Encode: %v", err)
		}
		if _, _, p := safeNDDecode(data, key); p != nil {
			return fmt.Errorf("DecodeMessageInto panicked on a correctly keyed datagram whose %d-byte plaintext is %x: %v", len(plain), plain, p)
		}
	}
	return nil
}

func TestNatHoleDatagram(t *testing.T) {
	fx.Run(t, fx.Spec[NDCase]{Prop: "C17", Name: "nathole_datagram", Quick: 6000, Thorough: 300000, Gen: genND, Run: runND,
		Class: func(c NDCase) fx.Class {
			return fx.Class{NonTrivial: c.Kind != "garbage" || len(c.Raw) >= 16, Fingerprint: fmt.Sprintf("%+v", c), Labels: []string{"kind=" + c.Kind}}
		}})
}

func FuzzNatHoleDatagram(f *testing.F) {
	fx.Fuzz(f, fx.Spec[NDCase]{Prop: "C17", Name: "nathole_datagram", Gen: genND, Run: runND})
}
