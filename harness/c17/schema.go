// Package c17 checks the control-protocol codec against a pinned description of
// the released wire format (type bytes, JSON names, Go field binding).
package c17

// Kind of a wire field.
type Kind int

const (
	KStr Kind = iota
	KInt      // Go int / int64
	KU16
	KBool
	KStrMap
	KStrList
	KUDPAddr
	KClientSpec
	KDetect
	KPortsList
)

type Field struct {
	Go   string
	JSON string
	Kind Kind
}

type TypeDesc struct {
	Name   string
	Byte   byte
	Fields []Field
}

// Pinned from the released protocol (pkg/msg/msg.go at the pinned commit). This
// table is the oracle for wire stability and is deliberately NOT derived from
// the code under test.
var Schema = []TypeDesc{
	{"Login", 'o', []Field{{"Version", "version", KStr}, {"Hostname", "hostname", KStr}, {"Os", "os", KStr}, {"Arch", "arch", KStr},
		{"User", "user", KStr}, {"PrivilegeKey", "privilege_key", KStr}, {"Timestamp", "timestamp", KInt}, {"RunID", "run_id", KStr},
		{"Metas", "metas", KStrMap}, {"ClientSpec", "client_spec", KClientSpec}, {"PoolCount", "pool_count", KInt}}},
	{"LoginResp", '1', []Field{{"Version", "version", KStr}, {"RunID", "run_id", KStr}, {"Error", "error", KStr}}},
	{"NewProxy", 'p', []Field{{"ProxyName", "proxy_name", KStr}, {"ProxyType", "proxy_type", KStr}, {"UseEncryption", "use_encryption", KBool},
		{"UseCompression", "use_compression", KBool}, {"BandwidthLimit", "bandwidth_limit", KStr}, {"BandwidthLimitMode", "bandwidth_limit_mode", KStr},
		{"Group", "group", KStr}, {"GroupKey", "group_key", KStr}, {"Metas", "metas", KStrMap}, {"Annotations", "annotations", KStrMap},
		{"RemotePort", "remote_port", KInt}, {"CustomDomains", "custom_domains", KStrList}, {"SubDomain", "subdomain", KStr},
		{"Locations", "locations", KStrList}, {"HTTPUser", "http_user", KStr}, {"HTTPPwd", "http_pwd", KStr},
		{"HostHeaderRewrite", "host_header_rewrite", KStr}, {"Headers", "headers", KStrMap}, {"ResponseHeaders", "response_headers", KStrMap},
		{"RouteByHTTPUser", "route_by_http_user", KStr}, {"Sk", "sk", KStr}, {"AllowUsers", "allow_users", KStrList}, {"Multiplexer", "multiplexer", KStr}}},
	{"NewProxyResp", '2', []Field{{"ProxyName", "proxy_name", KStr}, {"RemoteAddr", "remote_addr", KStr}, {"Error", "error", KStr}}},
	{"CloseProxy", 'c', []Field{{"ProxyName", "proxy_name", KStr}}},
	{"NewWorkConn", 'w', []Field{{"RunID", "run_id", KStr}, {"PrivilegeKey", "privilege_key", KStr}, {"Timestamp", "timestamp", KInt}}},
	{"ReqWorkConn", 'r', nil},
	{"StartWorkConn", 's', []Field{{"ProxyName", "proxy_name", KStr}, {"SrcAddr", "src_addr", KStr}, {"DstAddr", "dst_addr", KStr},
		{"SrcPort", "src_port", KU16}, {"DstPort", "dst_port", KU16}, {"Error", "error", KStr}}},
	{"NewVisitorConn", 'v', []Field{{"RunID", "run_id", KStr}, {"ProxyName", "proxy_name", KStr}, {"SignKey", "sign_key", KStr},
		{"Timestamp", "timestamp", KInt}, {"UseEncryption", "use_encryption", KBool}, {"UseCompression", "use_compression", KBool}}},
	{"NewVisitorConnResp", '3', []Field{{"ProxyName", "proxy_name", KStr}, {"Error", "error", KStr}}},
	{"Ping", 'h', []Field{{"PrivilegeKey", "privilege_key", KStr}, {"Timestamp", "timestamp", KInt}}},
	{"Pong", '4', []Field{{"Error", "error", KStr}}},
	{"UDPPacket", 'u', []Field{{"Content", "c", KStr}, {"LocalAddr", "l", KUDPAddr}, {"RemoteAddr", "r", KUDPAddr}}},
	{"NatHoleVisitor", 'i', []Field{{"TransactionID", "transaction_id", KStr}, {"ProxyName", "proxy_name", KStr}, {"PreCheck", "pre_check", KBool},
		{"Protocol", "protocol", KStr}, {"SignKey", "sign_key", KStr}, {"Timestamp", "timestamp", KInt},
		{"MappedAddrs", "mapped_addrs", KStrList}, {"AssistedAddrs", "assisted_addrs", KStrList}}},
	{"NatHoleClient", 'n', []Field{{"TransactionID", "transaction_id", KStr}, {"ProxyName", "proxy_name", KStr}, {"Sid", "sid", KStr},
		{"MappedAddrs", "mapped_addrs", KStrList}, {"AssistedAddrs", "assisted_addrs", KStrList}}},
	{"NatHoleResp", 'm', []Field{{"TransactionID", "transaction_id", KStr}, {"Sid", "sid", KStr}, {"Protocol", "protocol", KStr},
		{"CandidateAddrs", "candidate_addrs", KStrList}, {"AssistedAddrs", "assisted_addrs", KStrList},
		{"DetectBehavior", "detect_behavior", KDetect}, {"Error", "error", KStr}}},
	{"NatHoleSid", '5', []Field{{"TransactionID", "transaction_id", KStr}, {"Sid", "sid", KStr}, {"Response", "response", KBool}, {"Nonce", "nonce", KStr}}},
	{"NatHoleReport", '6', []Field{{"Sid", "sid", KStr}, {"Success", "success", KBool}}},
}

var ClientSpecFields = []Field{{"Type", "type", KStr}, {"AlwaysAuthPass", "always_auth_pass", KBool}}

var DetectFields = []Field{{"Role", "role", KStr}, {"Mode", "mode", KInt}, {"TTL", "ttl", KInt}, {"SendDelayMs", "send_delay_ms", KInt},
	{"ReadTimeoutMs", "read_timeout", KInt}, {"CandidatePorts", "candidate_ports", KPortsList},
	{"SendRandomPorts", "send_random_ports", KInt}, {"ListenRandomPorts", "listen_random_ports", KInt}}

var PortsRangeFields = []Field{{"From", "from", KInt}, {"To", "to", KInt}}

var UDPAddrFields = []Field{{"IP", "IP", KStr}, {"Port", "Port", KInt}, {"Zone", "Zone", KStr}}

func ByName(n string) *TypeDesc {
	for i := range Schema {
		if Schema[i].Name == n {
			return &Schema[i]
		}
	}
	return nil
}
