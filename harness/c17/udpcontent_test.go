package c17

import (
	"bytes"
	"fmt"
	"testing"

	"github.com/fatedier/frp/pkg/msg"
	"github.com/fatedier/frp/pkg/proto/udp"
	"pgregory.net/rapid"

	"verifharness/fx"
)

// udp_content: the payload of a UDPPacket survives encoding, framing, decoding - and stays what it is while further
// packets are decoded (several datagrams are in flight in the forwarders at any time).
type UCase struct {
	Lens []int    `json:"lens"`
	Seed uint64   `json:"seed"`
}

func genU(t *rapid.T) UCase {
	c := UCase{Seed: rapid.Uint64().Draw(t, "seed")}
	n := rapid.IntRange(2, 5).Draw(t, "n")
	for i := 0; i < n; i++ {
		c.Lens = append(c.Lens, rapid.SampledFrom([]int{0, 1, 17, 512, 1400, 1472, 1500, 4000}).Draw(t, fmt.Sprintf("l%d", i)))
	}
	return c
}

func runU(c UCase) error {
	x := c.Seed | 1
	var want, got [][]byte
	var wire bytes.Buffer
	for _, l := range c.Lens {
		p := make([]byte, l)
		for i := range p {
			x ^= x << 13
			x ^= x >> 7
			x ^= x << 17
			p[i] = byte(x >> 24)
		}
		want = append(want, p)
		if e := msg.WriteMsg(&wire, udp.NewUDPPacket(p, nil, nil)); e != nil {
			return fmt.Errorf("write: %v", e)
		}
	}
	for range c.Lens {
		m, e := msg.ReadMsg(&wire)
		if e != nil {
			return fmt.Errorf("read: %v", e)
		}
		u, ok := m.(*msg.UDPPacket)
		if !ok {
			return fmt.Errorf("decoded %T", m)
		}
		b, e := udp.GetContent(u)
		if e != nil {
			return fmt.Errorf("content: %v", e)
		}
		got = append(got, b) // kept while the following packets are decoded
	}
	for i := range want {
		if !bytes.Equal(got[i], want[i]) {
			return fmt.Errorf("payload of packet %d (%d bytes) no longer equals what was sent after %d further packets were decoded", i, len(want[i]), len(want)-1-i)
		}
	}
	return nil
}

func TestUDPContent(t *testing.T) {
	fx.Run(t, fx.Spec[UCase]{Prop: "C17", Name: "udp_content", Quick: 4000, Thorough: 200000, Gen: genU, Run: runU,
		Class: func(c UCase) fx.Class { return fx.Class{NonTrivial: true, Fingerprint: fmt.Sprintf("%+v", c)} }})
}
