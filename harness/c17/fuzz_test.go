package c17

import (
	"testing"

	"verifharness/fx"
)

// Native coverage-guided fuzzing (thorough tier): the fuzz bytes drive the same generators, the oracle is unchanged.
func FuzzDecodeTotal(f *testing.F) {
	fx.Fuzz(f, fx.Spec[DecCase]{Prop: "C17", Name: "decode_total", Gen: genDec, Run: runDec})
}

func FuzzRoundTrip(f *testing.F) {
	fx.Fuzz(f, fx.Spec[RTCase]{Prop: "C17", Name: "roundtrip", Gen: genRT, Run: runRT})
}
