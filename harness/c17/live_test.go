package c17

import (
	"bytes"
	"encoding/binary"
	"encoding/hex"
	"errors"
	"fmt"
	"net"
	"testing"
	"time"

	"github.com/samber/lo"

	v1 "github.com/fatedier/frp/pkg/config/v1"
	"github.com/fatedier/frp/pkg/msg"
	netpkg "github.com/fatedier/frp/pkg/util/net"
	"pgregory.net/rapid"

	"verifharness/fx"
)

// ---- sub-check 3: the same byte strings as the first bytes of a connection to a live server that
// also hosts a legitimate session -------------------------------------------------------------------

type LiveCase struct {
	TCPMux bool      `json:"tcpmux"`
	TLS    bool      `json:"tls"`
	Frames []DecCase `json:"frames"`
	Stallers  int    `json:"stallers"`  // peers that send a header plus part of the body and then stay silent, while an honest login arrives
	Pipelined int    `json:"pipelined"` // >0: a peer that sends its Login and the first bytes of what follows in ONE write (split point variants)
}

func genLive(t *rapid.T) LiveCase {
	c := LiveCase{TCPMux: rapid.Bool().Draw(t, "tcpmux"), TLS: rapid.Bool().Draw(t, "tls")}
	n := rapid.IntRange(1, 6).Draw(t, "n")
	for i := 0; i < n; i++ {
		d := genDec(t)
		if (incomplete(d.Hex) || len(d.Hex) < 20) && !fx.Thorough() {
			d = DecCase{Hex: hex.EncodeToString(frame('h', 2, []byte("{}"))), Kind: "unexpected-ping"} // incomplete frames wait for the 10 s read timeout: thorough only
		}
		c.Frames = append(c.Frames, d)
	}
	// always include a well-formed message that is not legal as first message
	ty := rapid.SampledFrom([]byte{'h', '4', '1', 'p', '2', 'c', 'r', 's', 'u', 'i', 'n', 'm', '5', '6', '3'}).Draw(t, "unexpected")
	c.Frames = append(c.Frames, DecCase{Hex: hex.EncodeToString(frame(ty, 2, []byte("{}"))), Kind: "unexpected-" + string(ty)})
	c.Pipelined = rapid.IntRange(0, 3).Draw(t, "pipelined")
	c.Stallers = rapid.SampledFrom([]int{0, 0, 1, 3}).Draw(t, "stallers")
	return c
}

func runLive(c LiveCase) error {
	s, err := fx.StartServer(fx.WithServerTCPMux(c.TCPMux))
	if err != nil {
		return err
	}
	defer s.Close()
	common := func() *v1.ClientCommonConfig {
		return fx.ScriptedCommon(s, func(cc *v1.ClientCommonConfig) {
			cc.Transport.TCPMux = lo.ToPtr(c.TCPMux)
			cc.Transport.TLS.Enable = lo.ToPtr(c.TLS)
		})
	}
	by, err := fx.ConnectCommon(common(), "by", "", 1, fx.TagWork("BY"))
	if err != nil {
		return fmt.Errorf("legitimate login: %v", err)
	}
	defer by.Close()
	if r, e := by.NewProxy(&msg.NewProxy{ProxyName: "by", ProxyType: "tcp", RemotePort: s.AllowPort(0)}, 5*time.Second); e != nil || r.Error != "" {
		return fmt.Errorf("registration: %v %+v", e, r)
	}
	if c.Stallers > 0 {
		// incomplete first messages must not delay anybody else: the decoder of one connection waiting for the rest of
		// its frame is that connection's business only
		var stalled []net.Conn
		for k := 0; k < c.Stallers; k++ {
			cn, e := by.RawConn()
			if e != nil {
				return fx.Inconclusive("raw conn: %v", e)
			}
			stalled = append(stalled, cn)
			_, _ = cn.Write(append(frame('o', 200, nil), []byte(`{"version":"0.6`)...)) // header announcing 200 bytes, 15 of them sent
		}
		time.Sleep(50 * time.Millisecond)
		t0 := time.Now()
		honest, e := fx.ConnectCommon(common(), "honest", "", 0, nil)
		took := time.Since(t0)
		for _, cn := range stalled {
			cn.Close()
		}
		if e != nil {
			return fmt.Errorf("with %d peers stalled in the middle of their first message, an honest login failed: %v", c.Stallers, e)
		}
		honest.Close()
		if took > 3*time.Second {
			return fmt.Errorf("with %d peers stalled in the middle of their first message, an honest login took %v", c.Stallers, took)
		}
		for k := 0; k < 200; k++ { // until the honest session and the stalled connections are gone again
			if sn := s.Snapshot(); sn == nil || len(sn.Sessions) <= 1 {
				break
			}
			time.Sleep(10 * time.Millisecond)
		}
	}
	base := s.Snapshot()
	for i, f := range c.Frames {
		raw, _ := hex.DecodeString(f.Hex)
		conn, e := by.RawConn() // a fresh connection / stream through the same transport
		if e != nil {
			return fx.Inconclusive("raw conn: %v", e)
		}
		_, _ = conn.Write(raw)
		// a valid first message would be Login / NewWorkConn / NewVisitorConn with a decodable body: those are
		// answered, everything else must be disconnected
		bound := 3 * time.Second
		// without stream multiplexing the bytes first pass the port multiplexer, which waits (up to its own
		// timeout) for the 10 bytes its longest protocol signature needs
		if incomplete(f.Hex) || (!c.TCPMux && len(raw) < 10) {
			bound = 13 * time.Second // the server waits up to its 10 s read timeout for the rest of the frame
		}
		m, derr, _ := safeRead(newBytesReader(raw))
		legal := false
		if derr == nil {
			switch m.(type) {
			case *msg.Login, *msg.NewWorkConn, *msg.NewVisitorConn:
				legal = true
			}
		}
		_ = conn.SetReadDeadline(time.Now().Add(bound))
		buf := make([]byte, 4096)
		closed := false
		for {
			_, e := conn.Read(buf)
			if e != nil {
				var ne net.Error
				closed = !(errors.As(e, &ne) && ne.Timeout())
				break
			}
		}
		conn.Close()
		if !closed && !legal {
			return fmt.Errorf("frame %d (%s, %d bytes: %.40s...) as first bytes of a connection: the peer is still connected after %v", i, f.Kind, len(raw), f.Hex, bound)
		}
		// other sessions unaffected
		if _, e := by.Ping(&msg.Ping{}, 4*time.Second); e != nil {
			return fmt.Errorf("after frame %d (%s) the legitimate session no longer answers pings: %v", i, f.Kind, e)
		}
	}
	if c.Pipelined > 0 {
		// the decoder must consume exactly one frame: a peer that does not wait for the LoginResp before it sends the
		// start of its encrypted control stream (IV + a Ping) must still get its Pong
		conn, e := by.RawConn()
		if e != nil {
			return fx.Inconclusive("raw conn: %v", e)
		}
		defer conn.Close()
		var first bytes.Buffer
		if e := msg.WriteMsg(&first, by.LoginMsg("pipe", "", 0)); e != nil {
			return fx.Inconclusive("%v", e)
		}
		var rest bytes.Buffer
		crw, e := netpkg.NewCryptoReadWriter(&rest, []byte(fx.Token))
		if e != nil {
			return fx.Inconclusive("%v", e)
		}
		if e := msg.WriteMsg(crw, &msg.Ping{}); e != nil {
			return fx.Inconclusive("%v", e)
		}
		all := append(append([]byte{}, first.Bytes()...), rest.Bytes()...)
		switch c.Pipelined {
		case 1: // everything in one write
			_, _ = conn.Write(all)
		case 2: // the frame plus a few bytes of what follows, then the rest
			k := first.Len() + 5
			_, _ = conn.Write(all[:k])
			time.Sleep(20 * time.Millisecond)
			_, _ = conn.Write(all[k:])
		case 3: // split inside the frame, the tail of the frame together with what follows
			k := first.Len() / 2
			_, _ = conn.Write(all[:k])
			time.Sleep(20 * time.Millisecond)
			_, _ = conn.Write(all[k:])
		}
		_ = conn.SetReadDeadline(time.Now().Add(6 * time.Second))
		var lr msg.LoginResp
		if e := msg.ReadMsgInto(conn, &lr); e != nil || lr.Error != "" {
			return fmt.Errorf("pipelining peer (variant %d): login not answered with success: %v %q", c.Pipelined, e, lr.Error)
		}
		srw, e := netpkg.NewCryptoReadWriter(conn, []byte(fx.Token))
		if e != nil {
			return fx.Inconclusive("%v", e)
		}
		got := false
		for k := 0; k < 4 && !got; k++ {
			m, e := msg.ReadMsg(srw)
			if e != nil {
				return fmt.Errorf("pipelining peer (variant %d): logged in, but the Ping that followed the Login in the same write was never answered (%v): bytes after the first frame were lost", c.Pipelined, e)
			}
			if _, ok := m.(*msg.Pong); ok {
				got = true
			}
		}
		if !got {
			return fmt.Errorf("pipelining peer (variant %d): no Pong among the first messages", c.Pipelined)
		}
		conn.Close()
		time.Sleep(30 * time.Millisecond)
	}
	cn, e := net.DialTimeout("tcp", fmt.Sprintf("127.0.0.1:%d", s.AllowPort(0)), 2*time.Second)
	if e != nil {
		return fmt.Errorf("legitimate tunnel gone: %v", e)
	}
	line, e := fx.ReadLine(cn, 5*time.Second)
	cn.Close()
	if e != nil || line != "BY:by" {
		return fmt.Errorf("legitimate tunnel answers %q (%v) after the malformed first messages", line, e)
	}
	if now := s.Snapshot(); base != nil && (len(now.Sessions) != len(base.Sessions) || len(now.Proxies) != len(base.Proxies)) {
		return fmt.Errorf("malformed first messages changed the server's tables: sessions %v -> %v, proxies %v -> %v", base.Sessions, now.Sessions, base.Proxies, now.Proxies)
	}
	return nil
}

// incomplete: the decoder would keep waiting for more bytes (until the server's 10 s read timeout)
func incomplete(h string) bool {
	raw, _ := hex.DecodeString(h)
	if len(raw) == 0 {
		return true
	}
	if !isRegistered(raw[0]) {
		return false
	}
	if len(raw) < 9 {
		return true
	}
	declared := int64(binary.BigEndian.Uint64(raw[1:9]))
	if declared < 0 || declared > maxBody {
		return false
	}
	return int64(len(raw)-9) < declared
}

type bytesReader struct {
	b []byte
}

func newBytesReader(b []byte) *bytesReader { return &bytesReader{b} }
func (r *bytesReader) Read(p []byte) (int, error) {
	if len(r.b) == 0 {
		return 0, fmt.Errorf("EOF")
	}
	n := copy(p, r.b)
	r.b = r.b[n:]
	return n, nil
}

func TestLiveFirstMessage(t *testing.T) {
	fx.Prelease(2)
	fx.Run(t, fx.Spec[LiveCase]{Prop: "C17", Name: "live_first_message", Journal: true, Quick: 160, Thorough: 800, Gen: genLive, Run: runLive, ShrinkTime: "40s",
		Class: func(c LiveCase) fx.Class {
			return fx.Class{NonTrivial: true, Fingerprint: fmt.Sprintf("%+v", c)}
		}})
}
