// Package c14: dead peers are detected and tunnels heal themselves.
package c14

import (
	"io"
	"fmt"
	"net"
	"sync"
	"testing"
	"time"

	"github.com/samber/lo"

	v1 "github.com/fatedier/frp/pkg/config/v1"
	"github.com/fatedier/frp/pkg/msg"
	"github.com/fatedier/frp/pkg/util/util"
	"pgregory.net/rapid"

	"verifharness/fx"
)

func TestMain(m *testing.M) { fx.Main(m, "C14") }

// ---- (a) server-side watchdog ----------------------------------------------------------------------

type SCase struct {
	Timeout   int    `json:"timeout"`     // heartbeatTimeout seconds
	TCPMux    bool   `json:"tcpmux"`
	PingMs    int    `json:"ping_ms"`     // interval of valid pings
	Pings     int    `json:"pings"`       // number of valid pings before the peer falls silent
	After     string `json:"after"`       // silent | invalid (HeartBeats scope) | other (non-ping traffic) | keep
	Scope     bool   `json:"scope"`
}

func genS(t *rapid.T) SCase {
	c := SCase{Timeout: rapid.SampledFrom([]int{2, 3, 5, 6}).Draw(t, "timeout"), TCPMux: rapid.Bool().Draw(t, "tcpmux"), PingMs: rapid.SampledFrom([]int{300, 700, 1100}).Draw(t, "pingms"),
		Pings: rapid.IntRange(0, 8).Draw(t, "pings"), After: rapid.SampledFrom([]string{"silent", "silent", "invalid", "other", "keep"}).Draw(t, "after")}
	c.Scope = c.After == "invalid" || rapid.Bool().Draw(t, "scope")
	return c
}

func runS(c SCase) error {
	s, err := fx.StartServer(fx.WithServerTCPMux(c.TCPMux), fx.WithCfg(func(sc *v1.ServerConfig, b *fx.Block) {
		sc.Transport.HeartbeatTimeout = int64(c.Timeout)
		if c.Scope {
			sc.Auth.AdditionalScopes = []v1.AuthScope{v1.AuthScopeHeartBeats}
		}
	}))
	if err != nil {
		return err
	}
	defer s.Close()
	sc, err := fx.ConnectCommon(fx.ScriptedCommon(s, func(cc *v1.ClientCommonConfig) { cc.Transport.TCPMux = lo.ToPtr(c.TCPMux) }), "u", "", 0, nil)
	if err != nil {
		return fmt.Errorf("login: %v", err)
	}
	defer sc.Close()
	resp, err := sc.NewProxy(&msg.NewProxy{ProxyName: "p", ProxyType: "tcp", RemotePort: s.AllowPort(0)}, 5*time.Second)
	if err != nil || resp.Error != "" {
		return fmt.Errorf("registration: %v %+v", err, resp)
	}
	validPing := func() *msg.Ping {
		ts := time.Now().Unix()
		return &msg.Ping{Timestamp: ts, PrivilegeKey: util.GetAuthKey(fx.Token, ts)}
	}
	lastValid := time.Now() // the login counts as sign of life
	T := time.Duration(c.Timeout) * time.Second
	for i := 0; i < c.Pings; i++ {
		time.Sleep(time.Duration(c.PingMs) * time.Millisecond)
		if !sc.ControlAlive() {
			return fmt.Errorf("session closed %v after its last valid heartbeat although heartbeats arrive every %dms (timeout %ds)", time.Since(lastValid), c.PingMs, c.Timeout)
		}
		if _, e := sc.Ping(validPing(), 3*time.Second); e != nil {
			return fmt.Errorf("valid ping %d not answered: %v", i, e)
		}
		lastValid = time.Now()
	}
	stop := make(chan struct{})
	var wg sync.WaitGroup
	switch c.After {
	case "keep":
		// a peer that keeps pinging is never torn down: observe 3*T
		end := time.Now().Add(3 * T)
		for time.Now().Before(end) {
			time.Sleep(time.Duration(c.PingMs) * time.Millisecond)
			if _, e := sc.Ping(validPing(), 3*time.Second); e != nil {
				return fmt.Errorf("session torn down (%v) although valid heartbeats arrive every %dms, timeout %ds", e, c.PingMs, c.Timeout)
			}
		}
		close(stop)
		return nil
	case "invalid":
		wg.Add(1)
		go func() {
			defer wg.Done()
			for {
				select {
				case <-stop:
					return
				case <-time.After(300 * time.Millisecond):
					_ = sc.Send(&msg.Ping{Timestamp: time.Now().Unix(), PrivilegeKey: "not-the-key"})
				}
			}
		}()
	case "other":
		// traffic that is not a heartbeat must not count as one
		wg.Add(1)
		go func() {
			defer wg.Done()
			for {
				select {
				case <-stop:
					return
				case <-time.After(300 * time.Millisecond):
					_ = sc.Send(&msg.CloseProxy{ProxyName: "no-such-proxy"})
				}
			}
		}()
	}
	defer func() { close(stop); wg.Wait() }()
	// the control connection must be closed within [T, T + 1 s tick + slack] of the last valid heartbeat, wherever in
	// the server's checking rhythm that heartbeat fell (timeouts of 5 - 6 s with up to 8 s of heartbeats before the
	// silence put it at every phase)
	err = sc.WaitControlClosed(T + 1*time.Second + 2000*time.Millisecond - time.Since(lastValid))
	elapsed := time.Since(lastValid)
	if err != nil {
		return fmt.Errorf("peer fell silent (%s) but its session is still up %v after the last valid heartbeat (timeout %ds)", c.After, elapsed, c.Timeout)
	}
	if elapsed < T-200*time.Millisecond {
		return fmt.Errorf("session torn down %v after the last valid heartbeat, before the timeout of %ds", elapsed, c.Timeout)
	}
	// all its resources are released: another session gets the port at once
	time.Sleep(50 * time.Millisecond)
	other, err := fx.ConnectCommon(fx.ScriptedCommon(s, func(cc *v1.ClientCommonConfig) { cc.Transport.TCPMux = lo.ToPtr(c.TCPMux) }), "u2", "", 0, nil)
	if err != nil {
		return fmt.Errorf("login after the teardown: %v", err)
	}
	defer other.Close()
	resp, err = other.NewProxy(&msg.NewProxy{ProxyName: "p", ProxyType: "tcp", RemotePort: s.AllowPort(0)}, 5*time.Second)
	if err != nil || resp.Error != "" {
		return fmt.Errorf("the dead session's name/port are not released after the heartbeat timeout: %v %+v", err, resp)
	}
	return nil
}

func TestServerWatchdog(t *testing.T) {
	fx.Prelease(2)
	fx.Run(t, fx.Spec[SCase]{Prop: "C14", Name: "server_watchdog", Journal: true, Quick: 32, Thorough: 600, Gen: genS, Run: runS, Retry: true, ShrinkTime: "60s",
		Class: func(c SCase) fx.Class {
			return fx.Class{NonTrivial: c.Pings > 0 || c.After != "silent", Fingerprint: fmt.Sprintf("%+v", c), Labels: []string{"after=" + c.After}}
		}})
}

// ---- (b) client-side watchdog and reconnect back-off -------------------------------------------------

type CCase struct {
	Fault    string `json:"fault"`    // mute (server stops answering pings) | refuse (logins refused) | drop (logins dropped) | cut (control cut)
	AfterMs  int    `json:"after_ms"` // when the fault starts
	ForMs    int    `json:"for_ms"`   // how long logins are refused / dropped
	Proxies  int    `json:"proxies"`
	Repeat   int    `json:"repeat"`
}

func genC(t *rapid.T) CCase {
	return CCase{Fault: rapid.SampledFrom([]string{"mute", "refuse", "drop", "cut"}).Draw(t, "fault"), AfterMs: rapid.SampledFrom([]int{100, 600, 1500}).Draw(t, "after"),
		ForMs: rapid.SampledFrom([]int{1500, 4000, 9000}).Draw(t, "for"), Proxies: rapid.IntRange(1, 3).Draw(t, "proxies"), Repeat: rapid.IntRange(1, 2).Draw(t, "repeat")}
}

func runC(c CCase) error {
	blk, err := fx.Lease()
	if err != nil {
		return fx.Inconclusive("%v", err)
	}
	defer blk.Release()
	ss, err := fx.NewScriptedServer(blk.Port(0))
	if err != nil {
		return fx.Inconclusive("%v", err)
	}
	defer ss.Close()
	var mu sync.Mutex
	refuseUntil := time.Time{}
	mode := ""
	ss.LoginReply = func(n int, _ *msg.Login) string {
		mu.Lock()
		defer mu.Unlock()
		if time.Now().Before(refuseUntil) {
			if mode == "drop" {
				return "drop"
			}
			return "scripted refusal"
		}
		return ""
	}
	common := &v1.ClientCommonConfig{}
	common.ServerAddr, common.ServerPort = "127.0.0.1", ss.Port()
	common.Auth.Token = fx.Token
	common.LoginFailExit = lo.ToPtr(false)
	common.Transport.TCPMux = lo.ToPtr(false)
	common.Transport.TLS.Enable = lo.ToPtr(false)
	common.Transport.HeartbeatInterval = 1
	common.Transport.HeartbeatTimeout = 3
	common.Log.Level = "error"
	var pcs []v1.ProxyConfigurer
	var names []string
	for i := 0; i < c.Proxies; i++ {
		p := &v1.TCPProxyConfig{}
		p.Name, p.Type, p.LocalIP, p.LocalPort, p.RemotePort = fmt.Sprintf("p%d", i), "tcp", "127.0.0.1", 9, 6000+i
		p.Complete("")
		pcs = append(pcs, p)
		names = append(names, p.Name)
	}
	cl, err := fx.StartClient(common, pcs, nil)
	if err != nil {
		return fx.Inconclusive("%v", err)
	}
	defer cl.Close()
	allRegistered := func(within time.Duration) error {
		deadline := time.Now().Add(within)
		for {
			reg := ss.Registered()
			ok := true
			for _, n := range names {
				if reg[n] == nil {
					ok = false
				}
			}
			if ok {
				return nil
			}
			if time.Now().After(deadline) {
				return fmt.Errorf("registered %d of %d proxies", len(reg), len(names))
			}
			time.Sleep(10 * time.Millisecond)
		}
	}
	if e := allRegistered(5 * time.Second); e != nil {
		return fmt.Errorf("initial registration: %v", e)
	}
	for rep := 0; rep < c.Repeat; rep++ {
		time.Sleep(time.Duration(c.AfterMs) * time.Millisecond)
		faultAt := ss.Now()
		switch c.Fault {
		case "mute":
			ss.MutePong = true
			// the client must give up the silent session within heartbeatTimeout (3 s) + 1 s tick + slack
			deadline := time.Now().Add(3*time.Second + 1*time.Second + 2500*time.Millisecond)
			closed := false
			for time.Now().Before(deadline) && !closed {
				for _, e := range ss.Events() {
					if e.Kind == "ControlClosed" && e.T >= faultAt {
						closed = true
						if d := e.T - faultAt; d < 1800*time.Millisecond {
							return fmt.Errorf("client gave up the session %v after the server fell silent; heartbeatTimeout is 3 s (interval 1 s)", d)
						}
					}
				}
				time.Sleep(20 * time.Millisecond)
			}
			if !closed {
				return fmt.Errorf("server stopped answering heartbeats but the client still holds the session %v later (heartbeatTimeout 3 s)", time.Since(time.Now().Add(-6500*time.Millisecond)))
			}
			ss.MutePong = false
		case "refuse", "drop":
			mu.Lock()
			mode = c.Fault
			refuseUntil = time.Now().Add(time.Duration(c.ForMs) * time.Millisecond)
			mu.Unlock()
			ss.DropControls()
			time.Sleep(time.Duration(c.ForMs) * time.Millisecond)
		case "cut":
			ss.DropControls()
		}
		// healing: logged in again and ALL proxies registered again, within the back-off ceiling
		bound := 8 * time.Second
		if c.Fault == "refuse" || c.Fault == "drop" {
			bound = 22 * time.Second // next attempt may be up to maxInterval (20 s) away
		}
		if e := allRegistered(bound); e != nil {
			return fmt.Errorf("after fault %q (%dms) the client did not heal within %v: %v; logins seen at %v", c.Fault, c.ForMs, bound, e, loginTimes(ss))
		}
		// every login after the first presents the run id the server assigned then: that is what lets the server
		// replace the client's previous session instead of being blocked by it (also right after a refused attempt)
		assigned := ""
		for k, e := range ss.Events() {
			if e.Kind != "Login" {
				continue
			}
			rid, _ := e.Msg.(string)
			if assigned == "" {
				assigned = fmt.Sprintf("scripted%08d", e.Conn)
				if rid != "" {
					assigned = rid
				}
				continue
			}
			if rid != assigned {
				return fmt.Errorf("after fault %q the client logged in with run id %q (event %d), the run id it was given is %q: the server cannot tell it is the same client", c.Fault, rid, k, assigned)
			}
		}
		// not in a tight loop: attempt rate envelope
		var logins []time.Duration
		for _, e := range ss.Events() {
			if e.Kind == "Login" && e.T >= faultAt {
				logins = append(logins, e.T)
			}
		}
		for i := 1; i < len(logins); i++ {
			if gap := logins[i] - logins[i-1]; gap < 80*time.Millisecond {
				return fmt.Errorf("two login attempts %v apart: retrying in a tight loop (logins at %v)", gap, loginTimes(ss))
			}
		}
		for i := range logins {
			n := 0
			for _, l := range logins[i:] {
				if l-logins[i] <= 10*time.Second {
					n++
				}
			}
			if n > 20 {
				return fmt.Errorf("%d login attempts within 10 s (logins at %v)", n, loginTimes(ss))
			}
		}
	}
	return nil
}

func loginTimes(ss *fx.ScriptedServer) []int64 {
	var out []int64
	for _, e := range ss.Events() {
		if e.Kind == "Login" {
			out = append(out, e.T.Milliseconds())
		}
	}
	return out
}

func TestClientWatchdogAndBackoff(t *testing.T) {
	fx.Run(t, fx.Spec[CCase]{Prop: "C14", Name: "client_watchdog_backoff", Journal: true, Quick: 24, Thorough: 400, Gen: genC, Run: runC, Retry: true, ShrinkTime: "60s",
		Class: func(c CCase) fx.Class {
			return fx.Class{NonTrivial: true, Fingerprint: fmt.Sprintf("%+v", c), Labels: []string{"fault=" + c.Fault}}
		}})
}

// ---- (c) healing end to end: real frpc + real frps, server restarts on the same port ---------------------

type HCase struct {
	Outages []int `json:"outages_ms"` // server down for this long, then restarted on the same ports
	Kinds   []string `json:"kinds"`   // per outage: "down" (nothing listens) | "blackhole" (something accepts, swallows everything, never answers or closes)
	TLS     bool  `json:"tls"`
	Bulk    int   `json:"bulk"` // further stcp proxies of the same client (no traffic): many proxies make the teardown burst large
	DefaultExit bool `json:"default_login_fail_exit"` // loginFailExit left at its default (true): it governs the FIRST login only
	Reload  bool  `json:"reload_during_outage"` // the configuration is reloaded while the server is away: one proxy added, one removed
	UpMs    int   `json:"up_ms"`
	TCPMux  bool  `json:"tcpmux"`
	Proxies int   `json:"proxies"`
}

func genHeal(t *rapid.T) HCase {
	c := HCase{UpMs: rapid.SampledFrom([]int{200, 1500}).Draw(t, "up"), TCPMux: rapid.Bool().Draw(t, "tcpmux"), Proxies: rapid.IntRange(1, 3).Draw(t, "proxies")}
	n := rapid.IntRange(1, 2).Draw(t, "n")
	for i := 0; i < n; i++ {
		c.Outages = append(c.Outages, rapid.SampledFrom([]int{0, 300, 1500, 4000}).Draw(t, fmt.Sprintf("o%d", i)))
		c.Kinds = append(c.Kinds, rapid.SampledFrom([]string{"down", "down", "blackhole", "dark"}).Draw(t, fmt.Sprintf("k%d", i)))
	}
	c.TLS = rapid.Bool().Draw(t, "tls")
	c.Reload = rapid.IntRange(0, 2).Draw(t, "reload") == 0
	c.DefaultExit = rapid.Bool().Draw(t, "defaultexit")
	c.Bulk = rapid.SampledFrom([]int{0, 0, 0, 0, 30, 150}).Draw(t, "bulk")
	return c
}

func runHeal(c HCase) error {
	blk, err := fx.Lease()
	if err != nil {
		return fx.Inconclusive("%v", err)
	}
	defer blk.Release()
	opts := []fx.ServerOpt{fx.WithServerTCPMux(c.TCPMux)}
	s, err := fx.StartServerOn(blk, opts...)
	if err != nil {
		return err
	}
	defer func() { s.Close() }()
	// backends
	var bls []net.Listener
	defer func() {
		for _, l := range bls {
			l.Close()
		}
	}()
	var pcs []v1.ProxyConfigurer
	for i := 0; i < c.Proxies; i++ {
		l, e := net.Listen("tcp", "127.0.0.1:0")
		if e != nil {
			return fx.Inconclusive("%v", e)
		}
		bls = append(bls, l)
		tag := fmt.Sprintf("B%d\n", i)
		go func() {
			for {
				cn, e := l.Accept()
				if e != nil {
					return
				}
				_, _ = cn.Write([]byte(tag))
				cn.Close()
			}
		}()
		p := &v1.TCPProxyConfig{}
		p.Name, p.Type, p.LocalIP, p.LocalPort, p.RemotePort = fmt.Sprintf("p%d", i), "tcp", "127.0.0.1", l.Addr().(*net.TCPAddr).Port, s.AllowPort(i)
		pcs = append(pcs, p)
	}
	for i := 0; i < c.Bulk; i++ {
		p := &v1.STCPProxyConfig{Secretkey: "sk"}
		p.Name, p.Type, p.LocalIP, p.LocalPort = fmt.Sprintf("bulk%d", i), "stcp", "127.0.0.1", 9
		pcs = append(pcs, p)
	}
	common := fx.BaseClientConfig(s)
	common.Transport.TCPMux = lo.ToPtr(c.TCPMux)
	common.Transport.TLS.Enable = lo.ToPtr(c.TLS)
	hasDark := false
	for _, k := range c.Kinds {
		if k == "dark" {
			hasDark = true
		}
	}
	var relay *fx.Relay
	if hasDark {
		// the client reaches the server through a relay that can make the path go dark; the client notices through
		// its own heartbeat timeout (3 s) long before the server would (its timeout stays at the default 90 s)
		r, e := fx.NewRelay(blk.Port(fx.SlotExtra+6), s.BindAddr(), "")
		if e != nil {
			return fx.Inconclusive("relay: %v", e)
		}
		relay = r
		defer relay.Close()
		common.ServerPort = relay.Port
		common.Transport.HeartbeatInterval, common.Transport.HeartbeatTimeout = 1, 3
	}
	if c.DefaultExit {
		common.LoginFailExit = nil // the default: exit when the first login fails (the server is up, so it does not)
	}
	if !c.TCPMux {
		common.Transport.HeartbeatInterval, common.Transport.HeartbeatTimeout = 1, 3
	}
	var swallowed []net.Conn
	var swMu sync.Mutex
	defer func() {
		swMu.Lock()
		for _, cn := range swallowed {
			cn.Close()
		}
		swMu.Unlock()
	}()
	cl, err := fx.StartClient(common, pcs, nil)
	if err != nil {
		return fx.Inconclusive("%v", err)
	}
	defer cl.Close()
	var removed []int
	active := make([]int, 0, c.Proxies+1)
	for i := 0; i < c.Proxies; i++ {
		active = append(active, i)
	}
	tunnelsOK := func(within time.Duration) error {
		deadline := time.Now().Add(within)
		var last error
		for {
			ok := true
			for _, i := range active {
				cn, e := net.DialTimeout("tcp", fmt.Sprintf("127.0.0.1:%d", s.AllowPort(i)), time.Second)
				if e != nil {
					ok, last = false, e
					break
				}
				line, e := fx.ReadLine(cn, 2*time.Second)
				cn.Close()
				if e != nil || line != fmt.Sprintf("B%d", i) {
					ok, last = false, fmt.Errorf("proxy p%d answered %q (%v)", i, line, e)
					break
				}
			}
			if ok {
				return nil
			}
			if time.Now().After(deadline) {
				return last
			}
			time.Sleep(50 * time.Millisecond)
		}
	}
	if e := tunnelsOK(6 * time.Second); e != nil {
		return fmt.Errorf("initial tunnels: %v", e)
	}
	for k, o := range c.Outages {
		time.Sleep(time.Duration(c.UpMs) * time.Millisecond)
		if k < len(c.Kinds) && c.Kinds[k] == "dark" {
			// no restart: the established connections silently stop carrying anything, new ones work. The client's
			// heartbeat timeout makes it log in again while the server still holds the old session.
			relay.GoDark()
			if e := tunnelsOK(3*time.Second + 20*time.Second + 4*time.Second); e != nil {
				return fmt.Errorf("outage %d (dark path, tls=%v tcpMux=%v): 27 s after the established connections went dark (client heartbeat timeout 3 s) the tunnels still do not work: %v", k, c.TLS, c.TCPMux, e)
			}
			continue
		}
		s.Close()
		if c.Reload && k == 0 {
			// `frpc reload` while the server is away - and the client has noticed and is in its reconnect loop:
			// a new proxy appears, the first one goes (if another remains)
			time.Sleep(600 * time.Millisecond)
			l, e := net.Listen("tcp", "127.0.0.1:0")
			if e != nil {
				return fx.Inconclusive("%v", e)
			}
			bls = append(bls, l)
			ni := c.Proxies // (pcs may also hold bulk stcp proxies)
			tag := fmt.Sprintf("B%d\n", ni)
			go func() {
				for {
					cn, e := l.Accept()
					if e != nil {
						return
					}
					_, _ = cn.Write([]byte(tag))
					cn.Close()
				}
			}()
			np := &v1.TCPProxyConfig{}
			np.Name, np.Type, np.LocalIP, np.LocalPort, np.RemotePort = fmt.Sprintf("p%d", ni), "tcp", "127.0.0.1", l.Addr().(*net.TCPAddr).Port, s.AllowPort(ni)
			np.Complete(common.User)
			pcs = append(pcs, np)
			active = append(active, ni)
			cur := append([]v1.ProxyConfigurer(nil), pcs...)
			if c.Proxies >= 2 {
				cur = cur[1:]
				active = active[1:]
				removed = append(removed, 0)
			}
			if e := cl.Svc.UpdateAllConfigurer(cur, nil); e != nil {
				return fx.Inconclusive("reload: %v", e)
			}
		}
		if k < len(c.Kinds) && c.Kinds[k] == "blackhole" {
			// something still completes TCP handshakes on the server's port, reads what arrives and never answers
			// nor closes (a frozen server behind a live kernel, a relay in front of a dead server)
			var bl net.Listener
			var le error
			for try := 0; try < 20; try++ {
				if bl, le = net.Listen("tcp", s.BindAddr()); le == nil {
					break
				}
				time.Sleep(50 * time.Millisecond)
			}
			if le != nil {
				return fx.Inconclusive("black hole listener: %v", le)
			}
			go func() {
				for {
					cn, e := bl.Accept()
					if e != nil {
						return
					}
					swMu.Lock()
					swallowed = append(swallowed, cn)
					swMu.Unlock()
					go func() { _, _ = io.Copy(io.Discard, cn) }()
				}
			}()
			time.Sleep(time.Duration(o) * time.Millisecond)
			bl.Close() // the swallowed connections stay open and silent
		} else {
			time.Sleep(time.Duration(o) * time.Millisecond)
		}
		ns, e := fx.StartServerOn(blk, opts...)
		if e != nil {
			// the old listener may need a moment to go away
			time.Sleep(300 * time.Millisecond)
			ns, e = fx.StartServerOn(blk, opts...)
			if e != nil {
				return fx.Inconclusive("restart: %v", e)
			}
		}
		s = ns
		// once the server is reachable again: logged in and all proxies carry traffic within the back-off ceiling
		if e := tunnelsOK(20*time.Second + 4*time.Second + 4*time.Second); e != nil {
			kind := "down"
			if k < len(c.Kinds) {
				kind = c.Kinds[k]
			}
			return fmt.Errorf("outage %d (%s, %d ms, tls=%v tcpMux=%v, reloaded during the outage=%v, configured proxies now %v): 28 s after the server came back the tunnels still do not work: %v", k, kind, o, c.TLS, c.TCPMux, c.Reload && k == 0, active, e)
		}
		for _, ri := range removed {
			if cn, e := net.DialTimeout("tcp", fmt.Sprintf("127.0.0.1:%d", s.AllowPort(ri)), time.Second); e == nil {
				cn.Close()
				return fmt.Errorf("outage %d: proxy p%d was removed from the configuration during the outage, after the reconnect its port is served again", k, ri)
			}
		}
	}
	return nil
}

func TestHealing(t *testing.T) {
	fx.Run(t, fx.Spec[HCase]{Prop: "C14", Name: "healing", Journal: true, Quick: 16, Thorough: 300, Gen: genHeal, Run: runHeal, Retry: true, ShrinkTime: "60s",
		Class: func(c HCase) fx.Class {
			long := false
			for _, o := range c.Outages {
				if o >= 1500 {
					long = true
				}
			}
			var labels []string
			for _, k := range c.Kinds {
				labels = append(labels, "outage="+k)
			}
			return fx.Class{NonTrivial: long || len(c.Outages) > 1, Fingerprint: fmt.Sprintf("%+v", c), Labels: labels}
		}})
}
