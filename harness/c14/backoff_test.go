package c14

import (
	"fmt"
	"testing"
	"time"

	"github.com/fatedier/frp/pkg/util/wait"
	"pgregory.net/rapid"

	"verifharness/fx"
)

// ---- (d) the reconnect delay itself: bounded above by the configured maximum however long the outage lasts, never
// zero after a failure (no tight loop), growing by the configured factor in between. The live checks above can only
// afford outages of seconds; the delay sequence of an outage of any length is a function of the options alone.
type BCase struct {
	DurationMs int     `json:"duration_ms"`
	Factor     float64 `json:"factor"`
	Jitter     float64 `json:"jitter"`
	MaxMs      int     `json:"max_ms"`
	InitMs     int     `json:"init_ms"`
	FastCount  int     `json:"fast_count"`
	Errs       []bool  `json:"errs"` // outcome of each attempt: true = failed
}

func genB(t *rapid.T) BCase {
	c := BCase{DurationMs: rapid.SampledFrom([]int{0, 10, 1000}).Draw(t, "duration"), Factor: rapid.SampledFrom([]float64{0, 1.5, 2, 2, 3}).Draw(t, "factor"),
		Jitter: rapid.SampledFrom([]float64{0, 0.1, 0.1, 0.5}).Draw(t, "jitter"), MaxMs: rapid.SampledFrom([]int{5000, 10000, 20000, 20000, 60000}).Draw(t, "max"),
		InitMs: rapid.SampledFrom([]int{0, 1000}).Draw(t, "init"), FastCount: rapid.SampledFrom([]int{0, 3, 3}).Draw(t, "fast")}
	if rapid.IntRange(0, 2).Draw(t, "production") == 0 {
		// what client/service.go uses for the login loop
		c.DurationMs, c.Factor, c.Jitter, c.MaxMs, c.InitMs, c.FastCount = 1000, 2, 0.1, rapid.SampledFrom([]int{10000, 20000}).Draw(t, "pmax"), 0, 3
	}
	n := rapid.IntRange(1, 40).Draw(t, "n")
	for i := 0; i < n; i++ {
		c.Errs = append(c.Errs, rapid.IntRange(0, 9).Draw(t, fmt.Sprintf("e%d", i)) != 0)
	}
	return c
}

func runB(c BCase) error {
	ms := func(v int) time.Duration { return time.Duration(v) * time.Millisecond }
	opt := wait.FastBackoffOptions{Duration: ms(c.DurationMs), Factor: c.Factor, Jitter: c.Jitter, MaxDuration: ms(c.MaxMs), InitDurationIfFail: ms(c.InitMs),
		FastRetryCount: c.FastCount, FastRetryDelay: 200 * time.Millisecond, FastRetryJitter: 0.2, FastRetryWindow: time.Minute}
	bm := wait.NewFastBackoffManager(opt)
	delay := bm.Backoff(0, false) // BackoffUntil's first call
	prevErr := false
	var seq []time.Duration
	for i, failed := range c.Errs {
		before := delay
		delay = bm.Backoff(delay, prevErr) // as BackoffUntil does before each attempt (non-sliding)
		seq = append(seq, delay)
		if delay > opt.MaxDuration && delay > opt.Duration {
			return fmt.Errorf("attempt %d: the delay before the next attempt is %v, the configured maximum is %v (delays so far %v)", i, delay, opt.MaxDuration, seq)
		}
		if prevErr && delay <= 0 {
			return fmt.Errorf("attempt %d: delay %v after a failed attempt: a tight retry loop (delays so far %v)", i, delay, seq)
		}
		if prevErr && delay > 300*time.Millisecond && opt.Factor > 1 && before > 300*time.Millisecond {
			// outside the fast-retry phase: grown by the factor (plus at most the jitter), or capped
			lo := min(opt.MaxDuration, time.Duration(float64(before)*opt.Factor))
			if delay < lo-time.Millisecond && i > 0 && c.Errs[i-1] && i > 1 && c.Errs[i-2] {
				return fmt.Errorf("attempt %d: delay %v after %v, expected at least %v (factor %v, max %v; delays so far %v)", i, delay, before, lo, opt.Factor, opt.MaxDuration, seq)
			}
		}
		prevErr = failed
	}
	return nil
}

func TestBackoffBound(t *testing.T) {
	fx.Run(t, fx.Spec[BCase]{Prop: "C14", Name: "backoff_bound", Quick: 4000, Thorough: 200000, Gen: genB, Run: runB,
		Class: func(c BCase) fx.Class {
			run, best := 0, 0
			for _, e := range c.Errs {
				if e {
					run++
					best = max(best, run)
				} else {
					run = 0
				}
			}
			return fx.Class{NonTrivial: best >= 8, Fingerprint: fmt.Sprintf("%+v", c), Labels: []string{fmt.Sprintf("longest-failure-run>=8:%v", best >= 8)}}
		}})
}
