module verifharness

go 1.23.0

require (
	github.com/fatedier/frp v0.0.0
	pgregory.net/rapid v1.3.0
)

require github.com/fatedier/golib v0.5.1 // indirect

replace github.com/fatedier/frp => /repo

replace github.com/hashicorp/yamux => github.com/fatedier/yamux v0.0.0-20230628132301-7aca4898904d
