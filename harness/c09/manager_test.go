// Package c09: remote ports — whitelisted, exclusive, truthfully reported, quota-bounded.
package c09

import (
	"errors"
	"fmt"
	"net"
	"testing"

	"github.com/fatedier/frp/pkg/config/types"
	"github.com/fatedier/frp/server/ports"
	"pgregory.net/rapid"

	"verifharness/fx"
)

func TestMain(m *testing.M) { fx.Main(m, "C09") }

// ---- (a) ports.Manager against a reference allocator -------------------------------

type MOp struct {
	Kind string `json:"kind"` // acquire release squat unsquat
	Name int    `json:"name"`
	Port int    `json:"port"` // offset into the allow range; special values below
	Late bool   `json:"late,omitempty"` // acquire: the caller binds the granted port only after the NEXT operation (two registrations in flight at once: the port manager grants, the proxy listens later)
}

type MCase struct {
	Proto string `json:"proto"`
	NAllow int   `json:"nallow"`
	Ops   []MOp  `json:"ops"`
}

const (
	portZero     = -1
	portOutside  = -2
	portNegative = -3
	portHuge     = -4
)

func genM(t *rapid.T) MCase {
	c := MCase{Proto: rapid.SampledFrom([]string{"tcp", "udp"}).Draw(t, "proto"), NAllow: rapid.IntRange(1, 6).Draw(t, "nallow")}
	n := rapid.IntRange(2, 30).Draw(t, "nops")
	for i := 0; i < n; i++ {
		k := rapid.SampledFrom([]string{"acquire", "acquire", "acquire", "acquire", "release", "release", "squat", "unsquat"}).Draw(t, "kind")
		op := MOp{Kind: k, Name: rapid.IntRange(0, 4).Draw(t, "name")}
		switch k {
		case "acquire":
			op.Port = rapid.SampledFrom([]int{portZero, portZero, portZero, 0, 1, 2, 3, 4, 5, portOutside, portNegative, portHuge}).Draw(t, "port")
			op.Late = rapid.IntRange(0, 3).Draw(t, "late") == 0
		default:
			op.Port = rapid.IntRange(0, 5).Draw(t, "port")
		}
		c.Ops = append(c.Ops, op)
	}
	return c
}

type closer interface{ Close() error }

func bind(proto string, port int) (closer, error) {
	if proto == "udp" {
		return net.ListenUDP("udp", &net.UDPAddr{IP: net.ParseIP("127.0.0.1"), Port: port})
	}
	return net.Listen("tcp", fmt.Sprintf("127.0.0.1:%d", port))
}

func runM(c MCase) error {
	b, err := fx.Lease()
	if err != nil {
		return fx.Inconclusive("%v", err)
	}
	defer b.Release()
	base := b.Port(fx.SlotAllow)
	pm := ports.NewManager(c.Proto, "127.0.0.1", []types.PortsRange{{Start: base, End: base + c.NAllow - 1}})
	allowed := func(p int) bool { return p >= base && p < base+c.NAllow }
	owned := map[int]string{}    // port -> name (model)
	holder := map[int]closer{}   // the caller's own bind, as TCPProxy.Run / UDPProxy.Run do
	squat := map[int]closer{}    // ports bound by "another process"
	last := map[string]int{}     // name -> last port acquired
	pending := map[int]int{}     // granted port not yet bound by its owner -> step at which it was granted
	defer func() {
		for _, h := range holder {
			h.Close()
		}
		for _, h := range squat {
			h.Close()
		}
	}()
	freeAvail := func() []int {
		var out []int
		for p := base; p < base+c.NAllow; p++ {
			if _, o := owned[p]; !o && squat[p] == nil {
				out = append(out, p)
			}
		}
		return out
	}
	for i, op := range c.Ops {
		name := fmt.Sprintf("n%d", op.Name)
		for p, at := range pending {
			if at < i-1 {
				h, be := bind(c.Proto, p)
				if be != nil {
					return fmt.Errorf("step %d: port %d granted to %s at step %d cannot be bound by its owner: %v", i, p, owned[p], at, be)
				}
				holder[p] = h
				delete(pending, p)
			}
		}
		switch op.Kind {
		case "acquire":
			req := 0
			switch op.Port {
			case portZero:
				req = 0
			case portOutside:
				req = base + c.NAllow + 1
			case portNegative:
				req = -7
			case portHuge:
				req = 70000
			default:
				req = base + op.Port // may be outside when op.Port >= NAllow
			}
			got, e := pm.Acquire(name, req)
			if req != 0 {
				_, isOwned := owned[req]
				switch {
				case !allowed(req):
					if e == nil {
						return fmt.Errorf("step %d: port %d outside allowPorts [%d,%d] was granted", i, req, base, base+c.NAllow-1)
					}
					if !errors.Is(e, ports.ErrPortNotAllowed) {
						return fmt.Errorf("step %d: port %d outside allowPorts refused with %v, want not-allowed", i, req, e)
					}
				case isOwned:
					if e == nil {
						return fmt.Errorf("step %d: port %d already owned by %s was granted again to %s", i, req, owned[req], name)
					}
					if !errors.Is(e, ports.ErrPortAlreadyUsed) {
						return fmt.Errorf("step %d: owned port refused with %v, want already-used", i, e)
					}
				case squat[req] != nil:
					if e == nil {
						return fmt.Errorf("step %d: port %d bound by another process was granted", i, req)
					}
					if !errors.Is(e, ports.ErrPortUnAvailable) {
						return fmt.Errorf("step %d: squatted port refused with %v, want unavailable", i, e)
					}
				default:
					if e != nil {
						return fmt.Errorf("step %d: free allowed port %d refused: %v", i, req, e)
					}
					if got != req {
						return fmt.Errorf("step %d: asked for %d, got %d", i, req, got)
					}
				}
			} else {
				fa := freeAvail()
				if e != nil {
					// "none available" is only right when nothing is free, or when the bounded
					// number of probes (5) could all have hit squatted ports
					nSquatFree := 0
					nFree := 0
					for p := base; p < base+c.NAllow; p++ {
						if _, o := owned[p]; !o {
							nFree++
							if squat[p] != nil {
								nSquatFree++
							}
						}
					}
					if len(fa) > 0 && nSquatFree < min(5, nFree) {
						return fmt.Errorf("step %d: server-chosen port refused (%v) although %v are free and available", i, e, fa)
					}
				} else {
					if !allowed(got) {
						return fmt.Errorf("step %d: server-chosen port %d outside allowPorts", i, got)
					}
					if _, o := owned[got]; o {
						return fmt.Errorf("step %d: server-chosen port %d is already owned by %s", i, got, owned[got])
					}
					if squat[got] != nil {
						return fmt.Errorf("step %d: server-chosen port %d is bound by another process", i, got)
					}
					if prev, ok := last[name]; ok {
						if _, o := owned[prev]; !o && squat[prev] == nil && got != prev {
							return fmt.Errorf("step %d: %s asked for a server-chosen port, previous port %d is free, got %d", i, name, prev, got)
						}
					}
				}
			}
			if e == nil {
				owned[got] = name
				last[name] = got
				if op.Late {
					pending[got] = i
				} else {
					h, be := bind(c.Proto, got)
					if be != nil {
						return fmt.Errorf("step %d: granted port %d cannot be bound: %v", i, got, be)
					}
					holder[got] = h
				}
			}
		case "release":
			p := base + op.Port
			if _, o := owned[p]; !o {
				continue
			}
			if h := holder[p]; h != nil {
				h.Close()
			}
			delete(holder, p)
			delete(pending, p)
			pm.Release(p)
			delete(owned, p)
		case "squat":
			p := base + op.Port
			if _, o := owned[p]; o || squat[p] != nil {
				continue
			}
			h, e := bind(c.Proto, p)
			if e != nil {
				return fx.Inconclusive("squat bind: %v", e)
			}
			squat[p] = h
		case "unsquat":
			p := base + op.Port
			if squat[p] != nil {
				squat[p].Close()
				delete(squat, p)
			}
		}
	}
	return nil
}

func classM(c MCase) fx.Class {
	refusal, reacq, zeroAfterRelease := false, false, false
	released := map[int]bool{}
	relNames := map[int]bool{}
	var sig []string
	for _, op := range c.Ops {
		sig = append(sig, fmt.Sprintf("%s%d:%d", op.Kind[:2], op.Name, op.Port))
		switch op.Kind {
		case "release":
			released[op.Port] = true
		case "acquire":
			if op.Port < portZero || op.Port >= c.NAllow {
				refusal = true
			}
			if op.Port >= 0 && released[op.Port] {
				reacq = true
			}
			if op.Port == portZero && relNames[op.Name] {
				zeroAfterRelease = true
			}
			relNames[op.Name] = true
		}
	}
	var labels []string
	if zeroAfterRelease {
		labels = append(labels, "port0-after-previous")
	}
	return fx.Class{NonTrivial: (refusal && reacq) || zeroAfterRelease, Fingerprint: fmt.Sprint(c.Proto, c.NAllow, sig), Labels: labels}
}

func TestManagerModel(t *testing.T) {
	fx.Run(t, fx.Spec[MCase]{Prop: "C09", Name: "manager_model", Quick: 4000, Thorough: 200000, Gen: genM, Run: runM, Class: classM})
}
