package c09

import (
	"fmt"
	"testing"
	"time"

	"github.com/fatedier/frp/pkg/msg"
	"pgregory.net/rapid"

	"verifharness/fx"
)

// ---- (c) gated schedules: a udp proxy's late second Close vs a new owner of its port ----

type GCase struct {
	Port        int  `json:"port"`
	Cycles      int  `json:"cycles"`
	SameSession bool `json:"same_session"`
	NewName     bool `json:"new_name"`
}

func genG(t *rapid.T) GCase {
	return GCase{Port: rapid.IntRange(0, 5).Draw(t, "port"), Cycles: rapid.IntRange(1, 3).Draw(t, "cycles"),
		SameSession: rapid.Bool().Draw(t, "same"), NewName: rapid.Bool().Draw(t, "newname")}
}

func runG(c GCase) error {
	if !fx.GatesAvailable {
		return fx.Inconclusive("no hooks: gated schedule skipped")
	}
	defer fx.ClearGates()
	s, err := fx.StartServer()
	if err != nil {
		return err
	}
	defer s.Close()
	a, err := fx.Connect(s, "a", 0)
	if err != nil {
		return fmt.Errorf("login: %v", err)
	}
	defer a.Close()
	b := a
	if !c.SameSession {
		b, err = fx.Connect(s, "b", 0)
		if err != nil {
			return fmt.Errorf("login: %v", err)
		}
		defer b.Close()
	}
	port := s.AllowPort(c.Port)
	name := "u-old"
	owner := a
	for cyc := 0; cyc < c.Cycles; cyc++ {
		resp, e := owner.NewProxy(&msg.NewProxy{ProxyName: name, ProxyType: "udp", RemotePort: port}, 5*time.Second)
		if e != nil || resp.Error != "" {
			return fmt.Errorf("cycle %d: udp registration of free port refused: %v %+v", cyc, e, resp)
		}
		// hold the second Close of this proxy (the one issued by the datagram-forwarding goroutine)
		g := fx.HoldGate("udp.close", 2, fx.KeyIs(0, name))
		_ = owner.CloseProxy(name)
		if e := owner.Sync(3 * time.Second); e != nil {
			return fmt.Errorf("cycle %d: %v", cyc, e)
		}
		if !g.WaitArrived(3 * time.Second) {
			g.Release()
			return fx.Inconclusive("gate udp.close not reached (not placed?)")
		}
		// the port is free now: somebody else takes it while the old proxy's late Close is pending
		next := b
		nname := name
		if c.NewName {
			nname = fmt.Sprintf("u-new%d", cyc)
		}
		resp, e = next.NewProxy(&msg.NewProxy{ProxyName: nname, ProxyType: "udp", RemotePort: port}, 5*time.Second)
		if e != nil || resp.Error != "" {
			g.Release()
			return fmt.Errorf("cycle %d: port %d returned by a closed udp proxy is not immediately available: %v %+v", cyc, port, e, resp)
		}
		g.Release()
		time.Sleep(30 * time.Millisecond)
		if snap := s.Snapshot(); snap != nil {
			found := false
			for _, p := range snap.UDPUsed {
				if p == port {
					found = true
				}
			}
			if !found {
				return fmt.Errorf("cycle %d: udp port %d is bound by live proxy %s but the server's accounting says it is free (late Close of the previous owner released it)", cyc, port, nname)
			}
		}
		// a third party must not be able to get the port while the new owner lives
		resp, e = a.NewProxy(&msg.NewProxy{ProxyName: "u-third", ProxyType: "udp", RemotePort: port}, 5*time.Second)
		if e == nil && resp.Error == "" {
			return fmt.Errorf("cycle %d: udp port %d owned by %s was granted to a second proxy", cyc, port, nname)
		}
		name, owner = nname, next
		// clean close for the next cycle
		_ = owner.CloseProxy(name)
		if e := owner.Sync(3 * time.Second); e != nil {
			return fmt.Errorf("cycle %d: %v", cyc, e)
		}
		time.Sleep(10 * time.Millisecond)
		if snap := s.Snapshot(); snap != nil && len(snap.UDPUsed) != 0 {
			return fmt.Errorf("cycle %d: all udp proxies closed but accounting still lists %v", cyc, snap.UDPUsed)
		}
	}
	return nil
}

func TestGatedSchedules(t *testing.T) {
	fx.Run(t, fx.Spec[GCase]{Prop: "C09", Name: "gated_udp_late_close", Journal: true, Quick: 64, Thorough: 600, Gen: genG, Run: runG,
		Class: func(c GCase) fx.Class {
			return fx.Class{NonTrivial: true, Fingerprint: fmt.Sprint(c), Labels: []string{fmt.Sprintf("same=%v", c.SameSession)}}
		}})
}
