package c09

import (
	"bufio"
	"fmt"
	"net"
	"sort"
	"strconv"
	"strings"
	"sync"
	"testing"
	"time"

	"github.com/fatedier/frp/pkg/config/types"
	v1 "github.com/fatedier/frp/pkg/config/v1"
	"github.com/fatedier/frp/pkg/msg"
	"pgregory.net/rapid"

	"verifharness/fx"
)

// ---- (b) whole server histories -----------------------------------------------------

type SOp struct {
	Kind  string `json:"kind"` // reg close drop login squat unsquat dial
	Slot  int    `json:"slot"`
	Name  int    `json:"name"`
	Proto string `json:"proto,omitempty"`
	Port  int    `json:"port,omitempty"` // offset or special
	Group int    `json:"group,omitempty"` // 0 none, 1..2 group id
	Key   int    `json:"key,omitempty"`
	InFlight bool `json:"in_flight,omitempty"` // drop: a registration (tcp, server-chosen port) is sent right before the connection is closed
}

type SCase struct {
	NAllow int   `json:"nallow"`
	Quota  int   `json:"quota"`
	Ops    []SOp `json:"ops"`
}

func genS(t *rapid.T) SCase {
	c := SCase{NAllow: rapid.IntRange(3, 8).Draw(t, "nallow"), Quota: rapid.SampledFrom([]int{0, 0, 1, 2, 3}).Draw(t, "quota")}
	n := rapid.IntRange(3, 24).Draw(t, "nops")
	for i := 0; i < n; i++ {
		k := rapid.SampledFrom([]string{"reg", "reg", "reg", "reg", "reg", "close", "close", "drop", "login", "squat", "unsquat", "dial"}).Draw(t, "kind")
		op := SOp{Kind: k, Slot: rapid.IntRange(0, 2).Draw(t, "slot"), Name: rapid.IntRange(0, 5).Draw(t, "name")}
		switch k {
		case "reg":
			op.Proto = rapid.SampledFrom([]string{"tcp", "tcp", "tcp", "udp"}).Draw(t, "proto")
			op.Port = rapid.SampledFrom([]int{portZero, portZero, 0, 1, 2, 3, 4, portOutside, portNegative, portHuge}).Draw(t, "port")
			if op.Proto == "tcp" {
				op.Group = rapid.SampledFrom([]int{0, 0, 0, 1, 1, 2}).Draw(t, "group")
				if op.Group > 0 {
					op.Key = rapid.SampledFrom([]int{0, 0, 0, 1}).Draw(t, "key")
				}
			}
		case "squat", "unsquat":
			op.Proto = rapid.SampledFrom([]string{"tcp", "udp"}).Draw(t, "proto")
			op.Port = rapid.IntRange(0, 4).Draw(t, "port")
		case "drop":
			op.InFlight = rapid.Bool().Draw(t, "inflight")
		}
		c.Ops = append(c.Ops, op)
	}
	return c
}

type pxy struct {
	slot  int
	proto string
	port  int
	group int
}

type grp struct {
	key     int
	reqPort int // the requested port parameter all members must repeat
	port    int // real port
	members map[string]bool
}

func runS(c SCase) error {
	s, err := fx.StartServer(fx.WithCfg(func(sc *v1.ServerConfig, b *fx.Block) {
		sc.AllowPorts = []types.PortsRange{{Start: b.Port(fx.SlotAllow), End: b.Port(fx.SlotAllow) + c.NAllow - 1}}
		sc.MaxPortsPerClient = int64(c.Quota)
	}))
	if err != nil {
		return err
	}
	defer s.Close()
	base := s.AllowPort(0)
	allowed := func(p int) bool { return p >= base && p < base+c.NAllow }

	type sessT struct {
		sc  *fx.ScriptedClient
		tag string
	}
	slots := map[int]*sessT{}
	gens := map[int]int{}
	var udpMu sync.Mutex
	udpSeen := map[string][]string{} // proxy name -> payloads received on its work connection
	defer func() {
		for _, ss := range slots {
			ss.sc.Close()
		}
	}()
	handler := func(tag string) func(*fx.ScriptedClient, net.Conn, *msg.StartWorkConn) {
		return func(_ *fx.ScriptedClient, wc net.Conn, st *msg.StartWorkConn) {
			if strings.HasPrefix(st.ProxyName, "u") {
				defer wc.Close()
				for {
					m, e := msg.ReadMsg(wc)
					if e != nil {
						return
					}
					if p, ok := m.(*msg.UDPPacket); ok {
						udpMu.Lock()
						udpSeen[st.ProxyName] = append(udpSeen[st.ProxyName], p.Content)
						udpMu.Unlock()
					}
				}
			}
			fx.TagWork(tag)(nil, wc, st)
		}
	}
	connect := func(slot int) error {
		gens[slot]++
		tag := fmt.Sprintf("S%dG%d", slot, gens[slot])
		sc, e := fx.ConnectCommon(fx.ScriptedCommon(s), "u", "", 0, handler(tag))
		if e != nil {
			return fmt.Errorf("login: %v", e)
		}
		slots[slot] = &sessT{sc, tag}
		return nil
	}
	for i := 0; i < 2; i++ {
		if e := connect(i); e != nil {
			return e
		}
	}
	pname := func(proto string, n int) string { return fmt.Sprintf("%s%d", proto[:1], n) }
	live := map[string]*pxy{}
	owned := map[string]map[int]string{"tcp": {}, "udp": {}} // proto -> port -> proxy name or "group:<id>"
	groups := map[int]*grp{}
	squat := map[string]map[int]closer{"tcp": {}, "udp": {}}
	last := map[string]int{}
	defer func() {
		for _, m := range squat {
			for _, h := range m {
				h.Close()
			}
		}
	}()
	used := func(slot int) int {
		n := 0
		for _, p := range live {
			if p.slot == slot {
				n++
			}
		}
		return n
	}
	freeAvail := func(proto string) []int {
		var out []int
		for p := base; p < base+c.NAllow; p++ {
			if _, o := owned[proto][p]; !o && squat[proto][p] == nil {
				out = append(out, p)
			}
		}
		return out
	}
	removeProxy := func(name string) {
		p := live[name]
		if p == nil {
			return
		}
		delete(live, name)
		if p.group > 0 {
			g := groups[p.group]
			delete(g.members, name)
			if len(g.members) == 0 {
				delete(owned["tcp"], g.port)
				delete(groups, p.group)
			}
			return
		}
		delete(owned[p.proto], p.port)
	}
	// dialling the reported address must reach exactly that proxy (or a member of its group)
	truth := func(step int, name string) error {
		p := live[name]
		if p == nil || p.proto != "tcp" {
			return nil
		}
		conn, e := net.DialTimeout("tcp", fmt.Sprintf("127.0.0.1:%d", p.port), 2*time.Second)
		if e != nil {
			return fmt.Errorf("step %d: proxy %s was told its remote address is :%d but nothing accepts connections there: %v", step, name, p.port, e)
		}
		defer conn.Close()
		_ = conn.SetReadDeadline(time.Now().Add(5 * time.Second))
		line, e := bufio.NewReader(conn).ReadString('\n')
		if e != nil {
			return fmt.Errorf("step %d: connection to reported address :%d of %s was not bridged to its owner (%v)", step, p.port, name, e)
		}
		parts := strings.SplitN(strings.TrimSpace(line), ":", 2)
		if len(parts) != 2 {
			return fmt.Errorf("step %d: odd answer %q", step, line)
		}
		ok := parts[1] == name
		if p.group > 0 {
			ok = groups[p.group].members[parts[1]]
		}
		if !ok {
			return fmt.Errorf("step %d: connection to reported address :%d of %s reached proxy %q", step, p.port, name, parts[1])
		}
		q := live[parts[1]]
		if q == nil || slots[q.slot] == nil || slots[q.slot].tag != parts[0] {
			return fmt.Errorf("step %d: connection to :%d answered by session %s, owner of %s is another session", step, p.port, parts[0], parts[1])
		}
		return nil
	}
	consistency := func(step int) error {
		snap := s.Snapshot()
		if snap != nil {
			for _, proto := range []string{"tcp", "udp"} {
				var want []int
				for p := range owned[proto] {
					want = append(want, p)
				}
				sort.Ints(want)
				got := snap.TCPUsed
				if proto == "udp" {
					got = snap.UDPUsed
				}
				if fmt.Sprint(want) != fmt.Sprint(append([]int{}, got...)) && !(len(want) == 0 && len(got) == 0) {
					return fmt.Errorf("step %d: server %s accounting says ports %v are owned, the history implies %v", step, proto, got, want)
				}
				for _, p := range got {
					if !allowed(p) {
						return fmt.Errorf("step %d: server owns %s port %d outside allowPorts", step, proto, p)
					}
				}
			}
			if c.Quota > 0 {
				for slot, ss := range slots {
					if n := snap.PortsUsedNum[ss.sc.RunID]; n != used(slot) {
						return fmt.Errorf("step %d: session S%d quota counter is %d, it holds %d ports", step, slot, n, used(slot))
					}
					if used(slot) > c.Quota {
						return fmt.Errorf("step %d: session S%d holds %d ports, maxPortsPerClient=%d", step, slot, used(slot), c.Quota)
					}
				}
			}
		}
		// OS view: tcp ports of the allow range accept connections iff owned (or squatted by the harness)
		for p := base; p < base+c.NAllow; p++ {
			_, o := owned["tcp"][p]
			can := fx.CanConnect(fmt.Sprintf("127.0.0.1:%d", p))
			if can != (o || squat["tcp"][p] != nil) {
				return fmt.Errorf("step %d: tcp port %d accepts connections=%v but owned=%v squatted=%v", step, p, can, o, squat["tcp"][p] != nil)
			}
			_, ou := owned["udp"][p]
			h, e := bind("udp", p)
			if e == nil {
				h.Close()
			}
			if (e != nil) != (ou || squat["udp"][p] != nil) {
				return fmt.Errorf("step %d: udp port %d bound=%v but owned=%v squatted=%v", step, p, e != nil, ou, squat["udp"][p] != nil)
			}
		}
		return nil
	}

	for i, op := range c.Ops {
		ss := slots[op.Slot]
		switch op.Kind {
		case "login":
			if ss == nil {
				if e := connect(op.Slot); e != nil {
					return e
				}
			}
		case "drop":
			if ss == nil {
				continue
			}
			if op.InFlight {
				// a registration is on its way when the session ends: afterwards nothing of it may be left
				_ = ss.sc.Send(&msg.NewProxy{ProxyName: fmt.Sprintf("inflight-%d-%d", op.Slot, i), ProxyType: "tcp", RemotePort: 0})
			}
			ss.sc.Close()
			delete(slots, op.Slot)
			for n, p := range live {
				if p.slot == op.Slot {
					removeProxy(n)
				}
			}
			if op.InFlight {
				time.Sleep(40 * time.Millisecond)
			}
			deadline := time.Now().Add(3 * time.Second)
			for time.Now().Before(deadline) {
				snap := s.Snapshot()
				if snap == nil {
					time.Sleep(150 * time.Millisecond)
					break
				}
				gone := true
				for _, id := range snap.Sessions {
					if id == ss.sc.RunID {
						gone = false
					}
				}
				if gone {
					break
				}
				time.Sleep(time.Millisecond)
			}
		case "squat":
			p := base + op.Port
			if !allowed(p) || squat[op.Proto][p] != nil {
				continue
			}
			if _, o := owned[op.Proto][p]; o {
				continue
			}
			h, e := bind(op.Proto, p)
			if e != nil {
				return fmt.Errorf("step %d: harness cannot bind free %s port %d: %v (server's accounting says free)", i, op.Proto, p, e)
			}
			squat[op.Proto][p] = h
		case "unsquat":
			p := base + op.Port
			if h := squat[op.Proto][p]; h != nil {
				h.Close()
				delete(squat[op.Proto], p)
			}
		case "close":
			if ss == nil {
				continue
			}
			for _, proto := range []string{"tcp", "udp"} {
				n := pname(proto, op.Name)
				_ = ss.sc.CloseProxy(n)
				if p := live[n]; p != nil && p.slot == op.Slot {
					removeProxy(n)
				}
			}
			if e := ss.sc.Sync(3 * time.Second); e != nil {
				return fmt.Errorf("step %d: session dead after CloseProxy: %v", i, e)
			}
		case "dial":
			for _, proto := range []string{"tcp"} {
				if e := truth(i, pname(proto, op.Name)); e != nil {
					return e
				}
			}
		case "reg":
			if ss == nil {
				continue
			}
			name := pname(op.Proto, op.Name)
			req := 0
			switch op.Port {
			case portZero:
			case portOutside:
				req = base + c.NAllow + 2
			case portNegative:
				req = -5
			case portHuge:
				req = 65536 + base
			default:
				req = base + op.Port
			}
			m := &msg.NewProxy{ProxyName: name, ProxyType: op.Proto, RemotePort: req}
			if op.Group > 0 {
				m.Group = fmt.Sprintf("g%d", op.Group)
				m.GroupKey = fmt.Sprintf("k%d", op.Key)
			}
			resp, e := ss.sc.NewProxy(m, 5*time.Second)
			if e != nil {
				return fmt.Errorf("step %d: no response to NewProxy %s: %v", i, name, e)
			}
			accepted := resp.Error == ""
			// ---- reference decision
			_, nameLive := live[name]
			quotaOK := c.Quota == 0 || used(op.Slot)+1 <= c.Quota
			var want, mayEither bool
			var wantPort int
			g := groups[op.Group]
			switch {
			case nameLive || !quotaOK:
				want = false
			case op.Group > 0 && g != nil:
				want = g.key == op.Key && g.reqPort == req
				wantPort = g.port
			case req != 0:
				_, o := owned[op.Proto][req]
				want = allowed(req) && !o && squat[op.Proto][req] == nil
				wantPort = req
			default:
				fa := freeAvail(op.Proto)
				want = len(fa) > 0
				if len(fa) > 0 {
					nSq := len(squat[op.Proto])
					if nSq > 0 {
						mayEither = true // bounded probing may hit squatted ports only
					}
				}
				if prev, ok := last[op.Proto+name]; ok {
					if _, o := owned[op.Proto][prev]; !o && squat[op.Proto][prev] == nil {
						wantPort = prev
					}
				}
			}
			if accepted != want && !(mayEither && !accepted) {
				return fmt.Errorf("step %d: NewProxy %s (%s port %d group %d key %d) by S%d: accepted=%v (%q), reference says %v [name live=%v quota ok=%v]",
					i, name, op.Proto, req, op.Group, op.Key, op.Slot, accepted, resp.Error, want, nameLive, quotaOK)
			}
			if !accepted {
				continue
			}
			_, portS, e2 := net.SplitHostPort(resp.RemoteAddr)
			port, _ := strconv.Atoi(portS)
			if e2 != nil || port == 0 {
				return fmt.Errorf("step %d: odd remote address %q", i, resp.RemoteAddr)
			}
			if !allowed(port) {
				return fmt.Errorf("step %d: %s was given port %d outside allowPorts [%d,%d]", i, name, port, base, base+c.NAllow-1)
			}
			if wantPort != 0 && port != wantPort {
				return fmt.Errorf("step %d: %s asked for port %d and was given %d, expected %d", i, name, req, port, wantPort)
			}
			acquiredItself := op.Group == 0
			if op.Group > 0 {
				if g == nil {
					acquiredItself = true // the group's port is acquired from the port manager in the name of its first member
					if o, ok := owned["tcp"][port]; ok {
						return fmt.Errorf("step %d: new group given port %d already owned by %s", i, port, o)
					}
					g = &grp{key: op.Key, reqPort: req, port: port, members: map[string]bool{}}
					groups[op.Group] = g
					owned["tcp"][port] = fmt.Sprintf("group:%d", op.Group)
				}
				g.members[name] = true
			} else {
				if o, ok := owned[op.Proto][port]; ok {
					return fmt.Errorf("step %d: %s given %s port %d already owned by %s", i, name, op.Proto, port, o)
				}
				owned[op.Proto][port] = name
			}
			if acquiredItself {
				// "its previous port": the port this name was granted by the port manager. A later member of a group shares
				// the group's port without having been granted it; what the manager remembers for that name is unchanged.
				last[op.Proto+name] = port
			}
			live[name] = &pxy{slot: op.Slot, proto: op.Proto, port: port, group: op.Group}
			if e := truth(i, name); e != nil {
				return e
			}
		}
		if i%4 == 3 {
			if e := consistency(i); e != nil {
				return e
			}
		}
	}
	if e := consistency(len(c.Ops)); e != nil {
		return e
	}
	for n := range live {
		if e := truth(len(c.Ops), n); e != nil {
			return fmt.Errorf("final: %v", e)
		}
	}
	// udp truthfulness: a datagram to the reported port reaches the owner's work connection
	var udps []string
	for n, p := range live {
		if p.proto == "udp" {
			udps = append(udps, n)
		}
	}
	sort.Strings(udps)
	if len(udps) > 0 && (fx.Thorough() || len(c.Ops)%3 == 0) {
		n := udps[0]
		p := live[n]
		uc, e := net.DialUDP("udp", nil, &net.UDPAddr{IP: net.ParseIP("127.0.0.1"), Port: p.port})
		if e == nil {
			defer uc.Close()
			deadline := time.Now().Add(4 * time.Second)
			ok := false
			for time.Now().Before(deadline) && !ok {
				_, _ = uc.Write([]byte("ping-" + n))
				time.Sleep(100 * time.Millisecond)
				udpMu.Lock()
				ok = len(udpSeen[n]) > 0
				udpMu.Unlock()
			}
			if !ok {
				return fmt.Errorf("final: datagrams sent to the reported udp port %d of %s never reached its owner", p.port, n)
			}
		}
	}
	return nil
}

func classS(c SCase) fx.Class {
	regs, closes, invalid, grouped, zero := 0, 0, 0, 0, 0
	seen := map[string]bool{}
	zeroAfter := false
	var sig []string
	for _, op := range c.Ops {
		sig = append(sig, fmt.Sprintf("%s%d.%d.%s%d.g%d.%d", op.Kind[:2], op.Slot, op.Name, op.Proto, op.Port, op.Group, op.Key))
		switch op.Kind {
		case "reg":
			regs++
			if op.Port < portZero {
				invalid++
			}
			if op.Group > 0 {
				grouped++
			}
			k := fmt.Sprint(op.Proto, op.Name)
			if op.Port == portZero {
				zero++
				if seen[k] {
					zeroAfter = true
				}
			}
			seen[k] = true
		case "close", "drop":
			closes++
		}
	}
	labels := []string{fmt.Sprintf("quota=%d", c.Quota)}
	if grouped > 0 {
		labels = append(labels, "grouped")
	}
	if zeroAfter {
		labels = append(labels, "port0-after-previous")
	}
	if invalid > 0 {
		labels = append(labels, "invalid-port")
	}
	return fx.Class{NonTrivial: (regs >= 2 && closes >= 1 && (invalid > 0 || c.Quota > 0)) || zeroAfter, Fingerprint: fmt.Sprint(c.NAllow, c.Quota, sig), Labels: labels}
}

func TestServerHistories(t *testing.T) {
	fx.Prelease(3)
	fx.Run(t, fx.Spec[SCase]{Prop: "C09", Name: "server_histories", Journal: true, Quick: 1200, Thorough: 40000, Gen: genS, Run: runS, Class: classS})
}
