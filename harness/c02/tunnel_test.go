package c02

import (
	"bufio"
	"bytes"
	"fmt"
	"io"
	"net"
	"net/http"
	"strings"
	"sync"
	"testing"
	"time"

	"github.com/samber/lo"

	v1 "github.com/fatedier/frp/pkg/config/v1"
	"pgregory.net/rapid"

	"verifharness/fx"
)

// ---- upgrade / CONNECT tunnels and the error paths -------------------------------------------------------

type TCase struct {
	Kind     string `json:"kind"` // upgrade | connect | unreachable | silent | hold
	Held     int    `json:"held"` // hold: streamed responses kept open on the route while another request must still be served
	Enc      bool   `json:"enc"`
	Comp     bool   `json:"comp"`
	TCPMux   bool   `json:"tcpmux"`
	TimeoutS int    `json:"timeout_s"` // vhostHTTPTimeout
	Up       Body   `json:"up"`        // bytes the user writes after the switch
	Down     Body   `json:"down"`      // bytes the backend writes after the switch
	Closer   string `json:"closer"`    // who closes after the exchange: user | backend
	Method   string `json:"method"`    // error paths: request method
	BodyLen  int    `json:"body_len"`  // error paths: request body
	Others   int    `json:"others"`    // normal requests issued on other connections while the faulty one is pending
	Linger   bool   `json:"linger"`    // tunnels: both writers stop after half of their stream for longer than vhostHTTPTimeout, then go on
}

func genT(t *rapid.T) TCase {
	c := TCase{Kind: rapid.SampledFrom([]string{"upgrade", "upgrade", "connect", "unreachable", "silent", "hold"}).Draw(t, "kind"), Enc: rapid.Bool().Draw(t, "enc"), Comp: rapid.Bool().Draw(t, "comp"),
		TCPMux: rapid.Bool().Draw(t, "tcpmux"), TimeoutS: rapid.IntRange(1, 2).Draw(t, "timeout"), Closer: rapid.SampledFrom([]string{"user", "backend"}).Draw(t, "closer"),
		Method: rapid.SampledFrom([]string{"GET", "POST", "PUT"}).Draw(t, "method"), Others: rapid.IntRange(0, 3).Draw(t, "others")}
	lens := []int{0, 1, 17, 4096, 65537, 300000}
	c.Up = Body{Len: rapid.SampledFrom(lens).Draw(t, "uplen"), Seed: rapid.Uint32().Draw(t, "upseed"), Chunk: rapid.SampledFrom([]int{1, 100, 4096, 65536}).Draw(t, "upchunk")}
	c.Down = Body{Len: rapid.SampledFrom(lens).Draw(t, "downlen"), Seed: rapid.Uint32().Draw(t, "downseed"), Chunk: rapid.SampledFrom([]int{1, 100, 4096, 65536}).Draw(t, "downchunk")}
	c.Linger = rapid.IntRange(0, 2).Draw(t, "linger") == 0
	c.Held = rapid.SampledFrom([]int{2, 5, 6, 9}).Draw(t, "held")
	if c.Method != "GET" {
		// several MiB: more than the buffers between frps and frpc hold, so the request cannot be written out unless somebody reads it
		c.BodyLen = rapid.SampledFrom([]int{0, 10, 70000, 8 << 20, 24 << 20}).Draw(t, "bodylen")
	}
	return c
}

// writeLinger writes the first half, stays silent for d, writes the rest.
func writeLinger(w io.Writer, data []byte, chunk int, d time.Duration) error {
	if d <= 0 {
		return writeChunks(w, data, chunk)
	}
	if e := writeChunks(w, data[:len(data)/2], chunk); e != nil {
		return e
	}
	time.Sleep(d)
	return writeChunks(w, data[len(data)/2:], chunk)
}

func writeChunks(w io.Writer, data []byte, chunk int) error {
	if chunk <= 0 {
		chunk = 4096
	}
	if chunk == 1 && len(data) > 2000 {
		chunk = 7 // one-byte writes of a long stream only cost time
	}
	for off := 0; off < len(data); off += chunk {
		end := off + chunk
		if end > len(data) {
			end = len(data)
		}
		if _, e := w.Write(data[off:end]); e != nil {
			return e
		}
	}
	return nil
}

func runT(c TCase) error {
	s, err := fx.StartServer(fx.WithServerTCPMux(c.TCPMux), fx.WithVhostHTTP(), fx.WithCfg(func(sc *v1.ServerConfig, b *fx.Block) { sc.VhostHTTPTimeout = int64(c.TimeoutS) }))
	if err != nil {
		return err
	}
	defer s.Close()
	desc := fmt.Sprintf("[%s linger=%v enc=%v comp=%v tcpMux=%v timeout=%ds up=%d/%d down=%d/%d closer=%s %s body=%d others=%d held=%d]", c.Kind, c.Linger, c.Enc, c.Comp, c.TCPMux, c.TimeoutS, c.Up.Len, c.Up.Chunk, c.Down.Len, c.Down.Chunk, c.Closer, c.Method, c.BodyLen, c.Others, c.Held)

	up, down := bodyBytes(c.Up), bodyBytes(c.Down)
	var linger time.Duration
	if c.Linger {
		linger = time.Duration(c.TimeoutS)*time.Second + 700*time.Millisecond
	}
	type tunnelRes struct {
		got      []byte
		err      error
		closedAt time.Time
		reqLine  string
	}
	holdRelease := make(chan struct{})
	backendDone := make(chan tunnelRes, 4)
	silentHit := make(chan struct{}, 4)
	// route 0: the backend under test; route 1: a plain echoing backend for the bystander requests
	handler := http.HandlerFunc(func(w http.ResponseWriter, r *http.Request) {
		switch {
		case c.Kind == "hold":
			if strings.HasPrefix(r.URL.Path, "/hold") {
				w.Header().Set("Content-Type", "text/plain")
				w.WriteHeader(200)
				_, _ = io.WriteString(w, "first\n")
				if f, ok := w.(http.Flusher); ok {
					f.Flush()
				}
				select {
				case <-holdRelease:
				case <-r.Context().Done():
				case <-time.After(30 * time.Second):
				}
				_, _ = io.WriteString(w, "last\n")
				return
			}
			w.Header().Set("Content-Type", "text/plain")
			_, _ = io.WriteString(w, "fast:"+r.URL.Path)
		case c.Kind == "silent":
			_, _ = io.Copy(io.Discard, r.Body)
			silentHit <- struct{}{}
			<-r.Context().Done() // never answers
		case c.Kind == "upgrade" || c.Kind == "connect":
			hj, ok := w.(http.Hijacker)
			if !ok {
				return
			}
			cn, brw, e := hj.Hijack()
			if e != nil {
				return
			}
			defer cn.Close()
			if c.Kind == "upgrade" {
				_, _ = brw.WriteString("HTTP/1.1 101 Switching Protocols\r\nConnection: Upgrade\r\nUpgrade: websocket\r\nX-Backend-Saw: " + r.Method + " " + r.RequestURI + "\r\n\r\n")
			} else {
				_, _ = brw.WriteString("HTTP/1.1 200 Connection Established\r\n\r\n")
			}
			_ = brw.Flush()
			res := tunnelRes{reqLine: r.Method + " " + r.RequestURI}
			var wg sync.WaitGroup
			wg.Add(1)
			go func() {
				defer wg.Done()
				_ = writeLinger(cn, down, c.Down.Chunk, linger)
			}()
			_ = cn.SetReadDeadline(time.Now().Add(20 * time.Second))
			buf := make([]byte, 0, len(up))
			tmp := make([]byte, 64*1024)
			for len(buf) < len(up) {
				n, e := brw.Read(tmp)
				buf = append(buf, tmp[:n]...)
				if e != nil {
					res.err = e
					break
				}
			}
			wg.Wait()
			res.got = buf
			if c.Closer == "backend" {
				// everything exchanged (the user confirms by its own reads): close first
				time.Sleep(50 * time.Millisecond)
				cn.Close()
				res.closedAt = time.Now()
			} else {
				// wait for the user's close to arrive
				_ = cn.SetReadDeadline(time.Now().Add(8 * time.Second))
				for {
					n, e := brw.Read(tmp)
					if n > 0 {
						res.got = append(res.got, tmp[:n]...)
					}
					if e != nil {
						if e != io.EOF && !strings.Contains(e.Error(), "reset") {
							res.err = fmt.Errorf("waiting for the user's close: %w", e)
						}
						break
					}
				}
				res.closedAt = time.Now()
			}
			backendDone <- res
		default:
			w.WriteHeader(500)
		}
	})
	bln, e := net.Listen("tcp", "127.0.0.1:0")
	if e != nil {
		return fx.Inconclusive("%v", e)
	}
	bsv := &http.Server{Handler: handler}
	go func() { _ = bsv.Serve(bln) }()
	defer bsv.Close()
	port0 := bln.Addr().(*net.TCPAddr).Port
	if c.Kind == "unreachable" {
		bsv.Close() // nothing listens on the proxy's local port any more
	}
	oln, e := net.Listen("tcp", "127.0.0.1:0")
	if e != nil {
		return fx.Inconclusive("%v", e)
	}
	osv := &http.Server{Handler: http.HandlerFunc(func(w http.ResponseWriter, r *http.Request) {
		w.Header().Set("Content-Type", "text/plain")
		_, _ = io.WriteString(w, "other:"+r.URL.Path)
	})}
	go func() { _ = osv.Serve(oln) }()
	defer osv.Close()

	mk := func(name, domain string, port int, enc, comp bool) v1.ProxyConfigurer {
		p := &v1.HTTPProxyConfig{}
		p.Name, p.Type, p.LocalIP, p.LocalPort = name, "http", "127.0.0.1", port
		p.CustomDomains = []string{domain}
		p.Transport.UseEncryption, p.Transport.UseCompression = enc, comp
		return p
	}
	common := fx.BaseClientConfig(s)
	common.Transport.TCPMux = lo.ToPtr(c.TCPMux)
	common.User = "u"
	cl, err := fx.StartClient(common, []v1.ProxyConfigurer{mk("t0", domainOf(0), port0, c.Enc, c.Comp), mk("t1", domainOf(1), oln.Addr().(*net.TCPAddr).Port, false, false)}, nil)
	if err != nil {
		return fx.Inconclusive("client: %v", err)
	}
	defer cl.Close()
	if e := cl.WaitRunning(10*time.Second, "u.t0", "u.t1"); e != nil {
		return fx.Inconclusive("proxies did not come up: %v", e)
	}
	vhost := s.Addr(fx.SlotVhostHTTP)

	switch c.Kind {
	case "upgrade", "connect":
		cn, e := net.DialTimeout("tcp", vhost, 3*time.Second)
		if e != nil {
			return fx.Inconclusive("%v", e)
		}
		defer cn.Close()
		_ = cn.SetDeadline(time.Now().Add(25 * time.Second))
		wantLine := "GET /ws/chat?room=1%2F2"
		if c.Kind == "upgrade" {
			fmt.Fprintf(cn, "GET /ws/chat?room=1%%2F2 HTTP/1.1\r\nHost: %s\r\nConnection: Upgrade\r\nUpgrade: websocket\r\nSec-WebSocket-Key: dGhlIHNhbXBsZSBub25jZQ==\r\nSec-WebSocket-Version: 13\r\n\r\n", domainOf(0))
		} else {
			fmt.Fprintf(cn, "CONNECT %s:80 HTTP/1.1\r\nHost: %s:80\r\n\r\n", domainOf(0), domainOf(0))
			wantLine = "CONNECT " + domainOf(0) + ":80"
		}
		br := bufio.NewReaderSize(cn, 64*1024)
		status, e := br.ReadString('\n')
		if e != nil {
			return fmt.Errorf("%s: no answer to the %s request: %v", desc, c.Kind, e)
		}
		wantStatus := "101"
		if c.Kind == "connect" {
			wantStatus = "200"
		}
		if !strings.Contains(status, " "+wantStatus+" ") {
			return fmt.Errorf("%s: the %s request was answered %q", desc, c.Kind, strings.TrimSpace(status))
		}
		for {
			l, e := br.ReadString('\n')
			if e != nil {
				return fmt.Errorf("%s: reading the response headers: %v", desc, e)
			}
			if l == "\r\n" {
				break
			}
		}
		// from here on: a byte-transparent tunnel
		werr := make(chan error, 1)
		go func() { werr <- writeLinger(cn, up, c.Up.Chunk, linger) }()
		gotDown := make([]byte, 0, len(down))
		tmp := make([]byte, 64*1024)
		for len(gotDown) < len(down) {
			n, e := br.Read(tmp)
			gotDown = append(gotDown, tmp[:n]...)
			if e != nil {
				return fmt.Errorf("%s: after the switch the user received %d of %d bytes, then %v", desc, len(gotDown), len(down), e)
			}
		}
		if !bytes.Equal(gotDown, down) {
			return fmt.Errorf("%s: after the switch the user's bytes differ from what the backend wrote (%d vs %d bytes)", desc, len(gotDown), len(down))
		}
		if e := <-werr; e != nil {
			return fmt.Errorf("%s: user write after the switch: %v", desc, e)
		}
		var userSawClose time.Time
		if c.Closer == "user" {
			// the backend's handler finishes reading `up` before it waits for the close
			time.Sleep(30 * time.Millisecond)
			cn.Close()
		} else {
			_ = cn.SetReadDeadline(time.Now().Add(8 * time.Second))
			n, e := br.Read(tmp)
			if n > 0 {
				return fmt.Errorf("%s: %d bytes the backend never wrote arrived after the complete stream", desc, n)
			}
			if e == nil || (e != io.EOF && !strings.Contains(e.Error(), "reset")) {
				return fmt.Errorf("%s: the backend closed the tunnel, the user's connection was not closed within 8 s (%v)", desc, e)
			}
			userSawClose = time.Now()
		}
		select {
		case res := <-backendDone:
			if res.reqLine != wantLine {
				return fmt.Errorf("%s: the backend saw request line %q, the user sent %q", desc, res.reqLine, wantLine)
			}
			if !bytes.Equal(res.got, up) {
				return fmt.Errorf("%s: after the switch the backend received %d bytes that differ from the %d the user wrote (%v)", desc, len(res.got), len(up), res.err)
			}
			if res.err != nil && c.Closer == "user" {
				return fmt.Errorf("%s: %v", desc, res.err)
			}
		case <-time.After(12 * time.Second):
			return fmt.Errorf("%s: 12 s after the user closed the tunnel the backend's connection is still open", desc)
		}
		_ = userSawClose
		return nil
	}

	if c.Kind == "hold" {
		// c.Held users keep a streamed response open on the route (each has seen its first chunk); one more request
		// to the SAME route must still be served: in-flight exchanges are not a quota
		var held []net.Conn
		defer func() {
			for _, h := range held {
				h.Close()
			}
		}()
		for i := 0; i < c.Held; i++ {
			cn, e := net.DialTimeout("tcp", vhost, 3*time.Second)
			if e != nil {
				return fx.Inconclusive("%v", e)
			}
			held = append(held, cn)
			_ = cn.SetDeadline(time.Now().Add(15 * time.Second))
			fmt.Fprintf(cn, "GET /hold%d HTTP/1.1\r\nHost: %s\r\n\r\n", i, domainOf(0))
			br := bufio.NewReader(cn)
			resp, e := http.ReadResponse(br, nil)
			if e != nil || resp.StatusCode != 200 {
				return fmt.Errorf("%s: held request %d of %d got no streamed response (%v)", desc, i, c.Held, e)
			}
			line, e := bufio.NewReader(resp.Body).ReadString('\n')
			if e != nil || line != "first\n" {
				return fmt.Errorf("%s: held request %d: first chunk %q (%v)", desc, i, line, e)
			}
		}
		t0 := time.Now()
		cn, e := net.DialTimeout("tcp", vhost, 3*time.Second)
		if e != nil {
			return fx.Inconclusive("%v", e)
		}
		defer cn.Close()
		_ = cn.SetDeadline(time.Now().Add(8 * time.Second))
		fmt.Fprintf(cn, "GET /fast HTTP/1.1\r\nHost: %s\r\n\r\n", domainOf(0))
		resp, e := http.ReadResponse(bufio.NewReader(cn), nil)
		if e != nil {
			close(holdRelease)
			return fmt.Errorf("%s: with %d streamed responses open on the route, one more request to it got no answer within 8 s (%v)", desc, c.Held, e)
		}
		body, _ := io.ReadAll(resp.Body)
		close(holdRelease)
		if resp.StatusCode != 200 || string(body) != "fast:/fast" {
			return fmt.Errorf("%s: with %d streamed responses open, the extra request was answered %d %q", desc, c.Held, resp.StatusCode, body)
		}
		if d := time.Since(t0); d > 3*time.Second {
			return fmt.Errorf("%s: with %d streamed responses open, the extra request took %v", desc, c.Held, d)
		}
		return nil
	}

	// ---- error paths: the faulty request and, meanwhile, normal requests elsewhere
	type ans struct {
		status int
		body   string
		took   time.Duration
		err    error
	}
	do := func(host, method, path string, bodyLen int, timeout time.Duration) ans {
		t0 := time.Now()
		cn, e := net.DialTimeout("tcp", vhost, 3*time.Second)
		if e != nil {
			return ans{err: e}
		}
		defer cn.Close()
		_ = cn.SetDeadline(time.Now().Add(timeout))
		var b bytes.Buffer
		fmt.Fprintf(&b, "%s %s HTTP/1.1\r\nHost: %s\r\n", method, path, host)
		if bodyLen > 0 || method != "GET" {
			fmt.Fprintf(&b, "Content-Length: %d\r\n", bodyLen)
		}
		b.WriteString("\r\n")
		go func() {
			_, _ = cn.Write(b.Bytes())
			blk := bytes.Repeat([]byte{'x'}, 64*1024)
			for left := bodyLen; left > 0; left -= len(blk) {
				if left < len(blk) {
					blk = blk[:left]
				}
				if _, e := cn.Write(blk); e != nil {
					return
				}
			}
		}()
		resp, e := http.ReadResponse(bufio.NewReader(cn), &http.Request{Method: method})
		if e != nil {
			return ans{err: e, took: time.Since(t0)}
		}
		body, _ := io.ReadAll(resp.Body)
		return ans{status: resp.StatusCode, body: string(body), took: time.Since(t0)}
	}
	faulty := make(chan ans, 1)
	go func() { faulty <- do(domainOf(0), c.Method, "/faulty", c.BodyLen, time.Duration(c.TimeoutS+8)*time.Second) }()
	if c.Kind == "silent" {
		select {
		case <-silentHit:
		case <-time.After(5 * time.Second):
			return fmt.Errorf("%s: the request never reached the (silent) backend", desc)
		}
	}
	for i := 0; i < c.Others; i++ {
		a := do(domainOf(1), "GET", fmt.Sprintf("/ok%d", i), 0, 5*time.Second)
		if a.err != nil || a.status != 200 || a.body != fmt.Sprintf("other:/ok%d", i) {
			return fmt.Errorf("%s: while the faulty request was pending, a request to another proxy got status %d body %q (%v) after %v", desc, a.status, a.body, a.err, a.took)
		}
		if a.took > 3*time.Second {
			return fmt.Errorf("%s: while the faulty request was pending, a request to another proxy took %v", desc, a.took)
		}
	}
	a := <-faulty
	if a.err != nil {
		return fmt.Errorf("%s: the user got no HTTP answer within %d s: %v (after %v)", desc, c.TimeoutS+8, a.err, a.took)
	}
	// either answer is acceptable for either fault: the not-found page or a gateway timeout, in bounded time
	notFound := a.status == 404 && strings.Contains(strings.ToLower(a.body), "not found")
	if !notFound && a.status != 504 {
		return fmt.Errorf("%s: the user got status %d (%d-byte body) after %v instead of the not-found page or a gateway timeout", desc, a.status, len(a.body), a.took)
	}
	if a.took > time.Duration(c.TimeoutS)*time.Second+3*time.Second {
		return fmt.Errorf("%s: the error answer (%d) took %v (configured timeout %d s)", desc, a.status, a.took, c.TimeoutS)
	}
	if c.Kind == "silent" && a.took < time.Duration(c.TimeoutS)*time.Second-200*time.Millisecond {
		return fmt.Errorf("%s: silent backend, the user was answered %d after only %v although the configured timeout is %d s", desc, a.status, a.took, c.TimeoutS)
	}
	return nil
}

func TestTunnelsAndErrors(t *testing.T) {
	fx.Run(t, fx.Spec[TCase]{Prop: "C02", Name: "upgrade_connect_errors", Journal: true, Quick: 96, Thorough: 1200, Gen: genT, Run: runT, Retry: true, ShrinkTime: "40s",
		Class: func(c TCase) fx.Class {
			return fx.Class{NonTrivial: c.Up.Len+c.Down.Len > 0 || c.Kind == "unreachable" || c.Kind == "silent" || c.Kind == "hold", Fingerprint: fmt.Sprintf("%+v", c), Labels: []string{"kind=" + c.Kind}}
		}})
}
