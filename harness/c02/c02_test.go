// Package c02: HTTP proxying preserves requests and responses apart from declared rewrites.
package c02

import (
	"bufio"
	"bytes"
	"crypto/sha256"
	"crypto/tls"
	"encoding/base64"
	"encoding/json"
	"fmt"
	"io"
	"net"
	"net/http"
	"net/textproto"
	"sort"
	"strconv"
	"strings"
	"sync"
	"testing"
	"time"

	"github.com/samber/lo"

	"github.com/fatedier/frp/pkg/config/types"
	v1 "github.com/fatedier/frp/pkg/config/v1"
	"pgregory.net/rapid"

	"verifharness/fx"
)

func TestMain(m *testing.M) { fx.Main(m, "C02") }

// ---- case ------------------------------------------------------------------------------------------------

type KV struct {
	K string `json:"k"`
	V string `json:"v"`
}

type Body struct {
	Len     int    `json:"len"`
	Seed    uint32 `json:"seed"`
	Framing string `json:"framing"` // request: none | cl | chunked ; response: cl | chunked | close
	Chunk   int    `json:"chunk"`   // write / chunk size
}

type Resp struct {
	Status  int  `json:"status"`
	Headers []KV `json:"headers"`
	Body    Body `json:"body"`
}

type Req struct {
	Route   int      `json:"route"`
	Method  string   `json:"method"`
	Path    string   `json:"path"`  // raw path as written on the request line
	Query   string   `json:"query"` // raw query without '?'; "-" = no '?' at all
	Headers []KV     `json:"headers"`
	XFF     []string `json:"xff"`  // X-Forwarded-For header lines sent by the user
	Drop    bool     `json:"drop"` // sends "Connection: keep-alive, X-Drop-Me" + "X-Drop-Me: 1": a hop-by-hop header by nomination
	Body    Body     `json:"body"`
	Resp    Resp     `json:"resp"`
}

type Route struct {
	Kind        string `json:"kind"` // http | http2http | http2https | https2http | https2https
	Enc         bool   `json:"enc"`
	Comp        bool   `json:"comp"`
	Limit       string `json:"limit"` // "" client server (generous)
	SetReq      []KV   `json:"set_req"`
	SetResp     []KV   `json:"set_resp"` // http kind only
	HostRewrite string `json:"host_rewrite"`
	Group       bool   `json:"group"` // http kind: the proxy is the only member of a load-balancing group (its route is made by the group controller)
}

type Case struct {
	TCPMux bool    `json:"tcpmux"`
	Routes []Route `json:"routes"`
	Conns  [][]Req `json:"conns"` // each inner list is one keep-alive user connection; the connections run concurrently
}

var methods = []string{"GET", "GET", "POST", "PUT", "PATCH", "DELETE", "OPTIONS", "HEAD"}
var pathSegs = []string{"a", "index.html", "A-b_c.~d", "%2F", "%20", "x%2Fy", "%C3%A9", "%25", "%3F", "%23", "caf%c3%a9", "!$&'()*+,=:@", "a;b", "seg%7E", "0", "%E4%BD%A0%E5%A5%BD", "api", "v1"}
var queryParts = []string{"a=1", "b=", "c", "q=%20x", "u=%C3%A9", "plus=a+b", "e=%3D%26", "long=" + strings.Repeat("z", 300), "k=v&k=w", "%41=1", "~=._-", "s=1;t=2"}
var hdrNames = []string{"X-Custom-A", "x-lower-case", "X-MiXeD-CaSe", "Accept", "Accept-Language", "Cookie", "Authorization", "Cache-Control", "If-None-Match", "Range", "Referer", "Content-Type", "Pragma", "User-Agent", "Origin", "X-Request-Id", "Via", "Accept-Encoding"}
var respHdrNames = []string{"Content-Type", "Set-Cookie", "X-Backend", "Cache-Control", "ETag", "Location", "Vary", "x-lower-resp", "Www-Authenticate", "Content-Language", "X-Multi"}
var statuses = []int{200, 200, 200, 201, 202, 204, 206, 301, 302, 304, 400, 401, 403, 404, 418, 500, 502, 503}
var bodyLens = []int{0, 1, 100, 4095, 4096, 4097, 32767, 32768, 32769, 65536, 300000, 1 << 20}

func genValue(t *rapid.T, l string) string {
	switch rapid.IntRange(0, 6).Draw(t, l+"/vk") {
	case 0:
		return ""
	case 1:
		return "v" + strconv.Itoa(rapid.IntRange(0, 999).Draw(t, l+"/n"))
	case 2:
		return "a, b;q=0.5,  c\t d"
	case 3:
		return strings.Repeat("L", rapid.SampledFrom([]int{1000, 4096, 16000}).Draw(t, l+"/big"))
	case 4:
		return "caf\xc3\xa9 \xe4\xbd\xa0" // obs-text bytes
	case 5:
		return `"quoted \" value" = <tag> {json:1}`
	}
	return "text/plain; charset=utf-8"
}

func genBody(t *rapid.T, l string, framings []string, maxLen int) Body {
	n := rapid.SampledFrom(bodyLens).Draw(t, l+"/len")
	if n > maxLen {
		n = maxLen
	}
	return Body{Len: n, Seed: rapid.Uint32().Draw(t, l+"/seed"), Framing: rapid.SampledFrom(framings).Draw(t, l+"/framing"),
		Chunk: rapid.SampledFrom([]int{1, 7, 1000, 4096, 16384, 65536}).Draw(t, l+"/chunk")}
}

func genKVs(t *rapid.T, l string, names []string, max int) []KV {
	var out []KV
	n := rapid.IntRange(0, max).Draw(t, l+"/n")
	for i := 0; i < n; i++ {
		out = append(out, KV{K: rapid.SampledFrom(names).Draw(t, fmt.Sprintf("%s/k%d", l, i)), V: genValue(t, fmt.Sprintf("%s/v%d", l, i))})
	}
	return out
}

func genReq(t *rapid.T, l string, nroutes int, maxBody int) Req {
	r := Req{Route: rapid.IntRange(0, nroutes-1).Draw(t, l+"/route"), Method: rapid.SampledFrom(methods).Draw(t, l+"/method")}
	ns := rapid.IntRange(0, 4).Draw(t, l+"/nseg")
	r.Path = "/"
	for i := 0; i < ns; i++ {
		if i > 0 {
			r.Path += "/"
		}
		r.Path += rapid.SampledFrom(pathSegs).Draw(t, fmt.Sprintf("%s/seg%d", l, i))
	}
	if ns > 0 && rapid.Bool().Draw(t, l+"/trailing") {
		r.Path += "/"
	}
	switch rapid.IntRange(0, 3).Draw(t, l+"/qk") {
	case 0:
		r.Query = "-"
	case 1:
		r.Query = ""
	default:
		nq := rapid.IntRange(1, 3).Draw(t, l+"/nq")
		var qs []string
		for i := 0; i < nq; i++ {
			qs = append(qs, rapid.SampledFrom(queryParts).Draw(t, fmt.Sprintf("%s/q%d", l, i)))
		}
		r.Query = strings.Join(qs, "&")
	}
	r.Headers = genKVs(t, l+"/h", hdrNames, 6)
	// singleton fields appear at most once, and User-Agent / Accept-Encoding never empty: the standard library's
	// request writer keeps only the first User-Agent line and treats an empty Accept-Encoding as absent
	single := map[string]bool{"User-Agent": true, "Accept-Encoding": true, "Authorization": true, "Content-Type": true, "Referer": true, "Range": true, "If-None-Match": true, "Origin": true, "X-Request-Id": true}
	seenH := map[string]bool{}
	kept := r.Headers[:0]
	for _, kv := range r.Headers {
		ck := textproto.CanonicalMIMEHeaderKey(kv.K)
		if single[ck] {
			if seenH[ck] {
				continue
			}
			seenH[ck] = true
			if (ck == "User-Agent" || ck == "Accept-Encoding") && strings.TrimSpace(kv.V) == "" {
				kv.V = "verif/1.0"
			}
			if ck == "Accept-Encoding" {
				kv.V = "identity"
			}
		}
		kept = append(kept, kv)
	}
	r.Headers = kept
	nx := rapid.SampledFrom([]int{0, 0, 1, 2}).Draw(t, l+"/nxff")
	for i := 0; i < nx; i++ {
		r.XFF = append(r.XFF, rapid.SampledFrom([]string{"10.1.2.3", "203.0.113.7, 10.0.0.1", "2001:db8::1", "unknown"}).Draw(t, fmt.Sprintf("%s/xff%d", l, i)))
	}
	r.Drop = rapid.IntRange(0, 5).Draw(t, l+"/drop") == 0
	if r.Method == "GET" || r.Method == "HEAD" || r.Method == "OPTIONS" || r.Method == "DELETE" {
		r.Body = Body{Framing: "none"}
		if rapid.IntRange(0, 7).Draw(t, l+"/getbody") == 0 {
			r.Body = genBody(t, l+"/b", []string{"cl", "chunked"}, maxBody)
		}
	} else {
		r.Body = genBody(t, l+"/b", []string{"cl", "cl", "chunked"}, maxBody)
	}
	r.Resp = Resp{Status: rapid.SampledFrom(statuses).Draw(t, l+"/status"), Headers: genKVs(t, l+"/rh", respHdrNames, 5),
		Body: genBody(t, l+"/rb", []string{"cl", "cl", "chunked", "chunked", "close"}, maxBody)}
	return r
}

func gen(t *rapid.T) Case {
	c := Case{TCPMux: rapid.Bool().Draw(t, "tcpmux")}
	nr := rapid.IntRange(1, 2).Draw(t, "nroutes")
	limited := false
	for i := 0; i < nr; i++ {
		l := fmt.Sprintf("route%d", i)
		rt := Route{Kind: rapid.SampledFrom([]string{"http", "http", "http", "http2http", "http2https", "https2http", "https2https"}).Draw(t, l+"/kind"),
			Enc: rapid.Bool().Draw(t, l+"/enc"), Comp: rapid.Bool().Draw(t, l+"/comp")}
		if rapid.IntRange(0, 5).Draw(t, l+"/limited") == 0 {
			rt.Limit = rapid.SampledFrom([]string{"client", "server"}).Draw(t, l+"/limit")
			limited = true
		}
		rt.SetReq = genKVs(t, l+"/setreq", []string{"X-Custom-A", "x-from-proxy", "X-MiXeD-CaSe", "Accept", "User-Agent", "X-Set-Only", "X-Forwarded-Proto", "X-Forwarded-Host"}, 3)
		if rt.Kind == "http" {
			rt.Group = rapid.IntRange(0, 2).Draw(t, l+"/group") == 0
			rt.SetResp = genKVs(t, l+"/setresp", []string{"X-Backend", "x-added-by-frp", "Cache-Control", "Set-Cookie"}, 3)
		}
		if rapid.IntRange(0, 2).Draw(t, l+"/rewrite") == 0 {
			rt.HostRewrite = rapid.SampledFrom([]string{"internal.example", "backend.local:8080", "UPPER.example"}).Draw(t, l+"/host")
		}
		c.Routes = append(c.Routes, rt)
	}
	maxBody := 1 << 20
	if limited {
		maxBody = 300000
	}
	nc := rapid.IntRange(1, 3).Draw(t, "nconns")
	for i := 0; i < nc; i++ {
		n := rapid.IntRange(1, 6).Draw(t, fmt.Sprintf("conn%d/n", i))
		var seq []Req
		for j := 0; j < n; j++ {
			seq = append(seq, genReq(t, fmt.Sprintf("c%dr%d", i, j), nr, maxBody))
		}
		// a keep-alive connection goes to ONE endpoint: requests on it target routes of the same scheme / port
		first := seq[0].Route
		for j := range seq {
			if isTLSKind(c.Routes[seq[j].Route].Kind) != isTLSKind(c.Routes[first].Kind) || isTLSKind(c.Routes[first].Kind) {
				seq[j].Route = first // a TLS connection is bound to its SNI
			}
		}
		c.Conns = append(c.Conns, seq)
	}
	return c
}

func isTLSKind(k string) bool { return k == "https2http" || k == "https2https" }

func domainOf(i int) string { return fmt.Sprintf("r%d.http.test", i) }

func bodyBytes(b Body) []byte {
	out := make([]byte, b.Len)
	x := uint64(b.Seed)*2654435761 + 977
	for i := range out {
		x = x*6364136223846793005 + 1442695040888963407
		out[i] = byte(x >> 33)
	}
	return out
}

// ---- backend ---------------------------------------------------------------------------------------------

type seen struct {
	Method     string
	RequestURI string
	Host       string
	Header     http.Header
	BodyLen    int
	BodySum    [32]byte
	TE         []string
	CL         int64
	Backend    int
}

type backendLog struct {
	mu   sync.Mutex
	reqs map[string][]seen // by X-Verif-Id
}

func (b *backendLog) add(id string, s seen) {
	b.mu.Lock()
	b.reqs[id] = append(b.reqs[id], s)
	b.mu.Unlock()
}

func noBody(method string, status int) bool {
	return method == "HEAD" || status == 204 || status == 304 || (status >= 100 && status < 200)
}

func backendHandler(idx int, log *backendLog) http.Handler {
	return http.HandlerFunc(func(w http.ResponseWriter, r *http.Request) {
		body, _ := io.ReadAll(r.Body)
		id := r.Header.Get("X-Verif-Id")
		log.add(id, seen{Method: r.Method, RequestURI: r.RequestURI, Host: r.Host, Header: r.Header.Clone(), BodyLen: len(body), BodySum: sha256.Sum256(body),
			TE: r.TransferEncoding, CL: r.ContentLength, Backend: idx})
		var rs Resp
		if raw, e := base64.StdEncoding.DecodeString(r.Header.Get("X-Verif-Resp")); e != nil || json.Unmarshal(raw, &rs) != nil {
			w.WriteHeader(599)
			return
		}
		payload := bodyBytes(rs.Body)
		if noBody(r.Method, rs.Status) {
			payload = nil
		}
		chunk := rs.Body.Chunk
		if chunk <= 0 {
			chunk = 4096
		}
		if rs.Body.Framing == "close" {
			hj, ok := w.(http.Hijacker)
			if !ok {
				w.WriteHeader(598)
				return
			}
			cn, brw, e := hj.Hijack()
			if e != nil {
				return
			}
			defer cn.Close()
			fmt.Fprintf(brw, "HTTP/1.1 %d %s\r\n", rs.Status, http.StatusText(rs.Status))
			for _, kv := range rs.Headers {
				fmt.Fprintf(brw, "%s: %s\r\n", kv.K, kv.V)
			}
			fmt.Fprintf(brw, "X-Backend-Index: %d\r\nConnection: close\r\n\r\n", idx)
			for off := 0; off < len(payload); off += chunk {
				end := off + chunk
				if end > len(payload) {
					end = len(payload)
				}
				_, _ = brw.Write(payload[off:end])
			}
			_ = brw.Flush()
			// end the response with an orderly shutdown (FIN, never a reset): half-close, then wait for the peer
			if cw, ok := cn.(interface{ CloseWrite() error }); ok {
				_ = cw.CloseWrite()
				_ = cn.SetReadDeadline(time.Now().Add(2 * time.Second))
				_, _ = io.Copy(io.Discard, cn)
			}
			return
		}
		for _, kv := range rs.Headers {
			w.Header().Add(kv.K, kv.V)
		}
		w.Header().Set("X-Backend-Index", strconv.Itoa(idx))
		if _, ok := w.Header()["Content-Type"]; !ok {
			w.Header()["Content-Type"] = nil // no sniffing: the backend sends exactly the scripted headers
		}
		if rs.Body.Framing == "cl" && !noBody(r.Method, rs.Status) {
			w.Header().Set("Content-Length", strconv.Itoa(len(payload)))
		}
		w.WriteHeader(rs.Status)
		fl, _ := w.(http.Flusher)
		for off := 0; off < len(payload); off += chunk {
			end := off + chunk
			if end > len(payload) {
				end = len(payload)
			}
			_, _ = w.Write(payload[off:end])
			if rs.Body.Framing == "chunked" && fl != nil && off == 0 {
				fl.Flush()
			}
		}
	})
}

// ---- user side -------------------------------------------------------------------------------------------

func target(r Req) string {
	if r.Query == "-" {
		return r.Path
	}
	return r.Path + "?" + r.Query
}

func hostSent(c Case, r Req) string { return domainOf(r.Route) }

func writeRequest(w io.Writer, c Case, r Req, id string) error {
	var b bytes.Buffer
	fmt.Fprintf(&b, "%s %s HTTP/1.1\r\nHost: %s\r\n", r.Method, target(r), hostSent(c, r))
	rs, _ := json.Marshal(r.Resp)
	fmt.Fprintf(&b, "X-Verif-Id: %s\r\nX-Verif-Resp: %s\r\n", id, base64.StdEncoding.EncodeToString(rs))
	for _, kv := range r.Headers {
		fmt.Fprintf(&b, "%s: %s\r\n", kv.K, kv.V)
	}
	for _, x := range r.XFF {
		fmt.Fprintf(&b, "X-Forwarded-For: %s\r\n", x)
	}
	if r.Drop {
		b.WriteString("Connection: keep-alive, X-Drop-Me\r\nX-Drop-Me: 1\r\n")
	}
	body := bodyBytes(r.Body)
	switch r.Body.Framing {
	case "cl":
		fmt.Fprintf(&b, "Content-Length: %d\r\n\r\n", len(body))
		if _, e := w.Write(b.Bytes()); e != nil {
			return e
		}
		ch := r.Body.Chunk
		if ch <= 0 {
			ch = 4096
		}
		for off := 0; off < len(body); off += ch {
			end := off + ch
			if end > len(body) {
				end = len(body)
			}
			if _, e := w.Write(body[off:end]); e != nil {
				return e
			}
		}
		return nil
	case "chunked":
		b.WriteString("Transfer-Encoding: chunked\r\n\r\n")
		ch := r.Body.Chunk
		if ch <= 0 {
			ch = 4096
		}
		for off := 0; off < len(body); off += ch {
			end := off + ch
			if end > len(body) {
				end = len(body)
			}
			fmt.Fprintf(&b, "%x\r\n", end-off)
			b.Write(body[off:end])
			b.WriteString("\r\n")
			if b.Len() > 64*1024 {
				if _, e := w.Write(b.Bytes()); e != nil {
					return e
				}
				b.Reset()
			}
		}
		b.WriteString("0\r\n\r\n")
	default:
		b.WriteString("\r\n")
	}
	_, e := w.Write(b.Bytes())
	return e
}

type got struct {
	status int
	header http.Header
	body   []byte
	close  bool
	err    error
}

// ---- run -------------------------------------------------------------------------------------------------

func brief(c Case) string {
	var rs []string
	for _, r := range c.Routes {
		rs = append(rs, fmt.Sprintf("%s(enc=%v comp=%v limit=%q rewrite=%q setReq=%d setResp=%d group=%v)", r.Kind, r.Enc, r.Comp, r.Limit, r.HostRewrite, len(r.SetReq), len(r.SetResp), r.Group))
	}
	return fmt.Sprintf("[tcpMux=%v routes=%v conns=%d]", c.TCPMux, rs, len(c.Conns))
}

func run(c Case) error {
	certs := fx.GetCerts()
	s, err := fx.StartServer(fx.WithServerTCPMux(c.TCPMux), fx.WithVhostHTTP(), fx.WithVhostHTTPS())
	if err != nil {
		return err
	}
	defer s.Close()
	log := &backendLog{reqs: map[string][]seen{}}
	var pcs []v1.ProxyConfigurer
	var names []string
	var servers []*http.Server
	defer func() {
		for _, sv := range servers {
			sv.Close()
		}
	}()
	for i, rt := range c.Routes {
		ln, e := net.Listen("tcp", "127.0.0.1:0")
		if e != nil {
			return fx.Inconclusive("%v", e)
		}
		sv := &http.Server{Handler: backendHandler(i, log)}
		servers = append(servers, sv)
		if rt.Kind == "http2https" || rt.Kind == "https2https" {
			cert, _ := tls.LoadX509KeyPair(certs.SelfCert, certs.SelfKey)
			sv.TLSConfig = &tls.Config{Certificates: []tls.Certificate{cert}, NextProtos: []string{"http/1.1"}}
			go func() { _ = sv.ServeTLS(ln, "", "") }()
		} else {
			go func() { _ = sv.Serve(ln) }()
		}
		local := ln.Addr().String()
		port := ln.Addr().(*net.TCPAddr).Port
		name := fmt.Sprintf("h%d", i)
		hdrs := func(kvs []KV) v1.HeaderOperations {
			if len(kvs) == 0 {
				return v1.HeaderOperations{}
			}
			m := map[string]string{}
			for _, kv := range kvs {
				m[kv.K] = kv.V
			}
			return v1.HeaderOperations{Set: m}
		}
		setBase := func(b *v1.ProxyBaseConfig, typ string) {
			b.Name, b.Type = name, typ
			b.Transport.UseEncryption, b.Transport.UseCompression = rt.Enc, rt.Comp
			if rt.Limit != "" {
				b.Transport.BandwidthLimitMode = rt.Limit
				b.Transport.BandwidthLimit, _ = types.NewBandwidthQuantity("8MB")
			}
		}
		switch rt.Kind {
		case "http":
			p := &v1.HTTPProxyConfig{}
			setBase(&p.ProxyBaseConfig, "http")
			p.LocalIP, p.LocalPort = "127.0.0.1", port
			p.CustomDomains = []string{domainOf(i)}
			p.HostHeaderRewrite, p.RequestHeaders, p.ResponseHeaders = rt.HostRewrite, hdrs(rt.SetReq), hdrs(rt.SetResp)
			if rt.Group {
				p.LoadBalancer.Group, p.LoadBalancer.GroupKey = fmt.Sprintf("grp%d", i), "gk"
			}
			pcs = append(pcs, p)
		case "http2http", "http2https":
			p := &v1.HTTPProxyConfig{}
			setBase(&p.ProxyBaseConfig, "http")
			p.CustomDomains = []string{domainOf(i)}
			if rt.Kind == "http2http" {
				p.Plugin = v1.TypedClientPluginOptions{Type: "http2http", ClientPluginOptions: &v1.HTTP2HTTPPluginOptions{Type: "http2http", LocalAddr: local, HostHeaderRewrite: rt.HostRewrite, RequestHeaders: hdrs(rt.SetReq)}}
			} else {
				p.Plugin = v1.TypedClientPluginOptions{Type: "http2https", ClientPluginOptions: &v1.HTTP2HTTPSPluginOptions{Type: "http2https", LocalAddr: local, HostHeaderRewrite: rt.HostRewrite, RequestHeaders: hdrs(rt.SetReq)}}
			}
			pcs = append(pcs, p)
		case "https2http", "https2https":
			p := &v1.HTTPSProxyConfig{}
			setBase(&p.ProxyBaseConfig, "https")
			p.CustomDomains = []string{domainOf(i)}
			if rt.Kind == "https2http" {
				p.Plugin = v1.TypedClientPluginOptions{Type: "https2http", ClientPluginOptions: &v1.HTTPS2HTTPPluginOptions{Type: "https2http", LocalAddr: local, HostHeaderRewrite: rt.HostRewrite, RequestHeaders: hdrs(rt.SetReq), CrtPath: certs.ServerCert, KeyPath: certs.ServerKey}}
			} else {
				p.Plugin = v1.TypedClientPluginOptions{Type: "https2https", ClientPluginOptions: &v1.HTTPS2HTTPSPluginOptions{Type: "https2https", LocalAddr: local, HostHeaderRewrite: rt.HostRewrite, RequestHeaders: hdrs(rt.SetReq), CrtPath: certs.ServerCert, KeyPath: certs.ServerKey}}
			}
			pcs = append(pcs, p)
		}
		names = append(names, "u."+name)
	}
	common := fx.BaseClientConfig(s)
	common.Transport.TCPMux = lo.ToPtr(c.TCPMux)
	common.User = "u"
	cl, err := fx.StartClient(common, pcs, nil)
	if err != nil {
		return fx.Inconclusive("client: %v", err)
	}
	defer cl.Close()
	if e := cl.WaitRunning(10*time.Second, names...); e != nil {
		return fx.Inconclusive("proxies did not come up: %v %s", e, brief(c))
	}

	// ---- users: one goroutine per keep-alive connection
	results := make([][]got, len(c.Conns))
	var wg sync.WaitGroup
	for ci, seq := range c.Conns {
		results[ci] = make([]got, len(seq))
		wg.Add(1)
		go func(ci int, seq []Req) {
			defer wg.Done()
			var cn net.Conn
			var br *bufio.Reader
			defer func() {
				if cn != nil {
					cn.Close()
				}
			}()
			for ri, r := range seq {
				if cn == nil {
					kind := c.Routes[r.Route].Kind
					addr := s.Addr(fx.SlotVhostHTTP)
					if isTLSKind(kind) {
						addr = s.Addr(fx.SlotVhostHTTPS)
					}
					raw, e := net.DialTimeout("tcp", addr, 3*time.Second)
					if e != nil {
						results[ci][ri].err = e
						return
					}
					cn = raw
					if isTLSKind(kind) {
						tc := tls.Client(raw, &tls.Config{ServerName: domainOf(r.Route), InsecureSkipVerify: true, NextProtos: []string{"http/1.1"}})
						_ = raw.SetDeadline(time.Now().Add(10 * time.Second))
						if e := tc.Handshake(); e != nil {
							results[ci][ri].err = fmt.Errorf("tls handshake: %w", e)
							return
						}
						cn = tc
					}
					br = bufio.NewReaderSize(cn, 64*1024)
				}
				_ = cn.SetDeadline(time.Now().Add(30 * time.Second))
				id := fmt.Sprintf("c%dr%d", ci, ri)
				werr := make(chan error, 1)
				go func() { werr <- writeRequest(cn, c, r, id) }()
				resp, e := http.ReadResponse(br, &http.Request{Method: r.Method})
				if e != nil {
					results[ci][ri].err = fmt.Errorf("reading the response: %w (write: %v)", e, pollErr(werr))
					return
				}
				body, e := io.ReadAll(resp.Body)
				resp.Body.Close()
				g := got{status: resp.StatusCode, header: resp.Header, body: body, close: resp.Close, err: nil}
				if e != nil {
					g.err = fmt.Errorf("reading the response body: %w", e)
				}
				results[ci][ri] = g
				if e := <-werr; e != nil && g.err == nil && !resp.Close {
					results[ci][ri].err = fmt.Errorf("writing the request: %w", e)
				}
				if g.err != nil {
					return
				}
				if resp.Close {
					cn.Close()
					cn = nil
				}
			}
		}(ci, seq)
	}
	wg.Wait()

	// ---- oracle
	for ci, seq := range c.Conns {
		for ri, r := range seq {
			rt := c.Routes[r.Route]
			id := fmt.Sprintf("c%dr%d", ci, ri)
			desc := fmt.Sprintf("request %s (#%d on its connection) %s %s via route %d %s, request body %d/%s, response %d body %d/%s %s", id, ri+1, r.Method, target(r), r.Route, rt.Kind, r.Body.Len, r.Body.Framing, r.Resp.Status, r.Resp.Body.Len, r.Resp.Body.Framing, brief(c))
			g := results[ci][ri]
			log.mu.Lock()
			ss := log.reqs[id]
			log.mu.Unlock()
			// recorded finding "plugin-keepalive-decoder": the HTTP servers inside the client plugins abort their idle
			// read with a deadline; the encryption / compression stream decoders under them keep that error for
			// good, so the work connection dies after every response. Over an https proxy the user's second request
			// on the connection meets EOF; over an http proxy frps normally notices and dials again (rarely it does not).
			if (rt.Enc || rt.Comp) && rt.Kind != "http" && len(ss) == 0 && fx.Known("C02", "plugin-keepalive-decoder") && !probeMode {
				if (isTLSKind(rt.Kind) && ri >= 1 && g.err != nil) || (!isTLSKind(rt.Kind) && g.err == nil && g.status == 404) {
					fx.AddLabel("http_fidelity", "excluded-known-finding:plugin-keepalive-decoder", 1)
					break // the rest of this connection was not sent
				}
			}
			if g.err != nil {
				return fmt.Errorf("%s: %v", desc, g.err)
			}
			if len(ss) != 1 {
				return fmt.Errorf("%s: the backend saw this request %d times (user got status %d)", desc, len(ss), g.status)
			}
			b := ss[0]
			if b.Backend != r.Route {
				return fmt.Errorf("%s: served by backend %d", desc, b.Backend)
			}
			// request line
			if b.Method != r.Method {
				return fmt.Errorf("%s: backend saw method %q", desc, b.Method)
			}
			if b.RequestURI != target(r) {
				return fmt.Errorf("%s: backend saw request target %q", desc, b.RequestURI)
			}
			wantHost := hostSent(c, r)
			if rt.HostRewrite != "" {
				wantHost = rt.HostRewrite
			}
			if b.Host != wantHost {
				return fmt.Errorf("%s: backend saw Host %q, expected %q", desc, b.Host, wantHost)
			}
			// body
			body := bodyBytes(r.Body)
			if r.Body.Framing == "none" {
				body = nil
			}
			if b.BodyLen != len(body) || b.BodySum != sha256.Sum256(body) {
				return fmt.Errorf("%s: backend received a %d-byte body that differs from the %d bytes sent", desc, b.BodyLen, len(body))
			}
			// headers: reference model of the declared rewrites
			want := http.Header{}
			for _, kv := range r.Headers {
				want.Add(kv.K, kv.V)
			}
			want.Set("X-Verif-Id", id)
			rsj, _ := json.Marshal(r.Resp)
			want.Set("X-Verif-Resp", base64.StdEncoding.EncodeToString(rsj))
			for _, kv := range rt.SetReq {
				want.Set(kv.K, kv.V)
			}
			ignore := map[string]bool{"X-Forwarded-For": true, "X-Forwarded-Host": true, "X-Forwarded-Proto": true, "Content-Length": true, "Transfer-Encoding": true, "Connection": true}
			for _, kv := range rt.SetReq {
				// a forwarding header the operator declares is a declared rewrite like any other: it wins
				if ck := textproto.CanonicalMIMEHeaderKey(kv.K); ck == "X-Forwarded-Proto" || ck == "X-Forwarded-Host" {
					delete(ignore, ck)
				}
			}
			if v, sent := want["Accept-Encoding"]; !sent || strings.TrimSpace(strings.Join(v, "")) == "" {
				ignore["Accept-Encoding"] = true // the standard transport may ask for gzip on its own; the backend never compresses
			}
			if v, sent := want["User-Agent"]; !sent || (len(v) == 1 && v[0] == "") {
				ignore["User-Agent"] = true
			}
			if d := diffHeaders(want, b.Header, ignore); d != "" {
				return fmt.Errorf("%s: request headers at the backend differ from what the user sent plus the configured set-headers: %s", desc, d)
			}
			if r.Drop {
				if _, ok := b.Header["X-Drop-Me"]; ok {
					return fmt.Errorf("%s: a header nominated in Connection (hop-by-hop) reached the backend", desc)
				}
			}
			// X-Forwarded-For: the user's values, then the user's address (loopback); further hops are loopback too
			if _, set := lo.Find(rt.SetReq, func(kv KV) bool { return textproto.CanonicalMIMEHeaderKey(kv.K) == "X-Forwarded-For" }); !set {
				var userX []string
				for _, x := range r.XFF {
					for _, p := range strings.Split(x, ",") {
						userX = append(userX, strings.TrimSpace(p))
					}
				}
				var gotX []string
				for _, x := range b.Header["X-Forwarded-For"] {
					for _, p := range strings.Split(x, ",") {
						gotX = append(gotX, strings.TrimSpace(p))
					}
				}
				ok := len(gotX) > len(userX)
				for i := range userX {
					if !ok || gotX[i] != userX[i] {
						ok = false
						break
					}
				}
				if ok {
					for _, x := range gotX[len(userX):] {
						if x != "127.0.0.1" {
							ok = false
						}
					}
				}
				if !ok {
					return fmt.Errorf("%s: X-Forwarded-For at the backend is %q; expected the user's values %q followed by the user's address 127.0.0.1", desc, b.Header["X-Forwarded-For"], userX)
				}
			}
			// response
			if g.status != r.Resp.Status {
				return fmt.Errorf("%s: the user received status %d", desc, g.status)
			}
			wantR := http.Header{}
			for _, kv := range r.Resp.Headers {
				wantR.Add(kv.K, kv.V)
			}
			wantR.Set("X-Backend-Index", strconv.Itoa(r.Route))
			for _, kv := range rt.SetResp {
				wantR.Set(kv.K, kv.V)
			}
			ignoreR := map[string]bool{"Date": true, "Content-Length": true, "Transfer-Encoding": true, "Connection": true}
			if r.Resp.Status == 304 {
				ignoreR["Content-Type"] = true // representation metadata on a 304 is suppressed by every Go HTTP server on the way (RFC 7232 4.1)
			}
			if _, has := wantR["Content-Type"]; !has && len(g.header["Content-Type"]) > 0 && fx.Known("C02", "sniffed-content-type") && !probeMode {
				// recorded finding: the response writer behind the reverse proxy sniffs a Content-Type when the backend sent none
				ignoreR["Content-Type"] = true
				fx.AddLabel("http_fidelity", "excluded-known-finding:sniffed-content-type", 1)
			}
			if d := diffHeaders(wantR, g.header, ignoreR); d != "" {
				return fmt.Errorf("%s: response headers at the user differ from the backend's plus the configured response headers: %s", desc, d)
			}
			wantBody := bodyBytes(r.Resp.Body)
			if noBody(r.Method, r.Resp.Status) {
				wantBody = nil
			}
			if !bytes.Equal(g.body, wantBody) {
				at := 0
				for at < len(g.body) && at < len(wantBody) && g.body[at] == wantBody[at] {
					at++
				}
				return fmt.Errorf("%s: the user received a %d-byte body, the backend sent %d bytes (first difference at offset %d)", desc, len(g.body), len(wantBody), at)
			}
		}
	}
	return nil
}

func pollErr(ch chan error) error {
	select {
	case e := <-ch:
		return e
	default:
		return nil
	}
}

// diffHeaders compares two header multimaps (canonical names, value order within a name significant).
func diffHeaders(want, got http.Header, ignore map[string]bool) string {
	canon := func(h http.Header) map[string][]string {
		m := map[string][]string{}
		for k, v := range h {
			ck := textproto.CanonicalMIMEHeaderKey(k)
			if ignore[ck] {
				continue
			}
			m[ck] = append(m[ck], v...)
		}
		return m
	}
	w, g := canon(want), canon(got)
	var out []string
	for k, wv := range w {
		gv, ok := g[k]
		if !ok {
			out = append(out, fmt.Sprintf("%s missing (sent %s)", k, short(wv)))
		} else if !equalStrs(wv, gv) {
			out = append(out, fmt.Sprintf("%s = %s, expected %s", k, short(gv), short(wv)))
		}
	}
	for k, gv := range g {
		if _, ok := w[k]; !ok {
			out = append(out, fmt.Sprintf("%s added (%s)", k, short(gv)))
		}
	}
	sort.Strings(out)
	return strings.Join(out, "; ")
}

func equalStrs(a, b []string) bool {
	if len(a) != len(b) {
		return false
	}
	for i := range a {
		if strings.TrimSpace(a[i]) != strings.TrimSpace(b[i]) {
			return false
		}
	}
	return true
}

func short(v []string) string {
	s := fmt.Sprintf("%q", v)
	if len(s) > 120 {
		s = s[:100] + fmt.Sprintf("...(%d bytes)", len(s))
	}
	return s
}

func classify(c Case) fx.Class {
	nt := false
	var labels []string
	for _, rt := range c.Routes {
		labels = append(labels, "route="+rt.Kind)
		if rt.Group {
			labels = append(labels, "route=http-in-group")
		}
		if len(rt.SetReq) > 0 || len(rt.SetResp) > 0 || rt.HostRewrite != "" {
			nt = true
		}
	}
	fp := brief(c)
	for _, seq := range c.Conns {
		if len(seq) >= 2 {
			nt = true
			labels = append(labels, "keep-alive>=2")
		}
		for _, r := range seq {
			if r.Body.Len > 0 || strings.Contains(r.Path, "%") || len(r.XFF) > 0 {
				nt = true
			}
			fp += fmt.Sprintf("|%s %s %d/%s>%d %d/%s h%d", r.Method, target(r), r.Body.Len, r.Body.Framing, r.Resp.Status, r.Resp.Body.Len, r.Resp.Body.Framing, len(r.Headers))
		}
	}
	return fx.Class{NonTrivial: nt, Fingerprint: fp, Labels: labels}
}

var probeMode bool

func probe(t *testing.T, key, name string, c Case) {
	if fx.Shard() != 0 || fx.Replaying() {
		return
	}
	probeMode = true
	err := run(c)
	probeMode = false
	fx.Record(name, fx.Class{NonTrivial: true, Fingerprint: "probe"}, c)
	fx.Record(name, fx.Class{NonTrivial: true, Fingerprint: "probe-2"}, "deterministic probe of the recorded finding")
	fx.KnownFinding(t, "C02", "http_fidelity", key, c, err)
}

// Deterministic probes for the recorded findings.
func TestKnownSniffedContentType(t *testing.T) {
	probe(t, "sniffed-content-type", "known_sniffed_content_type", Case{Routes: []Route{{Kind: "http"}}, Conns: [][]Req{{{Method: "GET", Path: "/", Query: "-",
		Body: Body{Framing: "none"}, Resp: Resp{Status: 200, Body: Body{Len: 1, Framing: "cl", Chunk: 1}}}}}})
}

func TestKnownPluginKeepAliveDecoder(t *testing.T) {
	r := Req{Method: "GET", Path: "/", Query: "-", Body: Body{Framing: "none"}, Resp: Resp{Status: 200, Headers: []KV{{K: "Content-Type", V: "text/plain"}}, Body: Body{Len: 3, Framing: "cl", Chunk: 3}}}
	probe(t, "plugin-keepalive-decoder", "known_plugin_keepalive_decoder", Case{Routes: []Route{{Kind: "https2http", Comp: true}}, Conns: [][]Req{{r, r}}})
}

func TestHTTPFidelity(t *testing.T) {
	fx.Run(t, fx.Spec[Case]{Prop: "C02", Name: "http_fidelity", Quick: 400, Thorough: 5000, Gen: gen, Run: run, Class: classify, Retry: true, Journal: true, ShrinkTime: "60s"})
}
