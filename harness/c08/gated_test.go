package c08

import (
	"fmt"
	"testing"
	"time"

	"github.com/fatedier/frp/pkg/msg"
	"pgregory.net/rapid"

	"verifharness/fx"
)

// ---- gated schedule: a visitor stream is held between "request checked, answer about to be written" and the hand-off,
// while the proxy it was checked against is closed and the name is registered again with another key / allow-list.
// Whatever the visitor then gets, it must not be bridged to a registration whose key it does not hold or whose
// allow-list does not contain its user.
type GCase struct {
	NewKey     bool `json:"new_key"`      // the re-registration uses another secret key
	NewAllow   bool `json:"new_allow"`    // the re-registration allows only another user
	OtherOwner bool `json:"other_owner"`  // the name is taken over by another session
	HoldMs     int  `json:"hold_ms"`
}

func genG(t *rapid.T) GCase {
	return GCase{NewKey: rapid.Bool().Draw(t, "newkey"), NewAllow: rapid.Bool().Draw(t, "newallow"), OtherOwner: rapid.Bool().Draw(t, "other"),
		HoldMs: rapid.SampledFrom([]int{60, 150, 300}).Draw(t, "hold")}
}

func runG(c GCase) error {
	if !fx.GatesAvailable {
		return fx.Inconclusive("no hooks: gated schedule skipped")
	}
	defer fx.ClearGates()
	s, err := fx.StartServer()
	if err != nil {
		return err
	}
	defer s.Close()
	a, err := fx.ConnectCommon(fx.ScriptedCommon(s), "owner", "", 1, fx.TagWork("OLD"))
	if err != nil {
		return fx.Inconclusive("owner login: %v", err)
	}
	defer a.Close()
	b := a
	if c.OtherOwner {
		if b, err = fx.ConnectCommon(fx.ScriptedCommon(s), "other", "", 1, fx.TagWork("NEW")); err != nil {
			return fx.Inconclusive("second owner login: %v", err)
		}
		defer b.Close()
	}
	if r, e := a.NewProxy(&msg.NewProxy{ProxyName: "px", ProxyType: "stcp", Sk: "old-key", AllowUsers: []string{"alice"}}, 5*time.Second); e != nil || r.Error != "" {
		return fx.Inconclusive("registration: %v %+v", e, r)
	}
	vis, err := fx.ConnectCommon(fx.ScriptedCommon(s), "alice", "", 0, nil)
	if err != nil {
		return fx.Inconclusive("visitor login: %v", err)
	}
	defer vis.Close()
	g := fx.HoldGate("visitor.resp.success", 1, fx.KeyIs(0, "px"))
	type out struct {
		line string
		resp *msg.NewVisitorConnResp
		err  error
	}
	ch := make(chan out, 1)
	go func() {
		cn, resp, e := vis.VisitorConn(fx.SignedVisitor(vis.RunID, "px", "old-key"), 8*time.Second)
		o := out{resp: resp, err: e}
		if cn != nil {
			defer cn.Close()
			if e == nil && resp.Error == "" {
				o.line, _ = fx.ReadLine(cn, 1500*time.Millisecond)
			}
		}
		ch <- o
	}()
	if !g.WaitArrived(4 * time.Second) {
		g.Release()
		<-ch
		return fx.Inconclusive("gate visitor.resp.success not reached (not placed?)")
	}
	// the visitor's request has been checked against the registration with "old-key" / [alice]. Now that registration
	// goes away and the name comes back with other credentials (these calls may well block until the gate opens).
	key, allow := "old-key", []string{"alice"}
	if c.NewKey {
		key = "new-key"
	}
	if c.NewAllow {
		allow = []string{"bob"}
	}
	rereg := make(chan string, 1)
	go func() {
		_ = a.CloseProxy("px")
		if e := a.Sync(6 * time.Second); e != nil {
			rereg <- "close: " + e.Error()
			return
		}
		r, e := b.NewProxy(&msg.NewProxy{ProxyName: "px", ProxyType: "stcp", Sk: key, AllowUsers: allow}, 6*time.Second)
		if e != nil {
			rereg <- "register: " + e.Error()
			return
		}
		rereg <- r.Error
	}()
	select {
	case <-rereg:
		rereg <- ""
	case <-time.After(time.Duration(c.HoldMs) * time.Millisecond):
	}
	g.Release()
	o := <-ch
	select {
	case <-rereg:
	case <-time.After(7 * time.Second):
		return fmt.Errorf("closing the proxy and registering its name again did not finish within 7 s after the visitor's hand-off was released")
	}
	// when the same session registers the name again its work connections carry the same tag, so who served the visitor
	// is only decided for a take-over by another session; the same-session variant checks that nothing wedges
	newTag := "NEW:px"
	if (c.NewKey || c.NewAllow) && c.OtherOwner && o.line == newTag {
		return fmt.Errorf("a visitor of user alice signed with \"old-key\" was bridged to the registration of another session made with key %q and allowUsers %v while its request was being answered", key, allow)
	}
	return nil
}

func TestGatedHandoffVsReregistration(t *testing.T) {
	fx.Run(t, fx.Spec[GCase]{Prop: "C08", Name: "gated_handoff_vs_reregistration", Quick: 128, Thorough: 1600, Gen: genG, Run: runG, Journal: true, ShrinkTime: "30s",
		Class: func(c GCase) fx.Class {
			return fx.Class{NonTrivial: c.NewKey || c.NewAllow, Fingerprint: fmt.Sprintf("%+v", c)}
		}})
}
