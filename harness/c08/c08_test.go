// Package c08: secret proxies admit only visitors holding the key and an allowed user.
package c08

import (
	"bytes"
	"crypto/sha256"
	"fmt"
	"io"
	"net"
	"sync"
	"testing"
	"time"

	libio "github.com/fatedier/golib/io"

	"github.com/fatedier/frp/pkg/msg"
	"github.com/fatedier/frp/pkg/nathole"
	"github.com/fatedier/frp/pkg/util/util"
	"pgregory.net/rapid"

	"verifharness/fx"
)

func TestMain(m *testing.M) {
	nathole.NatHoleTimeout = 1 // exported knob: sessions without an owner reply end after 1 s
	fx.Main(m, "C08")
}

var users = []string{"", "alice", "bob", "mallory"}
var allowLists = [][]string{nil, {"alice"}, {"bob", "carol"}, {"*"}, {""}, {"alice", "*"}}

type Pxy struct {
	Type    string `json:"type"` // stcp sudp xtcp
	Owner   int    `json:"owner"`
	Allow   int    `json:"allow"` // index into allowLists
	Enc     bool   `json:"enc"`
	Comp    bool   `json:"comp"`
}

type Req struct {
	Kind     string `json:"kind"`    // visitor | nathole | close | reopen
	Proxy    int    `json:"proxy"`   // index into proxies, or -1 = never existed
	Visitor  int    `json:"visitor"` // index into users (visitor sessions)
	RunID    string `json:"run_id"`  // own | empty | other | unknown
	Sign     string `json:"sign"`    // ok | otherkey | otherts | empty
	TS       int64  `json:"ts"`
	Enc      bool   `json:"enc"`
	Comp     bool   `json:"comp"`
	PreCheck bool   `json:"pre_check"`
}

type Case struct {
	OwnerUsers []int `json:"owner_users"`
	Proxies    []Pxy `json:"proxies"`
	Reqs       []Req `json:"reqs"`
}

func gen(t *rapid.T) Case {
	var c Case
	no := rapid.IntRange(1, 2).Draw(t, "nowners")
	for i := 0; i < no; i++ {
		c.OwnerUsers = append(c.OwnerUsers, rapid.IntRange(0, 2).Draw(t, "owneruser"))
	}
	np := rapid.IntRange(1, 3).Draw(t, "npxy")
	for i := 0; i < np; i++ {
		c.Proxies = append(c.Proxies, Pxy{Type: rapid.SampledFrom([]string{"stcp", "stcp", "sudp", "xtcp", "xtcp"}).Draw(t, "type"),
			Owner: rapid.IntRange(0, no-1).Draw(t, "owner"), Allow: rapid.IntRange(0, len(allowLists)-1).Draw(t, "allow"),
			Enc: rapid.Bool().Draw(t, "penc"), Comp: rapid.Bool().Draw(t, "pcomp")})
	}
	nr := rapid.IntRange(2, 14).Draw(t, "nreq")
	for i := 0; i < nr; i++ {
		r := Req{Kind: rapid.SampledFrom([]string{"visitor", "visitor", "visitor", "nathole", "nathole", "close", "reopen"}).Draw(t, "kind"),
			Proxy: rapid.SampledFrom([]int{0, 0, 1, 2, -1}).Draw(t, "proxy"), Visitor: rapid.IntRange(0, len(users)-1).Draw(t, "visitor"),
			RunID: rapid.SampledFrom([]string{"own", "own", "own", "empty", "other", "unknown"}).Draw(t, "runid"),
			Sign:  rapid.SampledFrom([]string{"ok", "ok", "ok", "otherkey", "otherts", "empty"}).Draw(t, "sign"),
			TS:    rapid.SampledFrom([]int64{0, 1, 1700000000, -5, 1 << 40}).Draw(t, "ts"),
			Enc:   rapid.Bool().Draw(t, "enc"), Comp: rapid.Bool().Draw(t, "comp"), PreCheck: rapid.Bool().Draw(t, "precheck")}
		if r.Proxy >= np {
			r.Proxy = np - 1
		}
		c.Reqs = append(c.Reqs, r)
	}
	return c
}

func skOf(i int) string { return fmt.Sprintf("secret-%d", i) }

type ownerState struct {
	sc     *fx.ScriptedClient
	mu     sync.Mutex
	starts map[string]int // proxy -> StartWorkConn count
	sids   map[string]int // proxy -> NatHoleSid count
}

func run(c Case) error {
	s, err := fx.StartServer()
	if err != nil {
		return err
	}
	defer s.Close()
	pname := func(i int) string { return fmt.Sprintf("%s-%d", c.Proxies[i].Type, i) }
	var owners []*ownerState
	defer func() {
		for _, o := range owners {
			o.sc.Close()
		}
	}()
	pcfg := map[string]Pxy{}
	for i, p := range c.Proxies {
		pcfg[pname(i)] = p
	}
	for _, ui := range c.OwnerUsers {
		o := &ownerState{starts: map[string]int{}, sids: map[string]int{}}
		sc, e := fx.ConnectCommon(fx.ScriptedCommon(s), users[ui], "", 0, func(_ *fx.ScriptedClient, wc net.Conn, st *msg.StartWorkConn) {
			o.mu.Lock()
			o.starts[st.ProxyName]++
			o.mu.Unlock()
			p := pcfg[st.ProxyName]
			if p.Type == "xtcp" {
				defer wc.Close()
				_ = wc.SetReadDeadline(time.Now().Add(3 * time.Second))
				var sid msg.NatHoleSid
				if e := msg.ReadMsgInto(wc, &sid); e == nil {
					o.mu.Lock()
					o.sids[st.ProxyName]++
					o.mu.Unlock()
				}
				return
			}
			// the proxy's own wrappers on the work connection (keyed by the token), then echo
			var rwc io.ReadWriteCloser = wc
			if p.Enc {
				rwc, _ = libio.WithEncryption(rwc, []byte(fx.Token))
			}
			if p.Comp {
				rwc = libio.WithCompression(rwc)
			}
			defer rwc.Close()
			buf := make([]byte, 32*1024)
			for {
				n, e := rwc.Read(buf)
				if n > 0 {
					if _, e2 := rwc.Write(buf[:n]); e2 != nil {
						return
					}
				}
				if e != nil {
					return
				}
			}
		})
		if e != nil {
			return fmt.Errorf("owner login: %v", e)
		}
		o.sc = sc
		owners = append(owners, o)
	}
	live := map[int]bool{}
	register := func(i int) error {
		p := c.Proxies[i]
		m := &msg.NewProxy{ProxyName: pname(i), ProxyType: p.Type, Sk: skOf(i), AllowUsers: allowLists[p.Allow], UseEncryption: p.Enc, UseCompression: p.Comp}
		resp, e := owners[p.Owner].sc.NewProxy(m, 5*time.Second)
		if e != nil || resp.Error != "" {
			return fmt.Errorf("registration of %s: %v %+v", m.ProxyName, e, resp)
		}
		live[i] = true
		return nil
	}
	for i := range c.Proxies {
		if e := register(i); e != nil {
			return e
		}
	}
	// one visitor session per user name
	vis := make([]*fx.ScriptedClient, len(users))
	defer func() {
		for _, v := range vis {
			if v != nil {
				v.Close()
			}
		}
	}()
	for i, u := range users {
		v, e := fx.ConnectCommon(fx.ScriptedCommon(s), u, "", 0, nil)
		if e != nil {
			return fmt.Errorf("visitor login: %v", e)
		}
		vis[i] = v
	}
	allowed := func(pi int, user string) bool {
		p := c.Proxies[pi]
		l := allowLists[p.Allow]
		if len(l) == 0 {
			l = []string{users[c.OwnerUsers[p.Owner]]}
		}
		for _, a := range l {
			if a == user || a == "*" {
				return true
			}
		}
		return false
	}
	counts := func() (st, sid int) {
		for _, o := range owners {
			o.mu.Lock()
			for _, n := range o.starts {
				st += n
			}
			for _, n := range o.sids {
				sid += n
			}
			o.mu.Unlock()
		}
		return
	}
	for step, r := range c.Reqs {
		name := "never-existed"
		sk := "whatever"
		if r.Proxy >= 0 {
			name, sk = pname(r.Proxy), skOf(r.Proxy)
		}
		isLive := r.Proxy >= 0 && live[r.Proxy]
		v := vis[r.Visitor]
		// effective visitor user as the server must see it
		runID, vUser, runOK := v.RunID, users[r.Visitor], true
		switch r.RunID {
		case "empty":
			runID, vUser = "", ""
		case "other":
			o := vis[(r.Visitor+1)%len(users)]
			runID, vUser = o.RunID, users[(r.Visitor+1)%len(users)]
		case "unknown":
			runID, runOK = "00ff00ff00ff00ff", false
		}
		sign := ""
		switch r.Sign {
		case "ok":
			sign = util.GetAuthKey(sk, r.TS)
		case "otherkey":
			sign = util.GetAuthKey(sk+"x", r.TS)
		case "otherts":
			sign = util.GetAuthKey(sk, r.TS+1)
		}
		snapBefore := s.Snapshot()
		st0, sid0 := counts()
		switch r.Kind {
		case "close":
			if r.Proxy >= 0 && live[r.Proxy] {
				o := owners[c.Proxies[r.Proxy].Owner]
				_ = o.sc.CloseProxy(name)
				if e := o.sc.Sync(3 * time.Second); e != nil {
					return fmt.Errorf("step %d: %v", step, e)
				}
				live[r.Proxy] = false
			}
		case "reopen":
			if r.Proxy >= 0 && !live[r.Proxy] {
				if e := register(r.Proxy); e != nil {
					return fmt.Errorf("step %d: %v", step, e)
				}
			}
		case "visitor":
			typeOK := isLive && c.Proxies[r.Proxy].Type != "xtcp" // xtcp has no visitor listener
			want := typeOK && runOK && r.Sign == "ok" && allowed(r.Proxy, vUser)
			conn, resp, e := v.VisitorConn(&msg.NewVisitorConn{RunID: runID, ProxyName: name, Timestamp: r.TS, SignKey: sign, UseEncryption: r.Enc, UseCompression: r.Comp}, 4*time.Second)
			if e != nil {
				return fmt.Errorf("step %d: visitor request got no response: %v", step, e)
			}
			got := resp.Error == ""
			if got != want {
				conn.Close()
				return fmt.Errorf("step %d: visitor user %q (run id %s) sign %s for %s (live=%v, allow=%v, owner user %q): admitted=%v (%q), reference says %v",
					step, vUser, r.RunID, r.Sign, name, isLive, allowLists[c.Proxies[max(r.Proxy, 0)].Allow], users[c.OwnerUsers[c.Proxies[max(r.Proxy, 0)].Owner]], got, resp.Error, want)
			}
			if !got {
				// refused: error answered; nothing may reach the owner, no state left behind
				conn.Close()
				time.Sleep(15 * time.Millisecond)
				if st1, _ := counts(); st1 != st0 {
					return fmt.Errorf("step %d: refused visitor request still caused a StartWorkConn at the owner", step)
				}
				if d := noNewState(snapBefore, s.Snapshot()); d != "" {
					return fmt.Errorf("step %d: refused visitor request left state behind: %s", step, d)
				}
				continue
			}
			// admitted: the stream must be byte-transparent under the visitor's own wrappers (keyed by sk)
			var rwc io.ReadWriteCloser = conn
			if r.Enc {
				rwc, _ = libio.WithEncryption(rwc, []byte(sk))
			}
			if r.Comp {
				rwc = libio.WithCompression(rwc)
			}
			payload := make([]byte, 3000+step*517)
			h := sha256.Sum256([]byte(fmt.Sprint(step, name)))
			for i := range payload {
				payload[i] = h[i%32] ^ byte(i/32)
			}
			if c.Proxies[r.Proxy].Type == "sudp" {
				// sudp carries protocol messages, not a raw stream: only admission is decided here.
				// Wait until the owner has been asked for the work connection, so that this
				// admitted request cannot be mistaken for an effect of a later refused one.
				deadline := time.Now().Add(3 * time.Second)
				for time.Now().Before(deadline) {
					if st1, _ := counts(); st1 > st0 {
						break
					}
					time.Sleep(2 * time.Millisecond)
				}
				rwc.Close()
				continue
			}
			errCh := make(chan error, 1)
			go func() { _, e := rwc.Write(payload); errCh <- e }()
			got2 := make([]byte, len(payload))
			_ = conn.SetReadDeadline(time.Now().Add(6 * time.Second))
			_, e = io.ReadFull(rwc, got2)
			rwc.Close()
			if e != nil {
				return fmt.Errorf("step %d: admitted visitor stream (visitor enc=%v comp=%v, proxy enc=%v comp=%v) did not echo %d bytes: %v", step, r.Enc, r.Comp, c.Proxies[r.Proxy].Enc, c.Proxies[r.Proxy].Comp, len(payload), e)
			}
			if !bytes.Equal(got2, payload) {
				return fmt.Errorf("step %d: admitted visitor stream altered the payload (visitor enc=%v comp=%v, proxy enc=%v comp=%v)", step, r.Enc, r.Comp, c.Proxies[r.Proxy].Enc, c.Proxies[r.Proxy].Comp)
			}
			<-errCh
		case "nathole":
			// the NAT-hole request travels on the visitor's authenticated control: its user is the session's user
			vUser = users[r.Visitor]
			typeOK := isLive && c.Proxies[r.Proxy].Type == "xtcp"
			n0 := len(v.NatHoleResps())
			tid := fmt.Sprintf("tx-%d", step)
			_ = v.Send(&msg.NatHoleVisitor{TransactionID: tid, ProxyName: name, PreCheck: r.PreCheck, Protocol: "quic", SignKey: sign, Timestamp: r.TS,
				MappedAddrs: []string{"1.2.3.4:1000", "1.2.3.4:1000"}, AssistedAddrs: []string{"10.0.0.1:1000"}})
			if r.PreCheck {
				if e := v.WaitNatHole(n0+1, 4*time.Second); e != nil {
					return fmt.Errorf("step %d: pre-check got no response: %v", step, e)
				}
				resp := v.NatHoleResps()[n0]
				want := typeOK && allowed(r.Proxy, vUser)
				// a pre-check bridges nothing. It must be refused when the request proper would be (wrong user, no live
				// xtcp proxy) and must pass for what the stock visitor sends (unsigned or correctly signed, allowed user);
				// a pre-check from an allowed user that carries a WRONG signature may be answered either way
				if want && r.Sign != "ok" && r.Sign != "empty" {
					continue
				}
				if (resp.Error == "") != want {
					return fmt.Errorf("step %d: NAT-hole pre-check by user %q for %s (live xtcp=%v): passed=%v (%q), reference says %v", step, vUser, name, typeOK, resp.Error == "", resp.Error, want)
				}
				continue
			}
			want := typeOK && r.Sign == "ok" && allowed(r.Proxy, vUser)
			if !want {
				if e := v.WaitNatHole(n0+1, 4*time.Second); e != nil {
					// a request that may not be bridged must be answered with an error; if instead the
					// owner was notified, say so
					time.Sleep(50 * time.Millisecond)
					if _, sid1 := counts(); sid1 != sid0 {
						return fmt.Errorf("step %d: NAT-hole request by user %q sign %s for %s (allow=%v): not answered with an error and the OWNER WAS NOTIFIED (session id sent)", step, vUser, r.Sign, name, allowLists[c.Proxies[max(r.Proxy, 0)].Allow])
					}
					return fmt.Errorf("step %d: NAT-hole request that must be refused got no error response: %v", step, e)
				}
				resp := v.NatHoleResps()[n0]
				if resp.Error == "" {
					return fmt.Errorf("step %d: NAT-hole request that must be refused was answered without error: %+v", step, resp)
				}
				time.Sleep(20 * time.Millisecond)
				if _, sid1 := counts(); sid1 != sid0 {
					return fmt.Errorf("step %d: refused NAT-hole request reached the proxy owner", step)
				}
				if snap := s.Snapshot(); snap != nil && snapBefore != nil && snap.NatSessions != snapBefore.NatSessions {
					return fmt.Errorf("step %d: refused NAT-hole request left a session behind", step)
				}
				continue
			}
			// admitted: the owner is notified with a session id on a work connection
			deadline := time.Now().Add(4 * time.Second)
			for {
				if _, sid1 := counts(); sid1 > sid0 {
					break
				}
				if time.Now().After(deadline) {
					return fmt.Errorf("step %d: correctly signed NAT-hole request by allowed user %q for live %s never reached the owner", step, vUser, name)
				}
				time.Sleep(3 * time.Millisecond)
			}
			// nobody answers: the session must vanish after the timeout (1 s)
			time.Sleep(1200 * time.Millisecond)
			deadline = time.Now().Add(3 * time.Second)
			for {
				snap := s.Snapshot()
				if snap == nil || snap.NatSessions == 0 {
					break
				}
				if time.Now().After(deadline) {
					return fmt.Errorf("step %d: NAT-hole session still present %v after its timeout", step, 4*time.Second)
				}
				time.Sleep(20 * time.Millisecond)
			}
		}
	}
	return nil
}

func classify(c Case) fx.Class {
	nt := false
	var labels []string
	for _, r := range c.Reqs {
		if r.Proxy < 0 {
			continue
		}
		sigOK := r.Sign == "ok"
		// "exactly one of the two conditions fails" cannot be decided without the run; approximate by request shape
		if (r.Kind == "visitor" || r.Kind == "nathole") && (sigOK != (r.RunID == "own")) {
			nt = true
		}
		if r.Kind == "visitor" && sigOK && (r.Enc != c.Proxies[r.Proxy].Enc || r.Comp != c.Proxies[r.Proxy].Comp) {
			nt = true
			labels = append(labels, "differing-wrappers")
		}
		if r.Kind == "nathole" && !r.PreCheck {
			labels = append(labels, "nathole-proper")
		}
	}
	return fx.Class{NonTrivial: nt, Fingerprint: fmt.Sprintf("%+v", c), Labels: labels}
}

func TestAdmission(t *testing.T) {
	fx.Prelease(3)
	fx.Run(t, fx.Spec[Case]{Prop: "C08", Name: "admission", Quick: 700, Thorough: 30000, Gen: gen, Run: run, Class: classify, Journal: true})
}

// noNewState: a refused request may not add anything. Sessions of earlier admitted NAT-hole
// requests end asynchronously, so their count may only go down; pool fill levels are not compared.
func noNewState(a, b *fx.Snapshot) string {
	if a == nil || b == nil {
		return ""
	}
	if fmt.Sprint(a.Sessions) != fmt.Sprint(b.Sessions) || fmt.Sprint(a.Proxies) != fmt.Sprint(b.Proxies) || fmt.Sprint(a.Visitors) != fmt.Sprint(b.Visitors) || a.NatClients != b.NatClients {
		return fmt.Sprintf("tables changed: sessions %v -> %v, proxies %v -> %v, visitor listeners %v -> %v, xtcp listeners %d -> %d",
			a.Sessions, b.Sessions, a.Proxies, b.Proxies, a.Visitors, b.Visitors, a.NatClients, b.NatClients)
	}
	if b.NatSessions > a.NatSessions {
		return fmt.Sprintf("NAT-hole sessions %d -> %d", a.NatSessions, b.NatSessions)
	}
	return ""
}
