package c11

import (
	"errors"
	"fmt"
	"net"
	"testing"
	"time"

	"github.com/samber/lo"

	v1 "github.com/fatedier/frp/pkg/config/v1"
	"github.com/fatedier/frp/pkg/msg"
	"pgregory.net/rapid"

	"verifharness/fx"
)

// ---- gated windows: (1) a work connection arriving while its session is being torn down;
// (2) a user connection in the hand-off of the vhost muxer / a group worker while the
// receiving proxy closes ------------------------------------------------------------------

type GCase struct {
	Kind     string `json:"kind"` // late_workconn | muxer_handoff | tcp_group_handoff | tcpmux_group_handoff
	TCPMux   bool   `json:"tcpmux"`
	N        int    `json:"n"`         // number of connections placed in the window
	End      string `json:"end"`       // how the receiver goes away: close | drop
	HoldMs   int    `json:"hold_ms"`   // how long the window is kept open after the event
}

func genG(t *rapid.T) GCase {
	return GCase{Kind: rapid.SampledFrom([]string{"late_workconn", "muxer_handoff", "tcp_group_handoff", "tcpmux_group_handoff"}).Draw(t, "kind"),
		TCPMux: rapid.Bool().Draw(t, "tcpmux"), N: rapid.IntRange(1, 3).Draw(t, "n"),
		End: rapid.SampledFrom([]string{"close", "drop"}).Draw(t, "end"), HoldMs: rapid.SampledFrom([]int{0, 20, 100}).Draw(t, "hold")}
}

func stillOpen(conn net.Conn, wait time.Duration) bool {
	_ = conn.SetReadDeadline(time.Now().Add(wait))
	buf := make([]byte, 256)
	for {
		_, err := conn.Read(buf)
		if err != nil {
			var ne net.Error
			return errors.As(err, &ne) && ne.Timeout()
		}
	}
}

func runG(c GCase) error {
	if !fx.GatesAvailable {
		return fx.Inconclusive("no hooks")
	}
	defer fx.ClearGates()
	s, err := fx.StartServer(fx.WithTCPMux(false), fx.WithServerTCPMux(c.TCPMux), fx.WithCfg(func(sc *v1.ServerConfig, b *fx.Block) { sc.UserConnTimeout = 1 }))
	if err != nil {
		return err
	}
	defer s.Close()
	common := fx.ScriptedCommon(s, func(cc *v1.ClientCommonConfig) { cc.Transport.TCPMux = lo.ToPtr(c.TCPMux) })
	sc, err := fx.ConnectCommon(common, "owner", "", 0, fx.TagWork("O"))
	if err != nil {
		return fmt.Errorf("login: %v", err)
	}
	defer sc.Close()
	switch c.Kind {
	case "late_workconn":
		g := fx.HoldGate("control.teardown.drained", 1, fx.KeyIs(0, sc.RunID))
		sc.StopAuto()
		sc.Conn.Close() // the control connection drops; the transport (mux session) stays usable
		if !g.WaitArrived(4 * time.Second) {
			g.Release()
			return fx.Inconclusive("gate control.teardown.drained not reached (not placed?)")
		}
		var wcs []net.Conn
		for i := 0; i < c.N; i++ {
			wc, e := sc.OpenWorkConn(sc.RunID)
			if e != nil {
				g.Release()
				return fx.Inconclusive("cannot open a work connection after the control dropped: %v", e)
			}
			wcs = append(wcs, wc)
			defer wc.Close()
		}
		time.Sleep(time.Duration(50+c.HoldMs) * time.Millisecond) // let the server register them inside the window
		g.Release()
		for i, wc := range wcs {
			if stillOpen(wc, 3*time.Second) {
				return fmt.Errorf("work connection %d of %d arrived while its session was being torn down and is still open 3s after the session ended: parked, not closed", i+1, c.N)
			}
		}
	case "muxer_handoff", "tcp_group_handoff", "tcpmux_group_handoff":
		np := &msg.NewProxy{ProxyName: "p"}
		point := ""
		switch c.Kind {
		case "muxer_handoff":
			np.ProxyType, np.CustomDomains, np.Multiplexer = "tcpmux", []string{"h.test"}, "httpconnect"
			point = "vhost.handoff"
		case "tcp_group_handoff":
			np.ProxyType, np.RemotePort, np.Group, np.GroupKey = "tcp", s.AllowPort(0), "g", "k"
			point = "group.tcp.handoff"
		default:
			np.ProxyType, np.CustomDomains, np.Multiplexer, np.Group, np.GroupKey = "tcpmux", []string{"h.test"}, "httpconnect", "g", "k"
			point = "group.tcpmux.handoff"
		}
		resp, e := sc.NewProxy(np, 5*time.Second)
		if e != nil || resp.Error != "" {
			return fmt.Errorf("registration: %v %+v", e, resp)
		}
		g := fx.HoldGate(point, 1, nil)
		type ur struct {
			conn net.Conn
			e    error
		}
		users := make(chan ur, 1)
		go func() {
			if np.ProxyType == "tcp" {
				conn, e := net.DialTimeout("tcp", fmt.Sprintf("127.0.0.1:%d", s.AllowPort(0)), 2*time.Second)
				users <- ur{conn, e}
				return
			}
			st, conn, _, e := fx.HTTPConnect(s.Addr(fx.SlotTCPMux), "h.test", nil, 8*time.Second)
			if e == nil && st != 200 {
				e = fmt.Errorf("status %d", st)
			}
			users <- ur{conn, e}
		}()
		if !g.WaitArrived(4 * time.Second) {
			g.Release()
			u := <-users
			if u.conn != nil {
				u.conn.Close()
			}
			return fx.Inconclusive("gate %s not reached (not placed?)", point)
		}
		// the receiving proxy goes away while the user connection is in the hand-off
		if c.End == "close" {
			_ = sc.CloseProxy("p")
			if e := sc.Sync(3 * time.Second); e != nil {
				g.Release()
				return fmt.Errorf("session dead: %v", e)
			}
		} else {
			sc.Close()
			time.Sleep(100 * time.Millisecond)
		}
		time.Sleep(time.Duration(c.HoldMs) * time.Millisecond)
		g.Release()
		u := <-users
		if u.e != nil || u.conn == nil {
			return nil // refused / closed during CONNECT: the user is not left hanging
		}
		defer u.conn.Close()
		if stillOpen(u.conn, 4*time.Second) {
			return fmt.Errorf("user connection was in the %s hand-off when its proxy went away (%s); 4s later (userConnTimeout=1s) it is still open without a peer", c.Kind, c.End)
		}
	}
	return nil
}

func TestGatedWindows(t *testing.T) {
	fx.Run(t, fx.Spec[GCase]{Prop: "C11", Name: "gated_windows", Quick: 64, Thorough: 800, Gen: genG, Run: runG, Journal: true,
		Class: func(c GCase) fx.Class {
			return fx.Class{NonTrivial: true, Fingerprint: fmt.Sprintf("%+v", c), Labels: []string{"kind=" + c.Kind}}
		}})
}
