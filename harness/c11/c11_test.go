// Package c11: work connections — one user each, right proxy, bounded pool, never orphaned.
package c11

import (
	"bufio"
	"fmt"
	"net"
	"strings"
	"sync"
	"testing"
	"time"

	"github.com/samber/lo"

	v1 "github.com/fatedier/frp/pkg/config/v1"
	"github.com/fatedier/frp/pkg/msg"
	"pgregory.net/rapid"

	"verifharness/fx"
)

func TestMain(m *testing.M) { fx.Main(m, "C11") }

type Case struct {
	PoolCount int      `json:"pool_count"`
	MaxPool   int      `json:"max_pool"` // 0 = server default (5)
	Timeout   int      `json:"user_conn_timeout"`
	Path      string   `json:"path"` // tcp | group | tcpmux | stcp
	Users     int      `json:"users"`
	Behaviors []string `json:"behaviors"` // per ReqWorkConn, cyclic: prompt late dead never
	Surplus   int      `json:"surplus"`   // unrequested offers on top of a full pool
	End       string   `json:"end"`       // none | drop | relogin
	TCPMux    bool     `json:"tcpmux"`
}

func gen(t *rapid.T) Case {
	c := Case{
		PoolCount: rapid.SampledFrom([]int{0, 0, 1, 2, 3, 5, 8}).Draw(t, "pool"),
		MaxPool:   rapid.SampledFrom([]int{0, 1, 2, 5}).Draw(t, "maxpool"),
		Timeout:   rapid.IntRange(1, 2).Draw(t, "timeout"),
		Path:      rapid.SampledFrom([]string{"tcp", "tcp", "group", "tcpmux", "stcp"}).Draw(t, "path"),
		Users:     rapid.SampledFrom([]int{0, 1, 1, 2, 3, 5, 8, 12}).Draw(t, "users"),
		Surplus:   rapid.SampledFrom([]int{0, 0, 0, 1, 3, 6}).Draw(t, "surplus"),
		End:       rapid.SampledFrom([]string{"none", "none", "drop", "drop", "relogin"}).Draw(t, "end"),
		TCPMux:    rapid.Bool().Draw(t, "tcpmux"),
	}
	// most scripts are all-prompt; some mix in the hostile behaviours
	if rapid.IntRange(0, 2).Draw(t, "hostile") == 0 {
		n := rapid.IntRange(1, 5).Draw(t, "nb")
		for i := 0; i < n; i++ {
			c.Behaviors = append(c.Behaviors, rapid.SampledFrom([]string{"prompt", "prompt", "late", "dead", "reset", "reset", "never"}).Draw(t, "b"))
		}
	} else {
		c.Behaviors = []string{"prompt"}
	}
	return c
}

type workConn struct {
	id      int
	conn    net.Conn
	starts  []msg.StartWorkConn
	tags    []string
	eof     bool
	eofAt   time.Time
	dead    bool
	openAt  time.Time
	surplus bool
}

func effPool(c Case) int {
	mp := c.MaxPool
	if mp == 0 {
		mp = 5
	}
	return min(c.PoolCount, mp)
}

func run(c Case) error {
	s, err := fx.StartServer(fx.WithTCPMux(false), fx.WithServerTCPMux(c.TCPMux), fx.WithCfg(func(sc *v1.ServerConfig, b *fx.Block) {
		sc.Transport.MaxPoolCount = int64(c.MaxPool)
		sc.UserConnTimeout = int64(c.Timeout)
	}))
	if err != nil {
		return err
	}
	defer s.Close()
	common := func() *v1.ClientCommonConfig {
		return fx.ScriptedCommon(s, func(cc *v1.ClientCommonConfig) { cc.Transport.TCPMux = lo.ToPtr(c.TCPMux) })
	}
	sc, err := fx.ConnectCommon(common(), "owner", "", c.PoolCount, nil)
	if err != nil {
		return fmt.Errorf("login: %v", err)
	}
	defer sc.Close()
	const pname = "wc-proxy"
	np := &msg.NewProxy{ProxyName: pname}
	switch c.Path {
	case "tcp":
		np.ProxyType, np.RemotePort = "tcp", s.AllowPort(0)
	case "group":
		np.ProxyType, np.RemotePort, np.Group, np.GroupKey = "tcp", s.AllowPort(0), "g", "k"
	case "tcpmux":
		np.ProxyType, np.CustomDomains, np.Multiplexer = "tcpmux", []string{"wc.test"}, "httpconnect"
	case "stcp":
		np.ProxyType, np.Sk, np.AllowUsers = "stcp", "sk", []string{"*"}
	}
	resp, err := sc.NewProxy(np, 5*time.Second)
	if err != nil || resp.Error != "" {
		return fmt.Errorf("registration: %v %+v", err, resp)
	}

	// (a) requests in advance == min(poolCount, maxPoolCount), no more, before any user arrives
	want := effPool(c)
	_ = sc.WaitReqWork(want, 2*time.Second)
	time.Sleep(120 * time.Millisecond)
	if got := sc.ReqWorkCount(); got != want {
		return fmt.Errorf("server asked for %d work connections in advance, min(poolCount=%d, maxPoolCount=%d) is %d", got, c.PoolCount, c.MaxPool, want)
	}

	var mu sync.Mutex
	var conns []*workConn
	open := func(surplus bool) *workConn {
		wc, e := sc.OpenWorkConn(sc.RunID)
		if e != nil {
			return nil
		}
		mu.Lock()
		w := &workConn{id: len(conns), conn: wc, openAt: time.Now(), surplus: surplus}
		conns = append(conns, w)
		mu.Unlock()
		go func() {
			br := bufio.NewReader(wc)
			for {
				var st msg.StartWorkConn
				if e := msg.ReadMsgInto(br, &st); e != nil {
					mu.Lock()
					w.eof, w.eofAt = true, time.Now()
					mu.Unlock()
					return
				}
				mu.Lock()
				w.starts = append(w.starts, st)
				first := len(w.starts) == 1
				mu.Unlock()
				if !first || st.Error != "" {
					continue
				}
				// serve: every line "U<k>" from the user is answered "W<id>:U<k>"
				for {
					line, e := br.ReadString('\n')
					if e != nil {
						mu.Lock()
						w.eof, w.eofAt = true, time.Now()
						mu.Unlock()
						return
					}
					tag := strings.TrimSpace(line)
					mu.Lock()
					w.tags = append(w.tags, tag)
					mu.Unlock()
					if _, e := fmt.Fprintf(wc, "W%d:%s\n", w.id, tag); e != nil {
						return
					}
				}
			}
		}()
		return w
	}
	defer func() {
		mu.Lock()
		for _, w := range conns {
			w.conn.Close()
		}
		mu.Unlock()
	}()
	// deliverer: answers ReqWorkConn number i with Behaviors[i % n]
	stopDeliver := make(chan struct{})
	var dwg sync.WaitGroup
	dwg.Add(1)
	go func() {
		defer dwg.Done()
		handled := 0
		for {
			select {
			case <-stopDeliver:
				return
			default:
			}
			n := sc.ReqWorkCount()
			for handled < n {
				b := c.Behaviors[handled%len(c.Behaviors)]
				handled++
				switch b {
				case "prompt":
					open(false)
				case "late":
					go func() { time.Sleep(300 * time.Millisecond); open(false) }()
				case "dead":
					if w := open(false); w != nil {
						mu.Lock()
						w.dead = true
						mu.Unlock()
						w.conn.Close()
					}
				case "reset":
					// delivered, then aborted (RST) while it sits in the pool: the server's StartWorkConn write fails
					if w := open(false); w != nil {
						mu.Lock()
						w.dead = true
						mu.Unlock()
						if tc, ok := w.conn.(*net.TCPConn); ok {
							_ = tc.SetLinger(0)
						}
						w.conn.Close()
					}
				case "never":
				}
			}
			time.Sleep(time.Millisecond)
		}
	}()
	defer func() { close(stopDeliver); dwg.Wait() }()
	time.Sleep(30 * time.Millisecond)

	// (b) surplus offers beyond the bounded capacity are refused and closed
	if c.Surplus > 0 {
		capacity := want + 10
		var extra []*workConn
		for i := 0; i < capacity+c.Surplus; i++ {
			if w := open(true); w != nil {
				extra = append(extra, w)
			}
		}
		time.Sleep(150 * time.Millisecond)
		if snap := s.Snapshot(); snap != nil {
			if p := snap.Pooled[sc.RunID]; p > capacity {
				return fmt.Errorf("%d work connections pooled, bounded capacity is %d", p, capacity)
			}
		}
		closed := 0
		mu.Lock()
		for _, w := range extra {
			if w.eof {
				closed++
			}
		}
		mu.Unlock()
		if closed < c.Surplus {
			return fmt.Errorf("offered %d work connections beyond the pool's capacity of %d; only %d were refused and closed", capacity+c.Surplus, capacity, closed)
		}
	}

	// users
	type ures struct {
		k        int
		local    string
		served   string // "W<id>:U<k>"
		closedAt time.Duration
		err      string
	}
	results := make([]ures, c.Users)
	var vis *fx.ScriptedClient
	if c.Path == "stcp" {
		vis, err = fx.ConnectCommon(common(), "visitor", "", 0, nil)
		if err != nil {
			return fmt.Errorf("visitor login: %v", err)
		}
		defer vis.Close()
	}
	bound := time.Duration(c.Timeout)*time.Second + 3*time.Second
	var uwg sync.WaitGroup
	userConns := make([]net.Conn, c.Users)
	for k := 0; k < c.Users; k++ {
		uwg.Add(1)
		go func(k int) {
			defer uwg.Done()
			r := ures{k: k}
			defer func() { results[k] = r }()
			t0 := time.Now()
			var conn net.Conn
			var br *bufio.Reader
			switch c.Path {
			case "tcp", "group":
				cc, e := net.DialTimeout("tcp", fmt.Sprintf("127.0.0.1:%d", s.AllowPort(0)), 2*time.Second)
				if e != nil {
					r.err = "dial: " + e.Error()
					return
				}
				conn, br = cc, bufio.NewReader(cc)
			case "tcpmux":
				st, cc, b, e := fx.HTTPConnect(s.Addr(fx.SlotTCPMux), "wc.test", nil, bound)
				if e != nil || st != 200 {
					r.err = fmt.Sprintf("connect: %d %v", st, e)
					return
				}
				conn, br = cc, b
			case "stcp":
				cc, resp, e := vis.VisitorConn(fx.SignedVisitor(vis.RunID, pname, "sk"), 3*time.Second)
				if e != nil || resp.Error != "" {
					r.err = fmt.Sprintf("visitor: %v %+v", e, resp)
					return
				}
				conn, br = cc, bufio.NewReader(cc)
			}
			userConns[k] = conn
			r.local = conn.LocalAddr().String()
			_, _ = fmt.Fprintf(conn, "U%d\n", k)
			_ = conn.SetReadDeadline(time.Now().Add(bound))
			line, e := br.ReadString('\n')
			if e == nil {
				r.served = strings.TrimSpace(line)
				return
			}
			if ne, ok := e.(net.Error); ok && ne.Timeout() {
				r.err = "OPEN-WITHOUT-PEER"
				return
			}
			r.closedAt = time.Since(t0)
		}(k)
	}
	endDone := make(chan struct{})
	var sc2 *fx.ScriptedClient
	go func() {
		defer close(endDone)
		switch c.End {
		case "drop":
			time.Sleep(time.Duration(20+c.Users*3) * time.Millisecond)
			sc.Conn.Close()
		case "relogin":
			time.Sleep(time.Duration(20+c.Users*3) * time.Millisecond)
			sc2, _ = fx.ConnectCommon(common(), "owner", sc.RunID, 0, nil)
		}
	}()
	uwg.Wait()
	<-endDone
	if sc2 != nil {
		defer sc2.Close()
	}
	defer func() {
		for _, uc := range userConns {
			if uc != nil {
				uc.Close()
			}
		}
	}()

	// ---- oracles over what happened
	mu.Lock()
	defer mu.Unlock()
	allPrompt := true
	for _, b := range c.Behaviors {
		if b == "dead" || b == "reset" || b == "never" {
			allPrompt = false
		}
	}
	byTag := map[string][]int{}
	for _, w := range conns {
		nOK := 0
		for _, st := range w.starts {
			if st.Error == "" {
				nOK++
				if st.ProxyName != pname {
					return fmt.Errorf("work connection %d got StartWorkConn for proxy %q, the session owns %q", w.id, st.ProxyName, pname)
				}
			}
		}
		if nOK > 1 {
			return fmt.Errorf("work connection %d received %d StartWorkConn messages", w.id, nOK)
		}
		uniq := map[string]bool{}
		for _, t := range w.tags {
			uniq[t] = true
			byTag[t] = append(byTag[t], w.id)
		}
		if len(uniq) > 1 {
			return fmt.Errorf("work connection %d carried data of %d different user connections: %v", w.id, len(uniq), w.tags)
		}
	}
	for tag, ids := range byTag {
		if len(ids) > 1 {
			return fmt.Errorf("user connection %s was bridged to %d work connections %v", tag, len(ids), ids)
		}
	}
	served := 0
	for _, r := range results {
		switch {
		case r.err == "OPEN-WITHOUT-PEER":
			return fmt.Errorf("user connection U%d was still open without a peer %v after it was accepted (userConnTimeout=%ds, path %s)", r.k, bound, c.Timeout, c.Path)
		case strings.HasPrefix(r.err, "dial:"), strings.HasPrefix(r.err, "connect:"), strings.HasPrefix(r.err, "visitor:"):
			if c.End == "none" {
				return fmt.Errorf("user U%d could not reach the endpoint of a live proxy: %s", r.k, r.err)
			}
		case r.served != "":
			served++
			var wid, uk int
			if n, _ := fmt.Sscanf(r.served, "W%d:U%d", &wid, &uk); n != 2 || uk != r.k || wid >= len(conns) {
				return fmt.Errorf("user U%d got the answer %q", r.k, r.served)
			}
			w := conns[wid]
			if len(w.starts) == 0 {
				return fmt.Errorf("user U%d bridged to work connection %d that never got a StartWorkConn", r.k, wid)
			}
			if c.Path == "tcp" || c.Path == "group" || c.Path == "tcpmux" {
				st := w.starts[0]
				got := net.JoinHostPort(st.SrcAddr, fmt.Sprint(st.SrcPort))
				if got != r.local {
					return fmt.Errorf("StartWorkConn for user U%d announces source %s, the user's real address is %s", r.k, got, r.local)
				}
			}
		default:
			if r.closedAt > bound {
				return fmt.Errorf("user connection U%d closed only after %v (> userConnTimeout %ds + slack)", r.k, r.closedAt, c.Timeout)
			}
		}
	}
	if c.End == "none" && allPrompt && served != c.Users {
		return fmt.Errorf("client delivered every requested work connection promptly, yet only %d of %d user connections were bridged (path %s)", served, c.Users, c.Path)
	}
	// (d) when the session ends every unconsumed work connection is closed by the server
	if c.End != "none" {
		mu.Unlock()
		deadline := time.Now().Add(4 * time.Second)
		var stuck []int
		for {
			stuck = stuck[:0]
			mu.Lock()
			for _, w := range conns {
				if !w.eof && !w.dead && len(w.starts) == 0 {
					stuck = append(stuck, w.id)
				}
			}
			mu.Unlock()
			if len(stuck) == 0 || time.Now().After(deadline) {
				break
			}
			time.Sleep(5 * time.Millisecond)
		}
		mu.Lock()
		if len(stuck) > 0 {
			var desc []string
			for _, id := range stuck {
				desc = append(desc, fmt.Sprintf("#%d(starts=%d surplus=%v)", id, len(conns[id].starts), conns[id].surplus))
			}
			return fmt.Errorf("session ended (%s) but %d work connections were not closed by the server within 4s: %v", c.End, len(stuck), desc)
		}
	}
	return nil
}

func classify(c Case) fx.Class {
	hostile := false
	for _, b := range c.Behaviors {
		if b != "prompt" {
			hostile = true
		}
	}
	labels := []string{"path=" + c.Path, "end=" + c.End}
	if hostile {
		labels = append(labels, "hostile-delivery")
	}
	if c.Surplus > 0 {
		labels = append(labels, "surplus")
	}
	nt := c.Users >= 2 || hostile || (c.End != "none" && c.Users > 0) || c.Surplus > 0
	return fx.Class{NonTrivial: nt, Fingerprint: fmt.Sprintf("%+v", c), Labels: labels}
}

func TestPoolProtocol(t *testing.T) {
	fx.Prelease(3)
	fx.Run(t, fx.Spec[Case]{Prop: "C11", Name: "pool_protocol", Quick: 400, Thorough: 12000, Gen: gen, Run: run, Class: classify, Journal: true, Retry: true})
}
