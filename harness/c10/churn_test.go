package c10

// same_session_churn: one long-lived session registers, uses and closes the same proxies again and
// again (what frpc does on every reload). The statement's list of resources includes "pooled work
// connections and idle backend connections, wrapped transports": after CloseProxy every work connection
// that was started for the closed proxy and whose user is gone must be closed by the server, the
// identical registration right after the close request must succeed, the session's other proxies (a
// keeper tcp tunnel with a user connection that stays open over all cycles, a keeper http route used
// over one keep-alive user connection) must be untouched, the server's tables must return to their state
// before the cycle, and identical cycles must not grow the goroutine / descriptor footprint.

import (
	"bufio"
	"crypto/tls"
	"fmt"
	"io"
	"net"
	"net/http"
	"sort"
	"strings"
	"sync"
	"testing"
	"time"

	"github.com/samber/lo"

	v1 "github.com/fatedier/frp/pkg/config/v1"
	"github.com/fatedier/frp/pkg/msg"
	"pgregory.net/rapid"

	"verifharness/fx"
)

type ChurnCase struct {
	Types     []string `json:"types"`
	Cycles    int      `json:"cycles"`
	Pool      int      `json:"pool"`
	TCPMux    bool     `json:"tcpmux"`
	Requests  int      `json:"requests"`   // exchanges per proxy and cycle before the close
	KeepAlive bool     `json:"keep_alive"` // http users reuse one connection for their requests
	Keepers   bool     `json:"keepers"`    // the session also owns two proxies that are never closed
	Flood     bool     `json:"flood"`      // users of the udp kinds keep sending datagrams while the proxy is being closed
}

var churnTypes = []string{"tcp", "tcp-group", "tcp-any", "udp", "udp-any", "http", "http-group", "https", "tcpmux", "tcpmux-group", "stcp", "sudp", "xtcp"}

func genChurn(t *rapid.T) ChurnCase {
	c := ChurnCase{}
	n := rapid.IntRange(1, 4).Draw(t, "ntypes")
	seen := map[string]bool{}
	for len(c.Types) < n {
		ty := rapid.SampledFrom(churnTypes).Draw(t, "type")
		if !seen[ty] {
			seen[ty] = true
			c.Types = append(c.Types, ty)
		}
	}
	sort.SliceStable(c.Types, func(i, j int) bool { return !strings.HasSuffix(c.Types[i], "-any") && strings.HasSuffix(c.Types[j], "-any") })
	c.Cycles = rapid.SampledFrom([]int{2, 2, 3, 3, 4, 5, 12}).Draw(t, "cycles")
	c.Pool = rapid.IntRange(0, 3).Draw(t, "pool")
	c.TCPMux = rapid.Bool().Draw(t, "tcpmux")
	c.Requests = rapid.IntRange(0, 3).Draw(t, "requests")
	c.KeepAlive = rapid.Bool().Draw(t, "keepalive")
	c.Keepers = rapid.Bool().Draw(t, "keepers")
	c.Flood = rapid.Bool().Draw(t, "flood")
	return c
}

type wcRec struct {
	name   string
	closed chan struct{}
}

type wcTracker struct {
	mu   sync.Mutex
	recs []*wcRec
}

func isHTTPName(n string) bool { return strings.Contains(n, "http") && !strings.Contains(n, "https") }

func (tr *wcTracker) handle(_ *fx.ScriptedClient, wc net.Conn, s *msg.StartWorkConn) {
	rec := &wcRec{name: s.ProxyName, closed: make(chan struct{})}
	tr.mu.Lock()
	tr.recs = append(tr.recs, rec)
	tr.mu.Unlock()
	defer close(rec.closed)
	defer wc.Close()
	switch {
	case isHTTPName(s.ProxyName):
		br := bufio.NewReader(wc)
		for {
			req, err := http.ReadRequest(br)
			if err != nil {
				return
			}
			if req.Body != nil {
				_, _ = io.Copy(io.Discard, req.Body)
				req.Body.Close()
			}
			body := "A:" + s.ProxyName
			if _, err := fmt.Fprintf(wc, "HTTP/1.1 200 OK\r\nContent-Length: %d\r\n\r\n%s", len(body), body); err != nil {
				return
			}
		}
	case strings.Contains(s.ProxyName, "udp"):
		for {
			if _, err := msg.ReadMsg(wc); err != nil {
				return
			}
		}
	default:
		_, _ = wc.Write([]byte("A:" + s.ProxyName + "\n"))
		_, _ = io.Copy(wc, wc)
	}
}

// open returns the work connections started for the given names that the server has not closed yet.
func (tr *wcTracker) open(names map[string]bool) []string {
	tr.mu.Lock()
	defer tr.mu.Unlock()
	var out []string
	for _, r := range tr.recs {
		if !names[r.name] {
			continue
		}
		select {
		case <-r.closed:
		default:
			out = append(out, r.name)
		}
	}
	return out
}

func runChurn(c ChurnCase) error {
	noLocations = false
	s, err := fx.StartServer(fx.WithVhostHTTP(), fx.WithVhostHTTPS(), fx.WithTCPMux(false), fx.WithServerTCPMux(c.TCPMux),
		fx.WithCfg(func(sc *v1.ServerConfig, b *fx.Block) { sc.UserConnTimeout = 1 }))
	if err != nil {
		return err
	}
	defer s.Close()
	common := func() *v1.ClientCommonConfig {
		return fx.ScriptedCommon(s, func(cc *v1.ClientCommonConfig) { cc.Transport.TCPMux = lo.ToPtr(c.TCPMux) })
	}
	by, err := fx.ConnectCommon(common(), "by", "", 1, fx.KindWork("BY"))
	if err != nil {
		return fmt.Errorf("bystander login: %v", err)
	}
	defer by.Close()
	tr := &wcTracker{}
	a, err := fx.ConnectCommon(common(), "a", "", c.Pool, tr.handle)
	if err != nil {
		return fmt.Errorf("login: %v", err)
	}
	defer a.Close()

	// keepers: proxies of the same session that are never closed
	var keepTCP net.Conn
	var keepHTTP *http.Client
	if c.Keepers {
		for _, m := range []*msg.NewProxy{
			{ProxyName: "keep-tcp", ProxyType: "tcp", RemotePort: s.AllowPort(5)},
			{ProxyName: "keep-http", ProxyType: "http", CustomDomains: []string{"keep-http.test"}},
		} {
			resp, e := a.NewProxy(m, 5*time.Second)
			if e != nil || resp.Error != "" {
				return fx.Inconclusive("keeper registration %s: %v %+v", m.ProxyName, e, resp)
			}
		}
		keepTCP, err = net.DialTimeout("tcp", fmt.Sprintf("127.0.0.1:%d", s.AllowPort(5)), 2*time.Second)
		if err != nil {
			return fx.Inconclusive("keeper tcp dial: %v", err)
		}
		defer keepTCP.Close()
		if line, e := fx.ReadLine(keepTCP, 5*time.Second); e != nil || line != "A:keep-tcp" {
			return fx.Inconclusive("keeper tcp greeting %q %v", line, e)
		}
		ktr := &http.Transport{MaxIdleConnsPerHost: 1, DialContext: nil}
		defer ktr.CloseIdleConnections()
		keepHTTP = &http.Client{Transport: ktr, Timeout: 5 * time.Second}
	}
	keepersOK := func(when string) error {
		if !c.Keepers {
			return nil
		}
		probe := fmt.Sprintf("probe %s\n", when)
		_ = keepTCP.SetDeadline(time.Now().Add(5 * time.Second))
		if _, e := keepTCP.Write([]byte(probe)); e != nil {
			return fmt.Errorf("%s: the user connection of the session's other tcp proxy (never closed) is broken: %v", when, e)
		}
		got, e := fx.ReadLine(keepTCP, 5*time.Second)
		if e != nil || got+"\n" != probe {
			return fmt.Errorf("%s: the user connection of the session's other tcp proxy (never closed) no longer echoes: %q %v", when, got, e)
		}
		req, _ := http.NewRequest("GET", "http://"+s.Addr(fx.SlotVhostHTTP)+"/", nil)
		req.Host = "keep-http.test"
		resp, e := keepHTTP.Do(req)
		if e != nil {
			return fmt.Errorf("%s: the session's other http route (never closed) does not answer: %v", when, e)
		}
		body, _ := io.ReadAll(resp.Body)
		resp.Body.Close()
		if resp.StatusCode != 200 || string(body) != "A:keep-http" {
			return fmt.Errorf("%s: the session's other http route (never closed) answered %d %q", when, resp.StatusCode, body)
		}
		return nil
	}
	if e := keepersOK("setup"); e != nil {
		return fx.Inconclusive("%v", e)
	}
	if e := a.Sync(5 * time.Second); e != nil {
		return fx.Inconclusive("sync: %v", e)
	}
	baseline := s.Snapshot()
	baseKey := snapKey(baseline)

	names := map[string]bool{}
	for _, ty := range c.Types {
		names["x-"+ty] = true
	}
	httpUser := func(host string) {
		utr := &http.Transport{DisableKeepAlives: !c.KeepAlive}
		cl := &http.Client{Transport: utr, Timeout: 3 * time.Second}
		for i := 0; i < c.Requests; i++ {
			req, _ := http.NewRequest("GET", "http://"+s.Addr(fx.SlotVhostHTTP)+"/a", nil)
			req.Host = host
			if resp, e := cl.Do(req); e == nil {
				_, _ = io.Copy(io.Discard, resp.Body)
				resp.Body.Close()
			}
		}
		utr.CloseIdleConnections()
	}
	var g1, f1 int
	for cyc := 0; cyc < c.Cycles; cyc++ {
		when := fmt.Sprintf("cycle %d", cyc)
		ports := map[string]int{}
		for _, ty := range c.Types {
			resp, e := a.NewProxy(pxyMsg(s, ty, false), 6*time.Second)
			if e != nil {
				return fmt.Errorf("%s: no answer to the registration of %s on the same session right after its close request: %v", when, ty, e)
			}
			if resp.Error != "" {
				return fmt.Errorf("%s: identical registration of %s on the same session right after its close request refused: %s", when, ty, resp.Error)
			}
			if i := strings.LastIndex(resp.RemoteAddr, ":"); i >= 0 {
				var p int
				fmt.Sscanf(resp.RemoteAddr[i+1:], "%d", &p)
				ports[ty] = p
			}
		}
		for _, ty := range c.Types {
			for i := 0; i < max(1, c.Requests); i++ {
				if c.Requests == 0 {
					break
				}
				switch ty {
				case "tcp", "tcp-group", "tcp-any":
					if conn, e := net.DialTimeout("tcp", fmt.Sprintf("127.0.0.1:%d", ports[ty]), time.Second); e == nil {
						_, _ = fx.ReadLine(conn, 2*time.Second)
						conn.Close()
					}
				case "udp", "udp-any":
					if conn, e := net.Dial("udp", fmt.Sprintf("127.0.0.1:%d", ports[ty])); e == nil {
						_, _ = conn.Write([]byte("ping"))
						conn.Close()
					}
				case "https":
					if conn, e := net.DialTimeout("tcp", s.Addr(fx.SlotVhostHTTPS), time.Second); e == nil {
						_ = conn.SetDeadline(time.Now().Add(time.Second))
						_ = tls.Client(conn, &tls.Config{ServerName: "x-https.test", InsecureSkipVerify: true}).Handshake()
						conn.Close()
					}
				case "tcpmux", "tcpmux-group":
					host := "x-mux.test"
					if ty == "tcpmux-group" {
						host = "xg-mux.test"
					}
					if st, cc, br, _ := fx.HTTPConnect(s.Addr(fx.SlotTCPMux), host, nil, 2*time.Second); st == 200 {
						_ = cc.SetReadDeadline(time.Now().Add(2 * time.Second))
						_, _ = br.ReadString('\n')
						cc.Close()
					} else if cc != nil {
						cc.Close()
					}
				case "stcp", "sudp":
					if vc, resp, e := by.VisitorConn(fx.SignedVisitor(by.RunID, "x-"+ty, "sk"), 3*time.Second); e == nil {
						if resp.Error == "" && ty == "stcp" {
							_, _ = fx.ReadLine(vc, 2*time.Second)
						}
						vc.Close()
					}
				}
			}
			switch ty {
			case "http":
				httpUser("x-http.test")
			case "http-group":
				httpUser("xg-http.test")
			}
		}
		// users that do not know about the close: datagrams keep arriving while the udp proxies go away
		stopFlood := make(chan struct{})
		var floodWG sync.WaitGroup
		if c.Flood {
			for _, ty := range c.Types {
				if ty != "udp" && ty != "udp-any" {
					continue
				}
				for k := 0; k < 2; k++ {
					conn, e := net.Dial("udp", fmt.Sprintf("127.0.0.1:%d", ports[ty]))
					if e != nil {
						continue
					}
					floodWG.Add(1)
					go func() {
						defer floodWG.Done()
						defer conn.Close()
						for {
							select {
							case <-stopFlood:
								return
							default:
								_, _ = conn.Write([]byte("flood"))
							}
						}
					}()
				}
			}
			time.Sleep(2 * time.Millisecond)
		}
		for _, ty := range c.Types {
			_ = a.CloseProxy("x-" + ty)
		}
		e := a.Sync(5 * time.Second)
		close(stopFlood)
		floodWG.Wait()
		if e != nil {
			return fmt.Errorf("%s: session dead after CloseProxy: %v", when, e)
		}
		// every user is gone and the proxies are closed: their work connections must be closed by the server
		deadline := time.Now().Add(4 * time.Second)
		for {
			open := tr.open(names)
			if len(open) == 0 {
				break
			}
			if time.Now().After(deadline) {
				sort.Strings(open)
				return fmt.Errorf("%s: %d work connection(s) started for closed proxies %v are still open 4 s after CloseProxy was answered and every user had gone (types %v, keep-alive %v)", when, len(open), lo.Uniq(open), c.Types, c.KeepAlive)
			}
			time.Sleep(5 * time.Millisecond)
		}
		for baseline != nil {
			now := s.Snapshot()
			if snapKey(now) == baseKey {
				break
			}
			if time.Now().After(deadline) {
				return fmt.Errorf("%s: server tables differ from the state before the cycle:\n before %s\n after  %s", when, baseKey, snapKey(now))
			}
			time.Sleep(5 * time.Millisecond)
		}
		if e := keepersOK(when); e != nil {
			return e
		}
		if c.Cycles >= 10 && cyc == 1 {
			g1, f1 = settle()
		}
	}
	if c.Cycles >= 10 {
		gN, fN := settle()
		fx.AddLabel("same_session_churn", fmt.Sprintf("leakrun-goroutine-delta=%d", gN-g1), 1)
		fx.AddLabel("same_session_churn", fmt.Sprintf("leakrun-fd-delta=%d", fN-f1), 1)
		half := (c.Cycles - 2) / 2
		if gN-g1 >= half {
			return fmt.Errorf("goroutines grew from %d to %d over %d identical register/use/close cycles on one session (types %v): %s", g1, gN, 2*half, c.Types, goroutineSummary())
		}
		if fN-f1 >= half {
			return fmt.Errorf("open descriptors grew from %d to %d over %d identical register/use/close cycles on one session (types %v): %s", f1, fN, 2*half, c.Types, fdSummary())
		}
	}
	return nil
}

func classifyChurn(c ChurnCase) fx.Class {
	ts := append([]string(nil), c.Types...)
	sort.Strings(ts)
	labels := []string{}
	for _, t := range c.Types {
		labels = append(labels, "type="+t)
	}
	if c.Cycles >= 10 {
		labels = append(labels, "leak-run")
	}
	if c.Keepers {
		labels = append(labels, "keepers")
	}
	if c.Flood && (lo.Contains(c.Types, "udp") || lo.Contains(c.Types, "udp-any")) {
		labels = append(labels, "udp-users-sending-during-close")
	}
	return fx.Class{NonTrivial: c.Requests > 0 || c.Cycles >= 10,
		Fingerprint: fmt.Sprint(ts, c.Cycles, c.Pool, c.TCPMux, c.Requests, c.KeepAlive, c.Keepers, c.Flood), Labels: labels}
}

func TestSameSessionChurn(t *testing.T) {
	fx.Prelease(3)
	fx.Run(t, fx.Spec[ChurnCase]{Prop: "C10", Name: "same_session_churn", Quick: 160, Thorough: 4000, Gen: genChurn, Run: runChurn, Class: classifyChurn, Journal: true, Retry: true})
}
