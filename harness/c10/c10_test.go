// Package c10: everything a proxy or session held is released on every termination path.
package c10

import (
	"encoding/base64"
	"fmt"
	"net"
	"os"
	"runtime"
	"sort"
	"strings"
	"testing"
	"time"

	"github.com/samber/lo"

	v1 "github.com/fatedier/frp/pkg/config/v1"
	"github.com/fatedier/frp/pkg/msg"
	"pgregory.net/rapid"

	"verifharness/fx"
)

func TestMain(m *testing.M) { fx.Main(m, "C10") }

var allTypes = []string{"tcp", "tcp-group", "tcp-any", "tcp-group-any", "udp-any", "udp", "http", "http-group", "https", "tcpmux", "tcpmux-group", "stcp", "sudp", "xtcp"}

type Case struct {
	Types     []string `json:"types"`      // proxies registered by the session under test, in order
	Path      string   `json:"path"`       // close | drop | relogin | hbtimeout | partial
	DropAfter int      `json:"drop_after"` // for drop: number of messages of the script sent before the drop (0 = right after login)
	Cycles    int      `json:"cycles"`
	Traffic   bool     `json:"traffic"`
	Pool      int      `json:"pool"`
	TCPMux    bool     `json:"tcpmux"`
	Quota     bool     `json:"quota"` // maxPortsPerClient == exactly what the session needs
	Intruder  bool     `json:"intruder"` // after every group registration another session tries to join that group with a wrong key
}

func portUsers(types []string) int {
	n := 0
	for _, t := range types {
		if t == "tcp" || t == "tcp-group" || t == "udp" || strings.HasSuffix(t, "-any") {
			n++
		}
	}
	return n
}

func gen(t *rapid.T) Case {
	c := Case{Path: rapid.SampledFrom([]string{"close", "close", "drop", "drop", "drop", "relogin", "relogin", "partial", "hbtimeout"}).Draw(t, "path")}
	n := rapid.IntRange(1, 4).Draw(t, "ntypes")
	seen := map[string]bool{}
	for len(c.Types) < n {
		ty := rapid.SampledFrom(allTypes).Draw(t, "type")
		if !seen[ty] {
			seen[ty] = true
			c.Types = append(c.Types, ty)
		}
	}
	// proxies with a server-chosen port register after those with fixed ports, so that the server's choice cannot
	// take a port a later fixed request of the same script needs
	sort.SliceStable(c.Types, func(i, j int) bool { return !strings.HasSuffix(c.Types[i], "-any") && strings.HasSuffix(c.Types[j], "-any") })
	c.DropAfter = rapid.IntRange(0, n+2).Draw(t, "dropafter")
	c.Cycles = rapid.SampledFrom([]int{1, 1, 1, 2, 2, 3, 3, 1, 2, 12}).Draw(t, "cycles")
	if c.Path == "hbtimeout" {
		c.Cycles = 1
		if !fx.Thorough() && rapid.IntRange(0, 3).Draw(t, "hbskip") != 0 {
			c.Path = "drop"
		}
	}
	c.Traffic = rapid.Bool().Draw(t, "traffic")
	c.Pool = rapid.IntRange(0, 2).Draw(t, "pool")
	c.TCPMux = rapid.Bool().Draw(t, "tcpmux")
	c.Quota = rapid.Bool().Draw(t, "quota")
	c.Intruder = rapid.Bool().Draw(t, "intruder")
	return c
}

var noLocations bool

func pxyMsg(s *fx.Server, ty string, conflict bool) *msg.NewProxy {
	m := &msg.NewProxy{ProxyName: "x-" + ty}
	switch ty {
	case "tcp":
		m.ProxyType, m.RemotePort = "tcp", s.AllowPort(2)
	case "tcp-group":
		m.ProxyType, m.RemotePort, m.Group, m.GroupKey = "tcp", s.AllowPort(3), "xg", "k"
	case "udp":
		m.ProxyType, m.RemotePort = "udp", s.AllowPort(2)
	case "tcp-any": // remote port 0: the server chooses one, and must take it back
		m.ProxyType, m.RemotePort = "tcp", 0
	case "tcp-group-any":
		m.ProxyType, m.RemotePort, m.Group, m.GroupKey = "tcp", 0, "xg0", "k"
	case "udp-any":
		m.ProxyType, m.RemotePort = "udp", 0
	case "http":
		m.ProxyType, m.CustomDomains, m.Locations = "http", []string{"x-http.test", "x2-http.test"}, []string{"/", "/a"}
		if noLocations {
			m.Locations = nil
		}
	case "http-group":
		m.ProxyType, m.CustomDomains, m.Group, m.GroupKey = "http", []string{"xg-http.test"}, "xhg", "k"
	case "https":
		m.ProxyType, m.CustomDomains = "https", []string{"x-https.test", "x2-https.test"}
	case "tcpmux":
		m.ProxyType, m.CustomDomains, m.Multiplexer = "tcpmux", []string{"x-mux.test", "x2-mux.test"}, "httpconnect"
	case "tcpmux-group":
		m.ProxyType, m.CustomDomains, m.Multiplexer, m.Group, m.GroupKey = "tcpmux", []string{"xg-mux.test"}, "httpconnect", "xmg", "k"
	case "stcp":
		m.ProxyType, m.Sk = "stcp", "sk"
	case "sudp":
		m.ProxyType, m.Sk = "sudp", "sk"
	case "xtcp":
		m.ProxyType, m.Sk = "xtcp", "sk"
	}
	if conflict {
		// the LAST domain collides with a route of the bystander: the registration fails part-way
		switch m.ProxyType {
		case "http":
			m.CustomDomains = append(m.CustomDomains, "by-http.test")
			if m.Group != "" {
				m.CustomDomains = []string{"by-http.test"}
			}
		case "https":
			m.CustomDomains = append(m.CustomDomains, "by-https.test")
		case "tcpmux":
			m.CustomDomains = append(m.CustomDomains, "by-mux.test")
			if m.Group != "" {
				m.CustomDomains = []string{"by-mux.test"}
			}
		case "tcp":
			m.RemotePort = s.AllowPort(0) // the bystander's port
		case "udp":
			m.RemotePort = s.AllowPort(0)
		}
	}
	return m
}

func canConflict(ty string) bool {
	switch ty {
	case "stcp", "sudp", "xtcp":
		return false
	}
	return true
}

// goroutineSummary groups live goroutines by their creator / top frp frame.
func goroutineSummary() string {
	buf := make([]byte, 4<<20)
	n := runtime.Stack(buf, true)
	counts := map[string]int{}
	for _, g := range strings.Split(string(buf[:n]), "\n\n") {
		lines := strings.Split(g, "\n")
		key := ""
		for _, l := range lines {
			if strings.Contains(l, "github.com/fatedier/") || strings.Contains(l, "verifharness/") {
				key = strings.TrimSpace(l)
				if i := strings.Index(key, "("); i > 0 {
					key = key[:i]
				}
				break
			}
		}
		if key == "" && len(lines) > 1 {
			key = strings.TrimSpace(lines[1])
		}
		counts[key]++
	}
	var out []string
	for k, v := range counts {
		if v >= 3 {
			out = append(out, fmt.Sprintf("%dx %s", v, k))
		}
	}
	sort.Strings(out)
	return strings.Join(out, "; ")
}

func fdSummary() string {
	ents, _ := os.ReadDir("/proc/self/fd")
	counts := map[string]int{}
	for _, e := range ents {
		l, _ := os.Readlink("/proc/self/fd/" + e.Name())
		if i := strings.Index(l, ":"); i > 0 {
			l = l[:i]
		}
		counts[l]++
	}
	return fmt.Sprint(counts)
}

func fdCount() int {
	ents, err := os.ReadDir("/proc/self/fd")
	if err != nil {
		return -1
	}
	return len(ents)
}

// settle waits out the bounded-lifetime goroutines of closed proxies (the udp
// proxy's start-up sleep of 0.5 s + 1 s retry, work-connection waits bounded by
// userConnTimeout = 1 s): at least 2.2 s, then until the count is stable for 300 ms.
func settle() (goroutines, fds int) {
	time.Sleep(2200 * time.Millisecond)
	last, since := runtime.NumGoroutine(), time.Now()
	deadline := time.Now().Add(6 * time.Second)
	for time.Now().Before(deadline) {
		g := runtime.NumGoroutine()
		if g != last {
			last, since = g, time.Now()
		} else if time.Since(since) > 300*time.Millisecond {
			break
		}
		time.Sleep(10 * time.Millisecond)
	}
	// connections that became unreachable without Close are closed by finalizers: collect
	// them first, so that the count only contains descriptors something still holds
	runtime.GC()
	time.Sleep(30 * time.Millisecond)
	runtime.GC()
	time.Sleep(30 * time.Millisecond)
	return last, fdCount()
}

func snapKey(sn *fx.Snapshot) string {
	if sn == nil {
		return ""
	}
	s2 := *sn
	s2.Pooled = nil       // pool fill level varies with timing
	s2.PortsUsedNum = nil // covered by C09
	return fmt.Sprintf("%+v", s2)
}

func waitGone(s *fx.Server, runID string) {
	deadline := time.Now().Add(4 * time.Second)
	for time.Now().Before(deadline) {
		snap := s.Snapshot()
		if snap == nil {
			time.Sleep(200 * time.Millisecond)
			return
		}
		found := false
		for _, id := range snap.Sessions {
			if id == runID {
				found = true
			}
		}
		if !found {
			return
		}
		time.Sleep(time.Millisecond)
	}
}

func run(c Case) error {
	noLocations = c.Path == "partial" // so that the colliding triple is (host, "", "") like the bystander's
	hb := int64(-1)
	if c.Path == "hbtimeout" {
		hb = 2
	}
	s, err := fx.StartServer(fx.WithVhostHTTP(), fx.WithVhostHTTPS(), fx.WithTCPMux(false), fx.WithServerTCPMux(c.TCPMux),
		fx.WithCfg(func(sc *v1.ServerConfig, b *fx.Block) {
			sc.Transport.HeartbeatTimeout = hb
			sc.UserConnTimeout = 1
			// exactly as many ports per client as the session under test needs (the bystander needs 2)
			if c.Quota {
				sc.MaxPortsPerClient = int64(max(2, portUsers(c.Types)))
			}
		}))
	if err != nil {
		return err
	}
	defer s.Close()
	common := func() *v1.ClientCommonConfig {
		return fx.ScriptedCommon(s, func(cc *v1.ClientCommonConfig) { cc.Transport.TCPMux = lo.ToPtr(c.TCPMux) })
	}
	by, err := fx.ConnectCommon(common(), "by", "", 1, fx.KindWork("BY"))
	if err != nil {
		return fmt.Errorf("bystander login: %v", err)
	}
	defer by.Close()
	if hb > 0 {
		stop := make(chan struct{})
		defer close(stop)
		go func() {
			for {
				select {
				case <-stop:
					return
				case <-time.After(500 * time.Millisecond):
					_ = by.Send(&msg.Ping{})
				}
			}
		}()
	}
	for _, m := range []*msg.NewProxy{
		{ProxyName: "by-tcp", ProxyType: "tcp", RemotePort: s.AllowPort(0)},
		{ProxyName: "by-udp", ProxyType: "udp", RemotePort: s.AllowPort(0)},
		{ProxyName: "hby-http", ProxyType: "http", CustomDomains: []string{"by-http.test"}},
		{ProxyName: "by-https", ProxyType: "https", CustomDomains: []string{"by-https.test"}},
		{ProxyName: "by-mux", ProxyType: "tcpmux", CustomDomains: []string{"by-mux.test"}, Multiplexer: "httpconnect"},
		{ProxyName: "by-stcp", ProxyType: "stcp", Sk: "bsk"},
		// routes of the bystander on the very domains the session under test uses, kept apart by routeByHTTPUser only
		{ProxyName: "hby-shared", ProxyType: "http", CustomDomains: []string{"x-http.test"}, RouteByHTTPUser: "bob"},
		{ProxyName: "by-muxshared", ProxyType: "tcpmux", CustomDomains: []string{"x-mux.test"}, Multiplexer: "httpconnect", RouteByHTTPUser: "bob"},
	} {
		resp, e := by.NewProxy(m, 5*time.Second)
		if e != nil || resp.Error != "" {
			return fmt.Errorf("bystander registration %s: %v %+v", m.ProxyName, e, resp)
		}
	}
	bystanderOK := func(when string) error {
		conn, e := net.DialTimeout("tcp", fmt.Sprintf("127.0.0.1:%d", s.AllowPort(0)), 2*time.Second)
		if e != nil {
			return fmt.Errorf("%s: bystander's tcp port gone: %v", when, e)
		}
		line, e := fx.ReadLine(conn, 5*time.Second)
		conn.Close()
		if e != nil || line != "BY:by-tcp" {
			return fmt.Errorf("%s: bystander's tcp tunnel answered %q (%v)", when, line, e)
		}
		st, body, e := fx.HTTPGet(s.Addr(fx.SlotVhostHTTP), "by-http.test", "/", nil, 5*time.Second)
		if e != nil || st != 200 || body != "BY:hby-http" {
			return fmt.Errorf("%s: bystander's http route answered %d %q (%v)", when, st, body, e)
		}
		st2, cc, br, e := fx.HTTPConnect(s.Addr(fx.SlotTCPMux), "by-mux.test", nil, 5*time.Second)
		if e != nil || st2 != 200 {
			return fmt.Errorf("%s: bystander's tcpmux route answered %d (%v)", when, st2, e)
		}
		_ = cc.SetReadDeadline(time.Now().Add(5 * time.Second))
		l2, e := br.ReadString('\n')
		cc.Close()
		if e != nil || strings.TrimSpace(l2) != "BY:by-mux" {
			return fmt.Errorf("%s: bystander's tcpmux tunnel answered %q (%v)", when, l2, e)
		}
		bob := "Basic " + base64.StdEncoding.EncodeToString([]byte("bob:x"))
		st, body, e = fx.HTTPGet(s.Addr(fx.SlotVhostHTTP), "x-http.test", "/", map[string]string{"Authorization": bob}, 5*time.Second)
		if e != nil || st != 200 || body != "BY:hby-shared" {
			return fmt.Errorf("%s: bystander's http route for user bob on the domain it shares with the session under test answered %d %q (%v)", when, st, body, e)
		}
		st2, cc, br, e = fx.HTTPConnect(s.Addr(fx.SlotTCPMux), "x-mux.test", map[string]string{"Proxy-Authorization": bob}, 5*time.Second)
		if e != nil || st2 != 200 {
			return fmt.Errorf("%s: bystander's tcpmux route for user bob on the domain it shares with the session under test answered %d (%v)", when, st2, e)
		}
		_ = cc.SetReadDeadline(time.Now().Add(5 * time.Second))
		l2, e = br.ReadString('\n')
		cc.Close()
		if e != nil || strings.TrimSpace(l2) != "BY:by-muxshared" {
			return fmt.Errorf("%s: bystander's tcpmux tunnel for user bob on the shared domain answered %q (%v)", when, l2, e)
		}
		return nil
	}
	if e := bystanderOK("setup"); e != nil {
		return fx.Inconclusive("%v", e)
	}
	baseline := s.Snapshot()
	baseKey := snapKey(baseline)

	traffic := func(tag string) {
		for _, ty := range c.Types {
			switch ty {
			case "tcp", "tcp-group":
				port := s.AllowPort(2)
				if ty == "tcp-group" {
					port = s.AllowPort(3)
				}
				if conn, e := net.DialTimeout("tcp", fmt.Sprintf("127.0.0.1:%d", port), time.Second); e == nil {
					_, _ = fx.ReadLine(conn, 2*time.Second)
					conn.Close()
				}
			case "http":
				_, _, _ = fx.HTTPGet(s.Addr(fx.SlotVhostHTTP), "x-http.test", "/a", nil, 2*time.Second)
			case "tcpmux":
				if st, cc, _, _ := fx.HTTPConnect(s.Addr(fx.SlotTCPMux), "x-mux.test", nil, 2*time.Second); st == 200 {
					cc.Close()
				}
			}
		}
	}
	registerAll := func(sc *fx.ScriptedClient, upto int, when string) error {
		for i, ty := range c.Types {
			if i >= upto {
				break
			}
			resp, e := sc.NewProxy(pxyMsg(s, ty, false), 6*time.Second)
			if e != nil {
				return fmt.Errorf("%s: no answer to registration of %s: %v", when, ty, e)
			}
			if resp.Error != "" {
				return fmt.Errorf("%s: registration of %s refused: %s", when, ty, resp.Error)
			}
			if strings.Contains(ty, "-group") && c.Intruder {
				// another session tries to join the group with a wrong key: refused, and it must leave no trace either -
				// in particular it must not detach the group from its bookkeeping
				im := pxyMsg(s, ty, false)
				im.ProxyName, im.GroupKey = "intruder-"+ty, "not-the-key"
				ir, ie := by.NewProxy(im, 6*time.Second)
				if ie != nil {
					return fmt.Errorf("%s: no answer to a wrong-key join of %s: %v", when, ty, ie)
				}
				if ir.Error == "" {
					_ = by.CloseProxy(im.ProxyName)
					return fmt.Errorf("%s: a join of %s with a wrong group key was accepted", when, ty)
				}
			}
		}
		return nil
	}
	var g1, f1, gN, fN int
	for cyc := 0; cyc < c.Cycles; cyc++ {
		when := fmt.Sprintf("cycle %d", cyc)
		a, e := fx.ConnectCommon(common(), "a", "", c.Pool, fx.KindWork("A"))
		if e != nil {
			return fmt.Errorf("%s: login: %v", when, e)
		}
		closeA := func() { a.Close() }
		switch c.Path {
		case "close":
			if e := registerAll(a, 99, when); e != nil {
				closeA()
				return e
			}
			if c.Traffic {
				traffic("A")
			}
			for _, ty := range c.Types {
				_ = a.CloseProxy("x-" + ty)
			}
			// identical registration on the same session right after the close request
			if e := registerAll(a, 99, when+" re-registration right after CloseProxy"); e != nil {
				closeA()
				return e
			}
			for _, ty := range c.Types {
				_ = a.CloseProxy("x-" + ty)
			}
			if e := a.Sync(5 * time.Second); e != nil {
				closeA()
				return fmt.Errorf("%s: session dead: %v", when, e)
			}
			closeA()
			waitGone(s, a.RunID)
		case "drop", "hbtimeout":
			upto := 99
			if c.Path == "drop" {
				upto = c.DropAfter
			}
			if e := registerAll(a, upto, when); e != nil {
				closeA()
				return e
			}
			if c.Traffic {
				traffic("A")
			}
			if c.Path == "drop" {
				if upto < len(c.Types) && upto >= 0 {
					// drop while the next registration is in flight: send it and cut at once
					_ = a.Send(pxyMsg(s, c.Types[min(upto, len(c.Types)-1)], false))
				}
				closeA()
			} else {
				// fall silent: no pings; the server must tear the session down by itself
				if e := a.WaitControlClosed(6 * time.Second); e != nil {
					closeA()
					return fmt.Errorf("%s: silent session not torn down within heartbeatTimeout(2s)+4s", when)
				}
				closeA()
			}
			waitGone(s, a.RunID)
			b, e := fx.ConnectCommon(common(), "a", "", c.Pool, fx.KindWork("A2"))
			if e != nil {
				return fmt.Errorf("%s: new login: %v", when, e)
			}
			if e := registerAll(b, 99, when+" identical registration on a new session after the old one ended"); e != nil {
				b.Close()
				return e
			}
			b.Close()
			waitGone(s, b.RunID)
		case "relogin":
			if e := registerAll(a, 99, when); e != nil {
				closeA()
				return e
			}
			if c.Traffic {
				traffic("A")
			}
			a.StopAuto()
			b, e := fx.ConnectCommon(common(), "a", a.RunID, c.Pool, fx.KindWork("A2"))
			if e != nil {
				closeA()
				return fmt.Errorf("%s: re-login: %v", when, e)
			}
			if e := registerAll(b, 99, when+" identical registration right after the re-login was acknowledged"); e != nil {
				b.Close()
				closeA()
				return e
			}
			closeA()
			b.Close()
			waitGone(s, b.RunID)
		case "partial":
			// a registration that fails part-way must give back what it took
			for _, ty := range c.Types {
				if !canConflict(ty) {
					continue
				}
				resp, e := a.NewProxy(pxyMsg(s, ty, true), 6*time.Second)
				if e != nil {
					closeA()
					return fmt.Errorf("%s: no answer to conflicting registration of %s: %v", when, ty, e)
				}
				if resp.Error == "" {
					closeA()
					return fmt.Errorf("%s: registration of %s that collides with the bystander's route/port was accepted", when, ty)
				}
			}
			// now the same proxies without the colliding part: everything the failed attempts took must be free
			if e := registerAll(a, 99, when+" registration after a part-way failure"); e != nil {
				closeA()
				return e
			}
			closeA()
			waitGone(s, a.RunID)
		}
		// after every cycle: tables back to the baseline, bystander untouched
		deadline := time.Now().Add(4 * time.Second)
		for baseline != nil {
			now := s.Snapshot()
			if snapKey(now) == baseKey {
				break
			}
			if time.Now().After(deadline) {
				return fmt.Errorf("%s (%s): server tables differ from the state before the cycle:\n before %s\n after  %s", when, c.Path, baseKey, snapKey(now))
			}
			time.Sleep(5 * time.Millisecond)
		}
		if c.Cycles >= 10 && cyc == 1 {
			g1, f1 = settle() // after two warm-up cycles
		}
		if c.Cycles < 10 {
			if e := bystanderOK(when); e != nil {
				return e
			}
		}
	}
	if e := bystanderOK("after the cycles"); e != nil {
		return e
	}
	if c.Cycles >= 10 {
		gN, fN = settle()
		fx.AddLabel("cycles", fmt.Sprintf("leakrun-goroutine-delta=%d", gN-g1), 1)
		fx.AddLabel("cycles", fmt.Sprintf("leakrun-fd-delta=%d", fN-f1), 1)
		half := (c.Cycles - 2) / 2
		if gN-g1 >= half {
			return fmt.Errorf("goroutines grew from %d to %d over %d identical cycles after warm-up (%s, types %v): %s", g1, gN, 2*half, c.Path, c.Types, goroutineSummary())
		}
		if fN-f1 >= half {
			return fmt.Errorf("open descriptors grew from %d to %d over %d identical cycles after warm-up (%s, types %v): %s; goroutines %d -> %d: %s", f1, fN, 2*half, c.Path, c.Types, fdSummary(), g1, gN, goroutineSummary())
		}
	}
	return nil
}

func classify(c Case) fx.Class {
	ts := append([]string(nil), c.Types...)
	sort.Strings(ts)
	labels := []string{"path=" + c.Path}
	for _, t := range c.Types {
		labels = append(labels, "type="+t)
	}
	if c.Cycles >= 10 {
		labels = append(labels, "leak-run")
	}
	return fx.Class{NonTrivial: c.Path != "close" || c.Cycles >= 10,
		Fingerprint: fmt.Sprint(ts, c.Path, c.DropAfter, c.Cycles, c.Traffic, c.Pool, c.TCPMux, c.Quota), Labels: labels}
}

func TestCycles(t *testing.T) {
	fx.Prelease(3)
	fx.Run(t, fx.Spec[Case]{Prop: "C10", Name: "cycles", Quick: 480, Thorough: 12000, Gen: gen, Run: run, Class: classify, Journal: true})
}
