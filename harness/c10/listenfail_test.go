package c10

// listen_fails_after_acquire: "a registration that fails part-way ... listen fails after port acquisition": the port has
// been granted by the port manager and counted against the session's quota when another process takes it; the listen
// fails, and everything the attempt took must be given back - the identical registration succeeds as soon as the port
// is free again, with maxPortsPerClient = 1. Needs the gate hook (a hold between acquisition and listen).

import (
	"fmt"
	"io"
	"net"
	"testing"
	"time"

	v1 "github.com/fatedier/frp/pkg/config/v1"
	"github.com/fatedier/frp/pkg/msg"

	"verifharness/fx"
)

func listenFails(kind string, anyPort bool) error {
	s, err := fx.StartServer(fx.WithCfg(func(sc *v1.ServerConfig, b *fx.Block) { sc.MaxPortsPerClient = 1 }))
	if err != nil {
		return err
	}
	defer s.Close()
	defer fx.ClearGates()
	a, err := fx.Connect(s, "a", 1)
	if err != nil {
		return fx.Inconclusive("login: %v", err)
	}
	defer a.Close()
	a.AutoWork = fx.KindWork("A")
	baseKey := snapKey(s.Snapshot())
	name := "x-" + kind
	port := s.AllowPort(3)
	m := &msg.NewProxy{ProxyName: name, ProxyType: kind, RemotePort: port}
	g := fx.HoldGate(kind+".run.acquired", 1, fx.KeyIs(0, name))
	type ans struct {
		r *msg.NewProxyResp
		e error
	}
	got := make(chan ans, 1)
	go func() {
		r, e := a.NewProxy(m, 10*time.Second)
		got <- ans{r, e}
	}()
	if !g.WaitArrived(5 * time.Second) {
		g.Release()
		return fx.Inconclusive("gate %s.run.acquired not reached (not placed?)", kind)
	}
	// the port is acquired and counted; somebody else binds it before frps does
	var squat io.Closer
	if kind == "tcp" {
		l, e := net.Listen("tcp", fmt.Sprintf(":%d", port))
		if e != nil {
			g.Release()
			return fx.Inconclusive("squat: %v", e)
		}
		squat = l
	} else {
		l, e := net.ListenUDP("udp", &net.UDPAddr{Port: port})
		if e != nil {
			g.Release()
			return fx.Inconclusive("squat: %v", e)
		}
		squat = l
	}
	g.Release()
	var first ans
	select {
	case first = <-got:
	case <-time.After(11 * time.Second):
		squat.Close()
		return fmt.Errorf("%s registration whose listen fails after the port was acquired: no answer", kind)
	}
	if first.e != nil {
		squat.Close()
		return fmt.Errorf("%s registration whose listen fails after the port was acquired: %v", kind, first.e)
	}
	if first.r.Error == "" {
		squat.Close()
		return fmt.Errorf("%s registration reported success (%s) although another process holds port %d", kind, first.r.RemoteAddr, port)
	}
	deadline := time.Now().Add(3 * time.Second)
	for {
		now := snapKey(s.Snapshot())
		if now == baseKey {
			break
		}
		if time.Now().After(deadline) {
			squat.Close()
			return fmt.Errorf("%s registration failed at listen (%s) but the server's tables differ from the state before it:\n before %s\n after  %s", kind, first.r.Error, baseKey, now)
		}
		time.Sleep(10 * time.Millisecond)
	}
	squat.Close()
	// identical registration: port, name and quota (maxPortsPerClient = 1) must all be free again
	r, e := a.NewProxy(m, 6*time.Second)
	if e != nil {
		return fmt.Errorf("identical %s registration after the failed one: %v", kind, e)
	}
	if r.Error != "" {
		return fmt.Errorf("identical %s registration after one that failed at listen (%s) is refused: %s", kind, first.r.Error, r.Error)
	}
	if kind == "tcp" {
		conn, e := net.DialTimeout("tcp", fmt.Sprintf("127.0.0.1:%d", port), 2*time.Second)
		if e != nil {
			return fmt.Errorf("registered port %d not reachable: %v", port, e)
		}
		line, e := fx.ReadLine(conn, 5*time.Second)
		conn.Close()
		if e != nil || line != "A:"+name {
			return fmt.Errorf("tunnel on port %d answered %q (%v)", port, line, e)
		}
	}
	return nil
}

func TestListenFailsAfterAcquire(t *testing.T) {
	if !fx.Hooked || fx.Shard() != 0 || fx.Replaying() {
		return
	}
	for _, kind := range []string{"tcp", "udp"} {
		fx.JournalCase("C10", "listen_fails_after_acquire", kind)
		err := listenFails(kind, false)
		if fx.IsInconclusive(err) {
			fx.Note("listen_fails_after_acquire", "%v", err)
			continue
		}
		if err != nil {
			fx.ReportViolation("C10", "listen_fails_after_acquire", kind+": gate held between port acquisition and listen while another process binds the port", err)
			t.Errorf("C10/listen_fails_after_acquire: %v", err)
			continue
		}
		fx.Record("listen_fails_after_acquire", fx.Class{NonTrivial: true, Fingerprint: kind}, kind+": gate held between port acquisition and listen while another process binds the port")
	}
}
