// Package c01: TCP-class tunnels are byte-transparent end to end and never cross-wired.
package c01

import (
	"os"
	"encoding/json"
	"bufio"
	"bytes"
	"crypto/tls"
	"fmt"
	"io"
	"net"
	"strings"
	"sync"
	"sync/atomic"
	"testing"
	"time"

	pp "github.com/pires/go-proxyproto"
	"github.com/samber/lo"

	"github.com/fatedier/frp/pkg/config/types"
	v1 "github.com/fatedier/frp/pkg/config/v1"
	"pgregory.net/rapid"

	"verifharness/fx"
)

func TestMain(m *testing.M) { fx.Main(m, "C01") }

type Stream struct {
	Len     int    `json:"len"`
	Content string `json:"content"` // rand zeros period text
	Chunk   string `json:"chunk"`   // one small mixed big
	Seed    uint64 `json:"seed"`
	PauseMs int    `json:"pause_ms,omitempty"` // the writer stops for this long after half of the stream (long-lived connections)
}

type ConnScript struct {
	Proxy int    `json:"proxy"`
	Up    Stream `json:"up"`
	Down  Stream `json:"down"`
	Mode  string `json:"mode"` // duplex | backend-closes | user-closes | user-early | backend-early
	Cut   int    `json:"cut"`  // early modes: permille of the closing side's stream written before the close
}

type Case struct {
	Kind       string       `json:"kind"` // tcp https tcpmux stcp xtcp
	Enc        bool         `json:"enc"`
	Comp       bool         `json:"comp"`
	Limit      string       `json:"limit"` // "" client server
	LimitKB    int          `json:"limit_kb"`
	TCPMux     bool         `json:"tcpmux"`
	Transport  string       `json:"transport"` // tcp websocket kcp quic
	TLS        bool         `json:"tls"`
	CustomByte bool         `json:"custom_first_byte"`
	Pool       int          `json:"pool"`
	ProxyProto string       `json:"proxy_proto"`
	SharedPort bool         `json:"shared_https_port"` // vhost https port == bind port
	Passthru   bool         `json:"tcpmux_passthrough"`
	NProxies   int          `json:"nproxies"`
	Conns      []ConnScript `json:"conns"`
	Sequential bool         `json:"sequential,omitempty"` // the user connections run one after the other (a history on one client session)
}

var lenClasses = []int{0, 1, 15, 16, 17, 4095, 4096, 4097, 16383, 16384, 16385, 32768, 65535, 65536, 65537, 262144, 300000, 1 << 20}

func genStream(t *rapid.T, l string, maxLen int) Stream {
	n := rapid.SampledFrom(lenClasses).Draw(t, l+"/len")
	if n > maxLen {
		n = maxLen
	}
	return Stream{Len: n, Content: rapid.SampledFrom([]string{"rand", "rand", "zeros", "period", "text"}).Draw(t, l+"/content"),
		Chunk: rapid.SampledFrom([]string{"one", "small", "mixed", "big"}).Draw(t, l+"/chunk"), Seed: rapid.Uint64().Draw(t, l+"/seed")}
}

func gen(t *rapid.T) Case {
	c := Case{Kind: rapid.SampledFrom([]string{"tcp", "tcp", "tcp", "https", "tcpmux", "stcp", "xtcp"}).Draw(t, "kind"),
		Enc: rapid.Bool().Draw(t, "enc"), Comp: rapid.Bool().Draw(t, "comp"), TCPMux: rapid.Bool().Draw(t, "tcpmux"), TLS: rapid.Bool().Draw(t, "tls"),
		CustomByte: rapid.Bool().Draw(t, "custombyte"), Pool: rapid.IntRange(0, 3).Draw(t, "pool"), NProxies: rapid.IntRange(1, 3).Draw(t, "nproxies")}
	tr := []string{"tcp", "tcp", "tcp", "websocket"}
	if fx.Thorough() {
		tr = append(tr, "kcp", "quic", "kcp", "quic")
	} else if rapid.IntRange(0, 9).Draw(t, "rare-transport") == 0 {
		tr = []string{"kcp", "quic"}
	}
	c.Transport = rapid.SampledFrom(tr).Draw(t, "transport")
	if c.Transport == "quic" {
		c.TLS = true
	}
	if c.Kind == "tcp" || c.Kind == "https" || c.Kind == "tcpmux" {
		c.ProxyProto = rapid.SampledFrom([]string{"", "", "v1", "v2"}).Draw(t, "pp")
	}
	if c.Kind == "https" {
		c.SharedPort = rapid.Bool().Draw(t, "shared")
		if c.SharedPort && c.TLS {
			c.CustomByte = true // with a shared port frp's own TLS must announce itself with the custom first byte
		}
	}
	if c.Kind == "tcpmux" {
		c.Passthru = rapid.Bool().Draw(t, "passthru")
	}
	maxLen := 1 << 20
	if rapid.IntRange(0, 7).Draw(t, "limited") == 0 {
		c.Limit = rapid.SampledFrom([]string{"client", "server"}).Draw(t, "limitmode")
		// small limits matter: the copy loops hand the limiter 16 KiB (and larger) writes, more than one burst
		c.LimitKB = rapid.SampledFrom([]int{4, 8, 16, 64, 128, 512}).Draw(t, "limitkb")
		maxLen = 5 * c.LimitKB * 1024 // budget for ALL streams of the case (about 5 s), see below
	}
	n := rapid.IntRange(1, 5).Draw(t, "nconns")
	if c.Limit != "" && n > 3 {
		n = 3 // every stream may take a second
	}
	for i := 0; i < n; i++ {
		l := fmt.Sprintf("c%d", i)
		up := genStream(t, l+"/up", maxLen)
		if c.Limit != "" {
			maxLen -= up.Len
		}
		down := genStream(t, l+"/down", maxLen)
		if c.Limit != "" {
			maxLen -= down.Len
		}
		cs := ConnScript{Proxy: rapid.IntRange(0, c.NProxies-1).Draw(t, l+"/proxy"), Up: up, Down: down,
			Mode: rapid.SampledFrom([]string{"duplex", "duplex", "backend-closes", "user-closes", "user-early", "backend-early"}).Draw(t, l+"/mode"),
			Cut:  rapid.IntRange(0, 1000).Draw(t, l+"/cut")}
		if c.Limit != "" {
			if c.Comp {
				cs.Up.Content, cs.Down.Content = "rand", "rand" // the client-side limiter meters compressed bytes: keep both readings equal
			}
		}
		c.Conns = append(c.Conns, cs)
	}
	return c
}

// ---- deterministic stream content -------------------------------------------------------------------

func streamBytes(s Stream) []byte {
	b := make([]byte, s.Len)
	switch s.Content {
	case "zeros":
	case "period":
		for i := range b {
			b[i] = byte("abcdefgh"[i%8])
		}
	case "text":
		line := []byte("The quick brown fox jumps over the lazy dog.\n")
		for i := range b {
			b[i] = line[i%len(line)]
		}
	default:
		x := s.Seed | 1
		for i := range b {
			x ^= x << 13
			x ^= x >> 7
			x ^= x << 17
			b[i] = byte(x >> 24)
		}
	}
	return b
}

func writeChunked(w io.Writer, data []byte, s Stream, limit int) (int, error) {
	if limit < len(data) {
		data = data[:limit]
	}
	x := s.Seed*2654435761 | 1
	total := 0
	half, paused := len(data)/2, s.PauseMs <= 0
	for len(data) > 0 {
		n := len(data)
		if !paused && total >= half {
			paused = true
			time.Sleep(time.Duration(s.PauseMs) * time.Millisecond)
		}
		if !paused && n > half-total {
			n = half - total
		}
		switch s.Chunk {
		case "small":
			n = 1 + int(x%97)
		case "mixed":
			n = 1 << (x % 17)
		case "big":
			n = 32*1024 + int(x%40000)
		}
		x ^= x << 13
		x ^= x >> 7
		x ^= x << 17
		if n > len(data) {
			n = len(data)
		}
		if !paused && n > half-total {
			n = half - total
		}
		if n <= 0 {
			n = 1
		}
		m, err := w.Write(data[:n])
		total += m
		if err != nil {
			return total, err
		}
		data = data[n:]
	}
	return total, nil
}

// prefixReader compares everything it reads against the expected stream on the fly.
type recvResult struct {
	n      int
	bad    int // offset of the first byte that differs, -1 = none
	err    error
	times  []time.Time
	counts []int
}

func readAndCompare(r io.Reader, expect []byte, deadline time.Time, conn net.Conn, progress *atomic.Int64) recvResult {
	res := recvResult{bad: -1}
	buf := make([]byte, 64*1024)
	for {
		if conn != nil {
			_ = conn.SetReadDeadline(deadline)
		}
		n, err := r.Read(buf)
		if n > 0 {
			res.times = append(res.times, time.Now())
			res.counts = append(res.counts, n)
			if res.bad < 0 {
				if res.n+n > len(expect) {
					res.bad = len(expect)
				} else if !bytes.Equal(buf[:n], expect[res.n:res.n+n]) {
					for i := 0; i < n; i++ {
						if buf[i] != expect[res.n+i] {
							res.bad = res.n + i
							break
						}
					}
				}
			}
			res.n += n
			if progress != nil {
				progress.Store(int64(res.n))
			}
		}
		if err != nil {
			res.err = err
			if progress != nil {
				progress.Store(int64(res.n) | 1<<40) // finished
			}
			return res
		}
		if res.n >= len(expect) && len(expect) > 0 && false {
			return res
		}
	}
}

var (
	helloMu sync.Mutex
	hellos  = map[string][]byte{}
)

// clientHello returns real TLS ClientHello bytes for an SNI (captured from crypto/tls once).
func clientHello(sni string) []byte {
	helloMu.Lock()
	defer helloMu.Unlock()
	if b, ok := hellos[sni]; ok {
		return b
	}
	a, b := net.Pipe()
	go func() {
		_ = tls.Client(a, &tls.Config{ServerName: sni, InsecureSkipVerify: true}).Handshake()
	}()
	buf := make([]byte, 4096)
	_ = b.SetReadDeadline(time.Now().Add(2 * time.Second))
	n, _ := b.Read(buf)
	// the record header tells the full length
	for n >= 5 && n < 5+int(buf[3])<<8+int(buf[4]) {
		m, err := b.Read(buf[n:])
		if err != nil {
			break
		}
		n += m
	}
	a.Close()
	b.Close()
	hellos[sni] = append([]byte(nil), buf[:n]...)
	return hellos[sni]
}

type backendConn struct {
	got     atomic.Int64 // bytes of the up stream received so far (bit 40 set = reader finished)
	proxy   int
	tag     string
	srcAddr string // from the PROXY header
	up      recvResult
	closedAt time.Time
}

func domainOf(i int) string { return fmt.Sprintf("p%d.tunnel.test", i) }

func run(c Case) error {
	t0 := time.Now()
	err := run1(c)
	if err != nil && !fx.IsInconclusive(err) && !reliable(c) {
		// raw kcp work connections (no multiplexing) under a saturated machine: a failure counts only if it repeats
		if err2 := run1(c); err2 == nil || fx.IsInconclusive(err2) {
			fx.Note("tunnels", "raw-kcp failure not reproduced on retry: %v", err)
			fx.AddLabel("tunnels", "flaky-unreproduced-raw-kcp", 1)
			err = nil
		} else {
			err = err2
		}
	}
	if d := time.Since(t0); d > 5*time.Second && os.Getenv("VERIF_C01_SLOW") != "" {
		b, _ := json.Marshal(c)
		fmt.Printf("SLOW %.1fs %s\n", d.Seconds(), b)
	}
	return err
}

func run1(c Case) error {
	tStart := time.Now()
	opts := []fx.ServerOpt{fx.WithServerTCPMux(c.TCPMux), fx.WithKCP(), fx.WithQUIC(), fx.WithTCPMux(c.Passthru), fx.WithCfg(func(sc *v1.ServerConfig, b *fx.Block) {
		if c.SharedPort {
			sc.VhostHTTPSPort = sc.BindPort
		} else {
			sc.VhostHTTPSPort = b.Port(fx.SlotVhostHTTPS)
		}
	})}
	s, err := fx.StartServer(opts...)
	if err != nil {
		return err
	}
	defer s.Close()

	// ---- backends: one per proxy; every accepted connection follows the script named by the user's tag
	var bmu sync.Mutex
	bconns := map[string]*backendConn{}
	var bls []net.Listener
	open_ := map[string]*atomic.Value{}
	defer func() {
		for _, l := range bls {
			l.Close()
		}
	}()
	prefixFor := func(pi int) []byte {
		switch {
		case c.Kind == "https":
			return clientHello(domainOf(pi))
		case c.Kind == "tcpmux" && c.Passthru:
			return []byte("CONNECT " + domainOf(pi) + " HTTP/1.1\r\nHost: " + domainOf(pi) + "\r\n\r\n")
		}
		return nil
	}
	maxPause := 0
	for _, cs := range c.Conns {
		maxPause = max(maxPause, cs.Up.PauseMs, cs.Down.PauseMs)
	}
	deadline := time.Now().Add(25*time.Second + time.Duration(maxPause)*time.Millisecond)
	if c.Sequential {
		deadline = deadline.Add(time.Duration(len(c.Conns)) * 3 * time.Second)
	}
	var bwg sync.WaitGroup
	for pi := 0; pi < c.NProxies; pi++ {
		l, e := net.Listen("tcp", "127.0.0.1:0")
		if e != nil {
			return fx.Inconclusive("%v", e)
		}
		bls = append(bls, l)
		go func(pi int, l net.Listener) {
			for {
				cn, e := l.Accept()
				if e != nil {
					return
				}
				bwg.Add(1)
				go func() {
					defer bwg.Done()
					defer cn.Close()
					stage := &atomic.Value{}
					stage.Store("accepted")
					bmu.Lock()
					open_[cn.RemoteAddr().String()] = stage
					bmu.Unlock()
					defer func() {
						bmu.Lock()
						delete(open_, cn.RemoteAddr().String())
						bmu.Unlock()
					}()
					br := bufio.NewReaderSize(cn, 64*1024)
					bc := &backendConn{proxy: pi}
					bc.up.bad = -1
					_ = cn.SetReadDeadline(deadline)
					if c.ProxyProto != "" {
						h, e := pp.Read(br)
						if e != nil {
							bc.tag = fmt.Sprintf("?pp-error:%v", e)
							bmu.Lock()
							bconns[bc.tag] = bc
							bmu.Unlock()
							return
						}
						if h.SourceAddr != nil {
							bc.srcAddr = h.SourceAddr.String()
						}
					}
					pre := prefixFor(pi)
					got := make([]byte, len(pre))
					if _, e := io.ReadFull(br, got); e != nil || !bytes.Equal(got, pre) {
						bc.tag = fmt.Sprintf("?prefix-mismatch:%q", got)
						bmu.Lock()
						bconns[bc.tag+cn.RemoteAddr().String()] = bc
						bmu.Unlock()
						return
					}
					if c.Kind == "tcpmux" && c.Passthru {
						_, _ = cn.Write([]byte("HTTP/1.1 200 OK\r\n\r\n"))
					}
					tagLine, e := br.ReadString('\n')
					if e != nil {
						return
					}
					bc.tag = strings.TrimSpace(tagLine)
					stage.Store("tag " + bc.tag)
					var k int
					if _, e := fmt.Sscanf(bc.tag, "C%06d", &k); e != nil || k >= len(c.Conns) {
						bmu.Lock()
						bconns["?badtag:"+bc.tag] = bc
						bmu.Unlock()
						return
					}
					cs := c.Conns[k]
					bmu.Lock()
					bconns[bc.tag] = bc
					bmu.Unlock()
					up, down := streamBytes(cs.Up), streamBytes(cs.Down)
					hdr := []byte(fmt.Sprintf("B%d:%s\n", pi, bc.tag))
					var wg sync.WaitGroup
					wg.Add(1)
					go func() {
						defer wg.Done()
						r := readAndCompare(br, up, deadline, cn, &bc.got)
						bmu.Lock()
						bc.up = r
						bc.closedAt = time.Now()
						bmu.Unlock()
					}()
					_, _ = cn.Write(hdr)
					switch cs.Mode {
					case "duplex":
						_, _ = writeChunked(cn, down, cs.Down, len(down))
						wg.Wait() // keep the connection open until the user closed (it does so after reading everything)
					case "backend-closes":
						// wait for the complete request, then answer and close at once
						waitUntil(func() bool { return bc.got.Load()&(1<<40-1) >= int64(len(up)) || bc.got.Load()>>40 != 0 }, deadline)
						_, _ = writeChunked(cn, down, cs.Down, len(down))
						cn.Close()
						wg.Wait()
					case "user-closes":
						wg.Wait() // read to EOF
					case "backend-early":
						_, _ = writeChunked(cn, down, cs.Down, len(down)*cs.Cut/1000)
						cn.Close()
						wg.Wait()
					case "user-early":
						_, _ = writeChunked(cn, down, cs.Down, len(down))
						wg.Wait()
					}
				}()
			}
		}(pi, l)
	}

	// ---- frpc (owner) and, for the secret kinds, a second frpc with the visitors
	common := fx.BaseClientConfig(s)
	common.Transport.Protocol = c.Transport
	switch c.Transport {
	case "kcp":
		common.ServerPort = s.Block.Port(fx.SlotKCP)
	case "quic":
		common.ServerPort = s.Block.Port(fx.SlotQUIC)
	}
	common.Transport.TCPMux = lo.ToPtr(c.TCPMux)
	common.Transport.TLS.Enable = lo.ToPtr(c.TLS)
	common.Transport.TLS.DisableCustomTLSFirstByte = lo.ToPtr(!c.CustomByte)
	common.Transport.PoolCount = c.Pool
	common.User = "owner"
	var pcs []v1.ProxyConfigurer
	var names []string
	setBase := func(b *v1.ProxyBaseConfig, name, typ string, port int) {
		b.Name, b.Type, b.LocalIP, b.LocalPort = name, typ, "127.0.0.1", port
		b.Transport.UseEncryption, b.Transport.UseCompression = c.Enc, c.Comp
		b.Transport.ProxyProtocolVersion = c.ProxyProto
		if c.Limit != "" {
			b.Transport.BandwidthLimitMode = c.Limit
			b.Transport.BandwidthLimit, _ = types.NewBandwidthQuantity(fmt.Sprintf("%dKB", c.LimitKB))
		}
	}
	for pi := 0; pi < c.NProxies; pi++ {
		bport := bls[pi].Addr().(*net.TCPAddr).Port
		name := fmt.Sprintf("px%d", pi)
		switch c.Kind {
		case "tcp":
			p := &v1.TCPProxyConfig{RemotePort: s.AllowPort(pi)}
			setBase(&p.ProxyBaseConfig, name, "tcp", bport)
			pcs = append(pcs, p)
		case "https":
			p := &v1.HTTPSProxyConfig{}
			setBase(&p.ProxyBaseConfig, name, "https", bport)
			p.CustomDomains = []string{domainOf(pi)}
			pcs = append(pcs, p)
		case "tcpmux":
			p := &v1.TCPMuxProxyConfig{Multiplexer: "httpconnect"}
			setBase(&p.ProxyBaseConfig, name, "tcpmux", bport)
			p.CustomDomains = []string{domainOf(pi)}
			pcs = append(pcs, p)
		case "stcp":
			p := &v1.STCPProxyConfig{Secretkey: "sk", AllowUsers: []string{"*"}}
			setBase(&p.ProxyBaseConfig, name, "stcp", bport)
			pcs = append(pcs, p)
		case "xtcp":
			p := &v1.XTCPProxyConfig{Secretkey: "sk", AllowUsers: []string{"*"}}
			setBase(&p.ProxyBaseConfig, name, "xtcp", bport)
			pcs = append(pcs, p)
			fb := &v1.STCPProxyConfig{Secretkey: "sk", AllowUsers: []string{"*"}}
			setBase(&fb.ProxyBaseConfig, name+"fb", "stcp", bport)
			pcs = append(pcs, fb)
			names = append(names, "owner."+name+"fb")
		}
		names = append(names, "owner."+name)
	}
	cl, err := fx.StartClient(common, pcs, nil)
	if err != nil {
		return fx.Inconclusive("client: %v", err)
	}
	defer cl.Close()
	if e := cl.WaitRunning(10*time.Second, names...); e != nil {
		return fx.Inconclusive("tunnels did not come up: %v (%+v)", e, c)
	}
	userAddr := func(pi int) string {
		switch c.Kind {
		case "tcp":
			return fmt.Sprintf("127.0.0.1:%d", s.AllowPort(pi))
		case "https":
			return fmt.Sprintf("127.0.0.1:%d", s.Cfg.VhostHTTPSPort)
		case "tcpmux":
			return s.Addr(fx.SlotTCPMux)
		}
		return fmt.Sprintf("127.0.0.1:%d", s.Block.Port(fx.SlotExtra+pi))
	}
	if c.Kind == "stcp" || c.Kind == "xtcp" {
		vc := fx.BaseClientConfig(s)
		vc.Transport.Protocol, vc.ServerPort = common.Transport.Protocol, common.ServerPort
		vc.Transport.TCPMux, vc.Transport.TLS.Enable, vc.Transport.TLS.DisableCustomTLSFirstByte = common.Transport.TCPMux, common.Transport.TLS.Enable, common.Transport.TLS.DisableCustomTLSFirstByte
		vc.User = "visitor"
		vc.NatHoleSTUNServer = "127.0.0.1:9" // nothing answers: hole punching cannot succeed, the fallback path runs
		var vcs []v1.VisitorConfigurer
		for pi := 0; pi < c.NProxies; pi++ {
			name := fmt.Sprintf("px%d", pi)
			if c.Kind == "stcp" {
				v := &v1.STCPVisitorConfig{}
				v.Name, v.Type, v.ServerUser, v.ServerName, v.SecretKey, v.BindAddr, v.BindPort = "v"+name, "stcp", "owner", name, "sk", "127.0.0.1", s.Block.Port(fx.SlotExtra+pi)
				v.Transport.UseEncryption, v.Transport.UseCompression = c.Enc, c.Comp
				vcs = append(vcs, v)
			} else {
				fb := &v1.STCPVisitorConfig{}
				fb.Name, fb.Type, fb.ServerUser, fb.ServerName, fb.SecretKey, fb.BindAddr, fb.BindPort = "fb"+name, "stcp", "owner", name+"fb", "sk", "127.0.0.1", -1
				fb.Transport.UseEncryption, fb.Transport.UseCompression = c.Enc, c.Comp
				vcs = append(vcs, fb)
				v := &v1.XTCPVisitorConfig{FallbackTo: "fb" + name, FallbackTimeoutMs: 200}
				v.Name, v.Type, v.ServerUser, v.ServerName, v.SecretKey, v.BindAddr, v.BindPort = "v"+name, "xtcp", "owner", name, "sk", "127.0.0.1", s.Block.Port(fx.SlotExtra+pi)
				vcs = append(vcs, v)
			}
		}
		vcl, e := fx.StartClient(vc, nil, vcs)
		if e != nil {
			return fx.Inconclusive("visitor client: %v", e)
		}
		defer vcl.Close()
		for pi := 0; pi < c.NProxies; pi++ {
			if e := fx.WaitListen(userAddr(pi), 6*time.Second); e != nil {
				return fx.Inconclusive("visitor did not bind: %v", e)
			}
		}
	}

	// ---- users
	type userRes struct {
		k       int
		local   string
		hdr     string
		down    recvResult
		wrote   int
		werr    error
		dialErr error
		closedAt time.Time
		start, end time.Time
	}
	results := make([]userRes, len(c.Conns))
	var uwg sync.WaitGroup
	t0 := time.Now()
	for k, cs := range c.Conns {
		uwg.Add(1)
		userFn := func(k int, cs ConnScript) {
			defer uwg.Done()
			r := &results[k]
			r.k, r.start = k, time.Now()
			r.down.bad = -1
			defer func() { r.end = time.Now() }()
			cn, e := net.DialTimeout("tcp", userAddr(cs.Proxy), 5*time.Second)
			if e != nil {
				r.dialErr = e
				return
			}
			defer cn.Close()
			r.local = cn.LocalAddr().String()
			br := bufio.NewReaderSize(cn, 64*1024)
			deadline := deadline
			_ = cn.SetDeadline(deadline)
			if !reliable(c) && cs.Mode != "duplex" {
				deadline = time.Now().Add(4 * time.Second)
				// raw kcp: what a closing side wrote last may never arrive and its close is not signalled;
				// only the prefix property is checked for these scripts, so do not wait long
				_ = cn.SetDeadline(time.Now().Add(4 * time.Second))
			}
			switch c.Kind {
			case "https":
				_, _ = cn.Write(clientHello(domainOf(cs.Proxy)))
			case "tcpmux":
				_, _ = cn.Write([]byte("CONNECT " + domainOf(cs.Proxy) + " HTTP/1.1\r\nHost: " + domainOf(cs.Proxy) + "\r\n\r\n"))
				// the 200 comes from the server (or, with passthrough, from the backend): wait for it before sending payload
				line, e := br.ReadString('\n')
				if e != nil || !strings.Contains(line, "200") {
					r.dialErr = fmt.Errorf("CONNECT answered %q (%v)", line, e)
					return
				}
				for {
					l, e := br.ReadString('\n')
					if e != nil || l == "\r\n" {
						break
					}
				}
			}
			up, down := streamBytes(cs.Up), streamBytes(cs.Down)
			tag := fmt.Sprintf("C%06d\n", k)
			if _, e := cn.Write([]byte(tag)); e != nil {
				r.werr = e
				return
			}
			hdr, e := br.ReadString('\n')
			if e != nil {
				r.down.err = e
				return
			}
			r.hdr = strings.TrimSpace(hdr)
			var wg sync.WaitGroup
			var got atomic.Int64
			wg.Add(1)
			go func() {
				defer wg.Done()
				r.down = readAndCompare(br, down, deadline, cn, &got)
				r.closedAt = time.Now()
			}()
			switch cs.Mode {
			case "duplex":
				r.wrote, r.werr = writeChunked(cn, up, cs.Up, len(up))
				// stay open until everything expected has arrived, then close
				waitUntil(func() bool { return got.Load()&(1<<40-1) >= int64(len(down)) || got.Load()>>40 != 0 }, deadline)
				waitUntil(func() bool { return backendGot(&bmu, bconns, strings.TrimSpace(tag)) >= len(up) }, deadline)
				cn.Close()
			case "backend-closes":
				r.wrote, r.werr = writeChunked(cn, up, cs.Up, len(up))
				wg.Wait() // only reading now: must get the complete answer, then EOF
			case "user-closes":
				waitUntil(func() bool { return false }, time.Now().Add(0))
				r.wrote, r.werr = writeChunked(cn, up, cs.Up, len(up))
				cn.Close() // finished writing, closes while the backend is only reading
			case "user-early":
				r.wrote, r.werr = writeChunked(cn, up, cs.Up, len(up)*cs.Cut/1000)
				cn.Close()
			case "backend-early":
				r.wrote, r.werr = writeChunked(cn, up, cs.Up, len(up))
			}
			if !reliable(c) {
				// a raw kcp connection does not signal the peer's close: don't wait for it
				go func() { time.Sleep(1500 * time.Millisecond); cn.Close() }()
			}
			wg.Wait()
		}
		if c.Sequential {
			userFn(k, cs)
		} else {
			go userFn(k, cs)
		}
	}
	uwg.Wait()
	if os.Getenv("VERIF_C01_SLOW") != "" {
		for _, r := range results {
			fmt.Printf("PHASE users conn %d took %.1fs dialErr=%v hdr=%q\n", r.k, r.end.Sub(r.start).Seconds(), r.dialErr, r.hdr)
		}
		fmt.Printf("PHASE setup %.1fs\n", t0.Sub(tStart).Seconds())
	}
	done := make(chan struct{})
	go func() { bwg.Wait(); close(done) }()
	peerClosed := true
	closeWait := 15 * time.Second
	if !reliable(c) && fx.Known("C01", "raw-kcp-close") && !probeMode {
		closeWait = 2 * time.Second // recorded finding: the close is not propagated at all; do not spend the bound on it
	}
	select {
	case <-done:
	case <-time.After(closeWait):
		peerClosed = false
	}
	tEnd := time.Now()

	// ---- oracle
	bmu.Lock()
	defer bmu.Unlock()
	for tag, bc := range bconns {
		if strings.HasPrefix(tag, "?") {
			return fmt.Errorf("backend of proxy %d received a connection that does not start with what a user sent: %s (%+v)", bc.proxy, tag, caseBrief(c))
		}
	}
	delivered := make([]int, len(c.Conns))
	for k, cs := range c.Conns {
		r := results[k]
		tag := fmt.Sprintf("C%06d", k)
		desc := fmt.Sprintf("connection %d (%s, proxy %d, up %d %s/%s, down %d %s/%s) %s", k, cs.Mode, cs.Proxy, cs.Up.Len, cs.Up.Content, cs.Up.Chunk, cs.Down.Len, cs.Down.Content, cs.Down.Chunk, caseBrief(c))
		if r.dialErr != nil {
			return fmt.Errorf("%s: user could not connect: %v", desc, r.dialErr)
		}
		bc := bconns[tag]
		if bc == nil {
			if cs.Mode == "user-early" || (!reliable(c) && cs.Mode != "duplex") {
				continue // (raw kcp: what the closing side wrote last is not flushed)
			}
			return fmt.Errorf("%s: never reached any backend (user got header %q, read err %v)", desc, r.hdr, r.down.err)
		}
		// (4) identity: bridged to the proxy's own backend and to no other
		if bc.proxy != cs.Proxy {
			return fmt.Errorf("%s: bridged to the backend of proxy %d", desc, bc.proxy)
		}
		if want := fmt.Sprintf("B%d:%s", cs.Proxy, tag); r.hdr != want {
			if r.hdr == "" && !reliable(c) && cs.Mode != "duplex" {
				continue // the closing side's last bytes are not flushed by a raw kcp connection
			}
			return fmt.Errorf("%s: the user was answered %q (%v), expected %q", desc, r.hdr, r.down.err, want)
		}
		// the declared proxy-protocol header carries the user's true source address (directly exposed proxies)
		if c.ProxyProto != "" && bc.srcAddr != r.local {
			return fmt.Errorf("%s: PROXY header announces source %q, the user's address is %s", desc, bc.srcAddr, r.local)
		}
		upN := bc.up.n
		if g := int(bc.got.Load() & (1<<40 - 1)); g > upN {
			upN = g // the backend's reader has not returned yet (its connection is still open)
		}
		// (1) prefix
		if bc.up.bad >= 0 {
			return fmt.Errorf("%s: the backend's bytes differ from what the user wrote at offset %d (received %d)", desc, bc.up.bad, bc.up.n)
		}
		if r.down.bad >= 0 {
			return fmt.Errorf("%s: the user's bytes differ from what the backend wrote at offset %d (received %d)", desc, r.down.bad, r.down.n)
		}
		// (2) completion
		switch cs.Mode {
		case "duplex":
			if upN != cs.Up.Len || r.down.n != cs.Down.Len {
				return fmt.Errorf("%s: both ends stayed open, yet the backend received %d/%d and the user %d/%d bytes", desc, upN, cs.Up.Len, r.down.n, cs.Down.Len)
			}
		case "backend-closes":
			if reliable(c) && upN != cs.Up.Len { // (raw kcp scripts other than duplex run under a 4 s deadline of the harness)
				return fmt.Errorf("%s: backend received %d of %d request bytes", desc, upN, cs.Up.Len)
			}
			if reliable(c) && r.down.n != cs.Down.Len {
				return fmt.Errorf("%s: the backend wrote its whole answer and closed while the user was only reading; the user received %d of %d bytes before end-of-stream (%v)", desc, r.down.n, cs.Down.Len, r.down.err)
			}
		case "user-closes":
			if reliable(c) && upN != cs.Up.Len {
				return fmt.Errorf("%s: the user wrote its whole stream and closed while the backend was only reading; the backend received %d of %d bytes before end-of-stream (%v)", desc, upN, cs.Up.Len, bc.up.err)
			}
		}
		delivered[k] = upN + r.down.n
	}
	// (3) every peer connection is closed within bounded time
	if !peerClosed && !reliable(c) && fx.Known("C01", "raw-kcp-close") && !probeMode {
		fx.AddLabel("tunnels", "excluded-known-finding:raw-kcp-close", 1)
		peerClosed = true
	}
	if !peerClosed {
		var st []string
		for a, v := range open_ {
			st = append(st, a+"="+v.Load().(string))
		}
		return fmt.Errorf("15 s after every user connection was closed some backend connections are still open: %v (%s)", st, caseBrief(c))
	}
	if os.Getenv("VERIF_C01_SLOW") != "" {
		for k := range c.Conns {
			r := results[k]
			fmt.Printf("TIMELINE conn %d user-recv:", k)
			for i, t := range r.down.times {
				fmt.Printf(" %dms:%d", t.Sub(t0).Milliseconds(), r.down.counts[i])
			}
			fmt.Printf("\nTIMELINE conn %d backend-recv:", k)
			if bc := bconns[fmt.Sprintf("C%06d", k)]; bc != nil {
				for i, t := range bc.up.times {
					fmt.Printf(" %dms:%d", t.Sub(t0).Milliseconds(), bc.up.counts[i])
				}
			}
			fmt.Println()
		}
	}
	// (5) rate: a byte is received after it passed the limiter, and the proxy's bucket (rate = burst = L) was full at most
	// once since the proxy started: what all connections of one proxy delivered (both directions) up to the last
	// receive is bounded by L x (that time) + L
	if c.Limit != "" {
		L := float64(c.LimitKB * 1024)
		for pi := 0; pi < c.NProxies; pi++ {
			last, sum := t0, 0
			for k, cs := range c.Conns {
				if cs.Proxy != pi {
					continue
				}
				sum += delivered[k]
				ts := [][]time.Time{results[k].down.times}
				if bc := bconns[fmt.Sprintf("C%06d", k)]; bc != nil {
					if bc.got.Load()>>40 == 0 {
						ts = append(ts, []time.Time{tEnd}) // its reader is still running
					} else {
						ts = append(ts, bc.up.times)
					}
				}
				for _, t := range ts {
					if len(t) > 0 && t[len(t)-1].After(last) {
						last = t[len(t)-1]
					}
				}
			}
			T := last.Sub(t0).Seconds()
			if allowed := L*T + L; float64(sum) > allowed {
				return fmt.Errorf("bandwidth limit %d KB/s (%s side): proxy %d delivered %d payload bytes within %.3f s of the first connection, more than limit x interval + one burst = %.0f (%s)", c.LimitKB, c.Limit, pi, sum, T, allowed, caseBrief(c))
			}
		}
	}
	return nil
}

func reliable(c Case) bool {
	// closing a raw kcp connection (no stream multiplexing) does not flush: the property's "reliable control transport" proviso
	return !(c.Transport == "kcp" && !c.TCPMux)
}

func caseBrief(c Case) string {
	return fmt.Sprintf("[kind=%s enc=%v comp=%v limit=%s/%d tcpMux=%v transport=%s tls=%v customByte=%v pool=%d pp=%q shared=%v passthru=%v proxies=%d conns=%d]",
		c.Kind, c.Enc, c.Comp, c.Limit, c.LimitKB, c.TCPMux, c.Transport, c.TLS, c.CustomByte, c.Pool, c.ProxyProto, c.SharedPort, c.Passthru, c.NProxies, len(c.Conns))
}

func waitUntil(f func() bool, deadline time.Time) {
	for !f() && time.Now().Before(deadline) {
		time.Sleep(2 * time.Millisecond)
	}
}

func backendGot(mu *sync.Mutex, m map[string]*backendConn, tag string) int {
	mu.Lock()
	defer mu.Unlock()
	if bc := m[tag]; bc != nil {
		g := bc.got.Load()
		if g>>40 != 0 {
			return 1 << 30 // the backend's reader is done (EOF or error): nothing more will arrive
		}
		return int(g)
	}
	return 0
}

func classify(c Case) fx.Class {
	wrappers := c.Enc || c.Comp || c.Limit != "" || c.TCPMux || c.Kind == "https" || c.Kind == "tcpmux"
	bytesMoved := 0
	var modes []string
	for _, cs := range c.Conns {
		bytesMoved += cs.Up.Len + cs.Down.Len
		modes = append(modes, fmt.Sprintf("%s/%d/%d", cs.Mode, cs.Up.Len, cs.Down.Len))
	}
	labels := []string{"kind=" + c.Kind, "transport=" + c.Transport, fmt.Sprintf("enc=%v,comp=%v", c.Enc, c.Comp)}
	if c.Limit != "" {
		labels = append(labels, "limit="+c.Limit)
	}
	if c.ProxyProto != "" {
		labels = append(labels, "pp="+c.ProxyProto)
	}
	return fx.Class{NonTrivial: (wrappers && bytesMoved > 0) || len(c.Conns) >= 2, Fingerprint: caseBrief(c) + fmt.Sprint(modes), Labels: labels}
}

var probeMode bool

// long_lived: connections that are still carrying data more than 30 s after they were accepted (frps arms 30 s
// deadlines while it sniffs the SNI / CONNECT / first byte; nothing of that may survive into the tunnel).
func genLong(t *rapid.T) Case {
	c := Case{Kind: rapid.SampledFrom([]string{"https", "tcpmux", "tcp", "stcp"}).Draw(t, "kind"), Enc: rapid.Bool().Draw(t, "enc"), Comp: rapid.Bool().Draw(t, "comp"),
		TCPMux: rapid.Bool().Draw(t, "tcpmux"), TLS: rapid.Bool().Draw(t, "tls"), CustomByte: true, Transport: rapid.SampledFrom([]string{"tcp", "tcp", "websocket"}).Draw(t, "transport"), NProxies: 1}
	if c.Kind == "tcpmux" {
		c.Passthru = rapid.Bool().Draw(t, "passthru")
	}
	if c.Kind == "https" {
		c.SharedPort = rapid.Bool().Draw(t, "shared")
	}
	pause := rapid.SampledFrom([]int{30500, 31500, 33000}).Draw(t, "pause")
	up := Stream{Len: rapid.SampledFrom([]int{2, 100, 70000}).Draw(t, "uplen"), Content: "rand", Chunk: rapid.SampledFrom([]string{"one", "small"}).Draw(t, "upchunk"), Seed: rapid.Uint64().Draw(t, "upseed")}
	down := Stream{Len: rapid.SampledFrom([]int{2, 100, 70000}).Draw(t, "downlen"), Content: "rand", Chunk: rapid.SampledFrom([]string{"one", "small"}).Draw(t, "downchunk"), Seed: rapid.Uint64().Draw(t, "downseed")}
	switch rapid.IntRange(0, 2).Draw(t, "who") {
	case 0:
		up.PauseMs = pause
	case 1:
		down.PauseMs = pause
	default:
		up.PauseMs, down.PauseMs = pause, pause
	}
	c.Conns = []ConnScript{{Proxy: 0, Up: up, Down: down, Mode: "duplex"}}
	return c
}

// abort_then_transfer: several transfers on ONE client session are abandoned half-way by the user while the backend is
// still sending (the tunnel is torn down with unread data in it), one after the other; a complete transfer
// afterwards must still go through: whatever the transport accounts per session (stream windows, credits, pooled
// buffers) has to be given back by a tunnel that ends early.
func genAbort(t *rapid.T) Case {
	c := Case{Kind: rapid.SampledFrom([]string{"tcp", "tcp", "stcp"}).Draw(t, "kind"), Enc: rapid.Bool().Draw(t, "enc"), Comp: rapid.Bool().Draw(t, "comp"),
		TCPMux: rapid.Bool().Draw(t, "tcpmux"), TLS: true, CustomByte: true, Transport: rapid.SampledFrom([]string{"quic", "quic", "tcp", "websocket"}).Draw(t, "transport"),
		NProxies: 1, Sequential: true, Pool: rapid.IntRange(0, 2).Draw(t, "pool")}
	n := rapid.IntRange(3, 7).Draw(t, "aborts")
	for i := 0; i < n; i++ {
		c.Conns = append(c.Conns, ConnScript{Proxy: 0, Mode: "user-early", Cut: rapid.IntRange(0, 50).Draw(t, fmt.Sprintf("cut%d", i)),
			Up:   Stream{Len: rapid.SampledFrom([]int{17, 4096}).Draw(t, fmt.Sprintf("up%d", i)), Content: "rand", Chunk: "one", Seed: uint64(i)},
			Down: Stream{Len: 1 << 20, Content: "rand", Chunk: "big", Seed: uint64(100 + i)}})
	}
	c.Conns = append(c.Conns, ConnScript{Proxy: 0, Mode: "duplex", Up: Stream{Len: 300000, Content: "rand", Chunk: "big", Seed: 7}, Down: Stream{Len: 300000, Content: "rand", Chunk: "big", Seed: 8}})
	return c
}

func TestAbortThenTransfer(t *testing.T) {
	fx.Run(t, fx.Spec[Case]{Prop: "C01", Name: "abort_then_transfer", Quick: 48, Thorough: 600, Gen: genAbort, Run: run, Journal: true, ShrinkTime: "60s",
		Class: func(c Case) fx.Class { return fx.Class{NonTrivial: true, Fingerprint: caseBrief(c) + fmt.Sprint(c.Conns), Labels: []string{"transport=" + c.Transport}} }})
}

func TestLongLived(t *testing.T) {
	fx.Run(t, fx.Spec[Case]{Prop: "C01", Name: "long_lived", Quick: 8, Thorough: 64, Gen: genLong, Run: run, Journal: true, ShrinkTime: "70s",
		Class: func(c Case) fx.Class { return fx.Class{NonTrivial: true, Fingerprint: caseBrief(c) + fmt.Sprint(c.Conns), Labels: []string{"kind=" + c.Kind}} }})
}

// Deterministic probe for the recorded finding "raw-kcp-close": control transport kcp with stream
// multiplexing off gives every work connection its own kcp session, and closing a kcp session sends
// nothing to the peer; the other side's half of the tunnel (and the backend / user connection behind it)
// stays open until that side closes on its own.
func TestKnownRawKCPClose(t *testing.T) {
	if fx.Shard() != 0 || os.Getenv("VERIF_REPLAY") != "" {
		return
	}
	c := Case{Kind: "tcp", Transport: "kcp", NProxies: 1, Conns: []ConnScript{{Proxy: 0, Up: Stream{Len: 1, Content: "rand", Chunk: "one", Seed: 1}, Down: Stream{Len: 0, Content: "rand", Chunk: "one", Seed: 1}, Mode: "duplex"}}}
	probeMode = true
	err := run(c)
	probeMode = false
	fx.Record("known_raw_kcp_close", fx.Class{NonTrivial: true, Fingerprint: "probe"}, c)
	fx.Record("known_raw_kcp_close", fx.Class{NonTrivial: true, Fingerprint: "probe-2"}, "deterministic probe of the recorded finding")
	fx.KnownFinding(t, "C01", "tunnels", "raw-kcp-close", c, err)
}

func TestTunnels(t *testing.T) {
	fx.Prelease(3)
	fx.Run(t, fx.Spec[Case]{Prop: "C01", Name: "tunnels", Quick: 800, Thorough: 12000, Gen: gen, Run: run, Class: classify, Journal: true, ShrinkTime: "60s"})
}
