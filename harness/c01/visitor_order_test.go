package c01

import (
	"fmt"
	"testing"
	"time"

	"github.com/fatedier/frp/pkg/msg"

	"verifharness/fx"
)

// Deterministic probe (needs the gate hook) for the recorded finding "visitor-resp-after-handoff": frps hands a
// visitor connection to the stcp proxy FIRST and writes the NewVisitorConnResp afterwards, from another
// goroutine. Bytes the backend sends at once (a server-speaks-first protocol) can therefore reach the visitor
// in front of the response; the visitor then fails to parse the response and the tunnel is lost. The gate
// holds the response writer for a moment, which is all a loaded scheduler has to do.
func visitorOrderProbe() error {
	s, err := fx.StartServer()
	if err != nil {
		return err
	}
	defer s.Close()
	defer fx.ClearGates()
	owner, err := fx.ConnectCommon(fx.ScriptedCommon(s), "o", "", 1, fx.TagWork("GREETING"))
	if err != nil {
		return fx.Inconclusive("owner login: %v", err)
	}
	defer owner.Close()
	if r, e := owner.NewProxy(&msg.NewProxy{ProxyName: "sp", ProxyType: "stcp", Sk: "sk", AllowUsers: []string{"*"}}, 5*time.Second); e != nil || r.Error != "" {
		return fx.Inconclusive("registration: %v %+v", e, r)
	}
	vis, err := fx.ConnectCommon(fx.ScriptedCommon(s), "v", "", 0, nil)
	if err != nil {
		return fx.Inconclusive("visitor login: %v", err)
	}
	defer vis.Close()
	g := fx.HoldGate("visitor.resp.success", 1, fx.KeyIs(0, "sp"))
	type out struct {
		resp *msg.NewVisitorConnResp
		err  error
	}
	ch := make(chan out, 1)
	go func() {
		cn, resp, e := vis.VisitorConn(fx.SignedVisitor(vis.RunID, "sp", "sk"), 6*time.Second)
		if cn != nil {
			defer cn.Close()
		}
		ch <- out{resp, e}
	}()
	if !g.WaitArrived(4 * time.Second) {
		g.Release()
		<-ch
		return fx.Inconclusive("gate visitor.resp.success not reached (not placed?)")
	}
	time.Sleep(300 * time.Millisecond) // the backend's greeting travels through the tunnel meanwhile
	g.Release()
	o := <-ch
	if o.err != nil {
		return fmt.Errorf("stcp visitor connection: the first thing the visitor read was not the NewVisitorConnResp (%v): bytes of the tunnel were written to the visitor before frps answered the request", o.err)
	}
	if o.resp.Error != "" {
		return fx.Inconclusive("visitor refused: %s", o.resp.Error)
	}
	return nil
}

func TestKnownVisitorRespAfterHandoff(t *testing.T) {
	if !fx.Hooked || fx.Shard() != 0 || fx.Replaying() {
		return
	}
	err := visitorOrderProbe()
	fx.Record("known_visitor_resp_after_handoff", fx.Class{NonTrivial: true, Fingerprint: "probe"}, "deterministic probe (gate visitor.resp.success held 300 ms, backend speaks first)")
	fx.Record("known_visitor_resp_after_handoff", fx.Class{NonTrivial: true, Fingerprint: "probe-2"}, "stcp proxy, scripted owner whose backend writes a greeting at once")
	fx.KnownFinding(t, "C01", "tunnels", "visitor-resp-after-handoff", "gate visitor.resp.success held 300 ms; stcp proxy whose backend speaks first", err)
}
