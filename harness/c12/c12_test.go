// Package c12: sessions own their proxies; names are unique; re-login replaces cleanly.
package c12

import (
	"fmt"
	"net"
	"regexp"
	"sort"
	"strings"
	"sync"
	"testing"
	"time"

	"github.com/fatedier/frp/pkg/msg"
	"pgregory.net/rapid"

	"verifharness/fx"
)

func TestMain(m *testing.M) { fx.Main(m, "C12") }

type Op struct {
	Kind string `json:"kind"` // login relogin reloginN register close disconnect regdrop user race bulk
	Slot int    `json:"slot"`
	Name int    `json:"name"` // index into names
	N    int    `json:"n,omitempty"`
}

type Case struct {
	TCPMux bool `json:"tcpmux"`
	Ops    []Op `json:"ops"`
}

var names = []string{"alpha", "Beta.SSH", "gamma", "delta"} // one name with upper-case letters: names are opaque keys

// fixed type per name: two tcp (fixed ports), one stcp, one http
// The public resource (port / domain) depends on the registering slot, not on the name: two
// sessions asking for the same NAME never collide on anything but the name itself.
func pxyMsg(s *fx.Server, ni int, slot int) *msg.NewProxy {
	switch ni {
	case 0, 1:
		return &msg.NewProxy{ProxyName: names[ni], ProxyType: "tcp", RemotePort: s.AllowPort(ni*3 + slot)}
	case 2:
		return &msg.NewProxy{ProxyName: names[ni], ProxyType: "stcp", Sk: "sk-gamma", AllowUsers: []string{"*"}}
	default:
		return &msg.NewProxy{ProxyName: names[ni], ProxyType: "http", CustomDomains: []string{fmt.Sprintf("delta-s%d.test", slot)}}
	}
}

func gen(t *rapid.T) Case {
	n := rapid.IntRange(3, 18).Draw(t, "nops")
	c := Case{TCPMux: rapid.Bool().Draw(t, "tcpmux")}
	kinds := []string{"login", "login", "relogin", "relogin", "reloginN", "register", "register", "register", "register", "close", "close", "disconnect", "regdrop", "user", "user", "user", "race", "race", "bulk", "bulk", "regfail", "regfail"}
	c.Ops = append(c.Ops, Op{Kind: "login", Slot: 0}, Op{Kind: "login", Slot: 1})
	for i := 0; i < n; i++ {
		op := Op{Kind: rapid.SampledFrom(kinds).Draw(t, "kind"), Slot: rapid.IntRange(0, 2).Draw(t, "slot"), Name: rapid.IntRange(0, 3).Draw(t, "name")}
		if op.Kind == "reloginN" {
			op.N = rapid.IntRange(2, 3).Draw(t, "n")
		}
		if op.Kind == "race" {
			op.N = rapid.IntRange(1, 2).Draw(t, "other") // the rival is slot+N
		}
		if op.Kind == "bulk" {
			op.N = rapid.SampledFrom([]int{10, 40, 120}).Draw(t, "bulk")
		}
		c.Ops = append(c.Ops, op)
	}
	return c
}

type sess struct {
	sc  *fx.ScriptedClient
	gen int
	tag string
}

type owner struct {
	slot int
	gen  int
}

var runIDRe = regexp.MustCompile(`^[0-9a-f]{16}$`)

var (
	idMu   sync.Mutex
	allIDs = map[string]bool{}
)

func run(c Case) (err error) {
	s, err := fx.StartServer(fx.WithVhostHTTP(), fx.WithServerTCPMux(c.TCPMux))
	if err != nil {
		return err
	}
	defer s.Close()
	common := func() *fx.ScriptedClient { return nil }
	_ = common
	slots := map[int]*sess{}
	gens := map[int]int{}
	model := map[int]owner{} // name index -> owner
	bulk := map[int]int{}    // slot -> number of extra stcp proxies ("bulk-<slot>-<k>") it holds
	bulkMsg := func(slot, k int) *msg.NewProxy {
		return &msg.NewProxy{ProxyName: fmt.Sprintf("bulk-%d-%d", slot, k), ProxyType: "stcp", Sk: "sk-bulk", AllowUsers: []string{"*"}}
	}
	defer func() {
		for _, ss := range slots {
			ss.sc.Close()
		}
	}()
	connect := func(slot int, runID string) (*sess, error) {
		gens[slot]++
		tag := fmt.Sprintf("S%dG%d", slot, gens[slot])
		sc, e := fx.ConnectCommon(fx.ScriptedCommon(s), fmt.Sprintf("user%d", slot), runID, 1, fx.TagWork(tag))
		if e != nil {
			return nil, e
		}
		return &sess{sc: sc, gen: gens[slot], tag: tag}, nil
	}
	ownedBy := func(slot int) []int {
		var out []int
		for ni, o := range model {
			if o.slot == slot {
				out = append(out, ni)
			}
		}
		sort.Ints(out)
		return out
	}
	waitGone := func(runID string) {
		deadline := time.Now().Add(3 * time.Second)
		for time.Now().Before(deadline) {
			snap := s.Snapshot()
			if snap == nil {
				time.Sleep(150 * time.Millisecond)
				return
			}
			found := false
			for _, id := range snap.Sessions {
				if id == runID {
					found = true
				}
			}
			if !found {
				return
			}
			time.Sleep(time.Millisecond)
		}
	}
	var userCheckOnce func(step int, ni int) error
	// A work connection offered by the previous client process under the same run id
	// may sit in the new session's pool (a legal "dead pooled connection", see C11):
	// such a user connection just fails. Failed attempts are retried (pool size 1);
	// being served by the WRONG session is never retried.
	userCheck := func(step int, ni int) error {
		var e error
		for k := 0; k < 4; k++ {
			e = userCheckOnce(step, ni)
			if e == nil || !strings.Contains(e.Error(), "RETRYABLE") {
				return e
			}
			time.Sleep(10 * time.Millisecond)
		}
		return e
	}
	userCheckOnce = func(step int, ni int) error {
		o, live := model[ni]
		switch ni {
		case 0, 1:
			if !live {
				for sl := 0; sl < 3; sl++ {
					if conn, e := net.DialTimeout("tcp", fmt.Sprintf("127.0.0.1:%d", s.AllowPort(ni*3+sl)), time.Second); e == nil {
						conn.Close()
						return fmt.Errorf("step %d: a port of %s accepts connections although no live proxy owns the name", step, names[ni])
					}
				}
				return nil
			}
			addr := fmt.Sprintf("127.0.0.1:%d", s.AllowPort(ni*3+o.slot))
			conn, e := net.DialTimeout("tcp", addr, time.Second)
			if e != nil {
				return fmt.Errorf("step %d: proxy %s owned by S%dG%d does not accept user connections: %v", step, names[ni], o.slot, o.gen, e)
			}
			defer conn.Close()
			line, e := fx.ReadLine(conn, 5*time.Second)
			want := fmt.Sprintf("S%dG%d:%s", o.slot, o.gen, names[ni])
			if e != nil && line == "" {
				return fmt.Errorf("RETRYABLE step %d: user connection to %s got no answer (err %v), owner is %s", step, names[ni], e, want)
			}
			if e != nil || line != want {
				return fmt.Errorf("step %d: user connection to %s served by %q (err %v), owner is %s", step, names[ni], line, e, want)
			}
		case 2:
			// stcp through a visitor connection of any live session
			var via *sess
			for _, ss := range slots {
				via = ss
				break
			}
			if via == nil {
				return nil
			}
			conn, resp, e := via.sc.VisitorConn(fx.SignedVisitor(via.sc.RunID, names[ni], "sk-gamma"), 3*time.Second)
			if e != nil {
				return nil // transport-level problem: not what this check decides
			}
			defer conn.Close()
			if !live {
				if resp.Error == "" {
					return fmt.Errorf("step %d: visitor admitted to %s although no live proxy owns the name", step, names[ni])
				}
				return nil
			}
			if resp.Error != "" {
				return fmt.Errorf("step %d: visitor refused for live proxy %s: %s", step, names[ni], resp.Error)
			}
			line, e := fx.ReadLine(conn, 5*time.Second)
			want := fmt.Sprintf("S%dG%d:%s", o.slot, o.gen, names[ni])
			if e != nil && line == "" {
				return fmt.Errorf("RETRYABLE step %d: visitor connection to %s got no answer (err %v), owner is %s", step, names[ni], e, want)
			}
			if e != nil || line != want {
				return fmt.Errorf("step %d: visitor connection to %s served by %q (err %v), owner is %s", step, names[ni], line, e, want)
			}
		case 3:
			conn, e := net.DialTimeout("tcp", s.Addr(fx.SlotVhostHTTP), time.Second)
			if e != nil {
				return nil
			}
			defer conn.Close()
			host := "delta-s0.test"
			if live {
				host = fmt.Sprintf("delta-s%d.test", o.slot)
			}
			_, _ = conn.Write([]byte("GET / HTTP/1.1\r\nHost: " + host + "\r\n\r\n"))
			line, e := fx.ReadLine(conn, 5*time.Second)
			if !live {
				if e == nil && !strings.Contains(line, "404") {
					return fmt.Errorf("step %d: http request for closed route answered %q", step, line)
				}
				return nil
			}
			// the scripted backend is TagWork: it answers "tag:name\n" (not HTTP); the
			// reverse proxy then fails with a 502/404 page. We only decide who was asked:
			want := fmt.Sprintf("S%dG%d", o.slot, o.gen)
			deadline := time.Now().Add(3 * time.Second)
			for time.Now().Before(deadline) {
				ok := false
				for _, st := range slots[o.slot].sc.StartsSeen() {
					if st.ProxyName == names[ni] {
						ok = true
					}
				}
				if ok {
					return nil
				}
				time.Sleep(2 * time.Millisecond)
			}
			return fmt.Errorf("RETRYABLE step %d: http request for %s never reached its owner %s (first line %q)", step, names[ni], want, line)
		}
		return nil
	}

	namesOK := func(step int) error {
		snap := s.Snapshot()
		if snap == nil {
			return nil
		}
		var want []string
		for ni := range model {
			want = append(want, names[ni])
		}
		for sl, n := range bulk {
			for k := 0; k < n; k++ {
				want = append(want, fmt.Sprintf("bulk-%d-%d", sl, k))
			}
		}
		sort.Strings(want)
		got := append([]string(nil), snap.Proxies...)
		sort.Strings(got)
		if fmt.Sprint(got) != fmt.Sprint(want) {
			return fmt.Errorf("step %d: the server's table of proxy names is %v, the history implies %v", step, got, want)
		}
		return nil
	}
	var fresh []string
	for i, op := range c.Ops {
		if i > 0 {
			if e := namesOK(i - 1); e != nil {
				return e
			}
		}
		ss := slots[op.Slot]
		switch op.Kind {
		case "login":
			if ss != nil {
				continue
			}
			ns, e := connect(op.Slot, "")
			if e != nil {
				return fmt.Errorf("step %d: fresh login failed: %v", i, e)
			}
			slots[op.Slot] = ns
			fresh = append(fresh, ns.sc.RunID)
		case "relogin", "reloginN":
			if ss == nil {
				continue
			}
			n := 1
			if op.Kind == "reloginN" {
				n = op.N
			}
			old := ss
			prev := ownedBy(op.Slot)
			prevBulk := bulk[op.Slot]
			delete(bulk, op.Slot)
			// the old client process is gone in the scenario: it must not answer further
			// work-connection requests under the shared run id
			old.sc.StopAuto()
			type res struct {
				s *sess
				e error
			}
			results := make([]res, n)
			if n == 1 {
				ns, e := connect(op.Slot, old.sc.RunID)
				results[0] = res{ns, e}
			} else {
				var wg sync.WaitGroup
				var gmu sync.Mutex
				for k := 0; k < n; k++ {
					wg.Add(1)
					go func(k int) {
						defer wg.Done()
						gmu.Lock()
						gens[op.Slot]++
						g := gens[op.Slot]
						gmu.Unlock()
						tag := fmt.Sprintf("S%dG%d", op.Slot, g)
						sc, e := fx.ConnectCommon(fx.ScriptedCommon(s), fmt.Sprintf("user%d", op.Slot), old.sc.RunID, 1, fx.TagWork(tag))
						if e != nil {
							results[k] = res{nil, e}
							return
						}
						results[k] = res{&sess{sc: sc, gen: g, tag: tag}, nil}
					}(k)
				}
				wg.Wait()
			}
			// the old session must be closed by the server
			if e := old.sc.WaitControlClosed(5 * time.Second); e != nil {
				return fmt.Errorf("step %d: after re-login with run id the old control connection is still open", i)
			}
			old.sc.Close()
			for ni := range model {
				if model[ni].slot == op.Slot {
					delete(model, ni)
				}
			}
			var alive []*sess
			if n == 1 {
				if results[0].e != nil {
					return fmt.Errorf("step %d: re-login with own run id refused: %v", i, results[0].e)
				}
				ns := results[0].s
				if ns.sc.RunID != old.sc.RunID {
					return fmt.Errorf("step %d: re-login got run id %q, want the presented %q", i, ns.sc.RunID, old.sc.RunID)
				}
				// the client's earlier registrations must not block the new ones: immediately
				for _, ni := range prev {
					resp, e := ns.sc.NewProxy(pxyMsg(s, ni, op.Slot), 5*time.Second)
					if e != nil {
						return fmt.Errorf("step %d: re-registration of %s after re-login: %v", i, names[ni], e)
					}
					if resp.Error != "" {
						return fmt.Errorf("step %d: re-registration of %s right after the re-login was acknowledged is refused: %s", i, names[ni], resp.Error)
					}
					model[ni] = owner{op.Slot, ns.gen}
				}
				for k := 0; k < prevBulk; k++ {
					resp, e := ns.sc.NewProxy(bulkMsg(op.Slot, k), 5*time.Second)
					if e != nil {
						return fmt.Errorf("step %d: re-registration of bulk proxy %d after re-login: %v", i, k, e)
					}
					if resp.Error != "" {
						return fmt.Errorf("step %d: re-registration of the client's own proxy %s right after the re-login was acknowledged is refused: %s", i, resp.ProxyName, resp.Error)
					}
					bulk[op.Slot] = k + 1
				}
				alive = []*sess{ns}
			} else {
				// several at once: let them settle, exactly one survives
				time.Sleep(60 * time.Millisecond)
				for _, r := range results {
					if r.e != nil || r.s == nil {
						continue
					}
					if e := r.s.sc.Sync(2 * time.Second); e == nil {
						alive = append(alive, r.s)
					} else {
						r.s.sc.Close()
					}
				}
				if len(alive) != 1 {
					for _, a := range alive {
						a.sc.Close()
					}
					delete(slots, op.Slot)
					return fmt.Errorf("step %d: %d concurrent re-logins with one run id left %d live sessions, want exactly 1", i, n, len(alive))
				}
				ns := alive[0]
				for _, ni := range prev {
					resp, e := ns.sc.NewProxy(pxyMsg(s, ni, op.Slot), 5*time.Second)
					if e != nil || resp.Error != "" {
						return fmt.Errorf("step %d: surviving re-login cannot re-register %s: %v %v", i, names[ni], e, resp)
					}
					model[ni] = owner{op.Slot, ns.gen}
				}
				for k := 0; k < prevBulk; k++ {
					resp, e := ns.sc.NewProxy(bulkMsg(op.Slot, k), 5*time.Second)
					if e != nil || resp.Error != "" {
						return fmt.Errorf("step %d: surviving re-login cannot re-register bulk proxy %d: %v %v", i, k, e, resp)
					}
					bulk[op.Slot] = k + 1
				}
			}
			slots[op.Slot] = alive[0]
			// late cleanup of the old session must not remove the new one
			time.Sleep(20 * time.Millisecond)
			if e := alive[0].sc.Sync(3 * time.Second); e != nil {
				return fmt.Errorf("step %d: new session does not answer pings after the old one was cleaned up: %v", i, e)
			}
			if snap := s.Snapshot(); snap != nil {
				found := false
				for _, id := range snap.Sessions {
					if id == alive[0].sc.RunID {
						found = true
					}
				}
				if !found {
					return fmt.Errorf("step %d: run id %s no longer designates a session after old-session cleanup", i, alive[0].sc.RunID)
				}
			}
			// a work connection naming the run id is served by the new session: covered by user checks (tags)
		case "register":
			if ss == nil {
				continue
			}
			resp, e := ss.sc.NewProxy(pxyMsg(s, op.Name, op.Slot), 5*time.Second)
			if e != nil {
				return fmt.Errorf("step %d: no response to NewProxy %s: %v", i, names[op.Name], e)
			}
			_, live := model[op.Name]
			if live && resp.Error == "" {
				return fmt.Errorf("step %d: second registration of live name %s was accepted", i, names[op.Name])
			}
			if !live && resp.Error != "" {
				return fmt.Errorf("step %d: registration of free name %s refused: %s", i, names[op.Name], resp.Error)
			}
			if !live {
				model[op.Name] = owner{op.Slot, ss.gen}
			} else if e := userCheck(i, op.Name); e != nil {
				return fmt.Errorf("after refused duplicate: %v", e)
			}
		case "regfail":
			// a registration that fails while the proxy is being started (the port is outside allowPorts): it must be
			// refused and must leave nothing behind - in particular not the name
			if ss == nil {
				continue
			}
			resp, e := ss.sc.NewProxy(&msg.NewProxy{ProxyName: names[op.Name], ProxyType: "tcp", RemotePort: 9}, 5*time.Second)
			if e != nil {
				return fmt.Errorf("step %d: no response to a NewProxy %s for a port that is not allowed: %v", i, names[op.Name], e)
			}
			if resp.Error == "" {
				return fmt.Errorf("step %d: NewProxy %s for port 9 (outside allowPorts) was accepted", i, names[op.Name])
			}
			if e := userCheck(i, op.Name); e != nil {
				return fmt.Errorf("after a registration that failed at start: %v", e)
			}
		case "close":
			if ss == nil {
				continue
			}
			if e := ss.sc.CloseProxy(names[op.Name]); e != nil {
				return fmt.Errorf("step %d: send CloseProxy: %v", i, e)
			}
			if e := ss.sc.Sync(3 * time.Second); e != nil {
				return fmt.Errorf("step %d: session stopped answering after CloseProxy: %v", i, e)
			}
			if o, live := model[op.Name]; live && o.slot == op.Slot {
				delete(model, op.Name)
			}
			if e := userCheck(i, op.Name); e != nil {
				return fmt.Errorf("after close by slot %d: %v", op.Slot, e)
			}
		case "disconnect":
			if ss == nil {
				continue
			}
			ss.sc.Close()
			delete(slots, op.Slot)
			delete(bulk, op.Slot)
			for ni := range model {
				if model[ni].slot == op.Slot {
					delete(model, ni)
				}
			}
			waitGone(ss.sc.RunID)
		case "regdrop":
			// a registration is still on its way when the session ends: whatever the server makes of it, nothing of
			// that session may be left once the session is gone
			if ss == nil {
				continue
			}
			_ = ss.sc.Send(pxyMsg(s, op.Name, op.Slot))
			ss.sc.Close()
			delete(slots, op.Slot)
			delete(bulk, op.Slot)
			for ni := range model {
				if model[ni].slot == op.Slot {
					delete(model, ni)
				}
			}
			waitGone(ss.sc.RunID)
			time.Sleep(30 * time.Millisecond)
			if e := userCheck(i, op.Name); e != nil {
				return fmt.Errorf("after a session ended with a registration of %s in flight: %v", names[op.Name], e)
			}
		case "user":
			if e := userCheck(i, op.Name); e != nil {
				return e
			}
		case "bulk":
			// the session takes a larger number of names, so that its teardown takes a while
			if ss == nil || bulk[op.Slot] > 0 {
				continue
			}
			for k := 0; k < op.N; k++ {
				resp, e := ss.sc.NewProxy(bulkMsg(op.Slot, k), 5*time.Second)
				if e != nil || resp.Error != "" {
					return fmt.Errorf("step %d: registration of free name bulk-%d-%d refused: %v %v", i, op.Slot, k, e, resp)
				}
				bulk[op.Slot] = k + 1
			}
		case "race":
			// two different sessions ask for the same name at the same moment (their ports / domains differ)
			rival := (op.Slot + op.N) % 3
			rs := slots[rival]
			if ss == nil || rs == nil {
				continue
			}
			type rr struct {
				resp *msg.NewProxyResp
				e    error
			}
			var ra, rb rr
			var wg sync.WaitGroup
			wg.Add(2)
			go func() { defer wg.Done(); ra.resp, ra.e = ss.sc.NewProxy(pxyMsg(s, op.Name, op.Slot), 5*time.Second) }()
			go func() { defer wg.Done(); rb.resp, rb.e = rs.sc.NewProxy(pxyMsg(s, op.Name, rival), 5*time.Second) }()
			wg.Wait()
			if ra.e != nil || rb.e != nil {
				return fmt.Errorf("step %d: no response to concurrent NewProxy %s: %v / %v", i, names[op.Name], ra.e, rb.e)
			}
			okA, okB := ra.resp.Error == "", rb.resp.Error == ""
			_, live := model[op.Name]
			switch {
			case okA && okB:
				return fmt.Errorf("step %d: name %s was granted to two sessions at once (slots %d and %d asked at the same moment)", i, names[op.Name], op.Slot, rival)
			case live && (okA || okB):
				return fmt.Errorf("step %d: second registration of live name %s was accepted", i, names[op.Name])
			case !live && okA:
				model[op.Name] = owner{op.Slot, ss.gen}
			case !live && okB:
				model[op.Name] = owner{rival, rs.gen}
			case !live:
				return fmt.Errorf("step %d: free name %s asked for by two sessions at once was granted to neither: %q / %q", i, names[op.Name], ra.resp.Error, rb.resp.Error)
			}
			if e := userCheck(i, op.Name); e != nil {
				return fmt.Errorf("after concurrent registrations: %v", e)
			}
		}
	}
	// run ids of fresh logins
	idMu.Lock()
	defer idMu.Unlock()
	for _, id := range fresh {
		if !runIDRe.MatchString(id) {
			return fmt.Errorf("fresh run id %q does not look like 16 hex digits", id)
		}
		if allIDs[id] {
			return fmt.Errorf("fresh run id %q was handed out twice", id)
		}
		allIDs[id] = true
	}
	// final: every live name answers from its owner
	for ni := range model {
		if e := userCheck(len(c.Ops), ni); e != nil {
			return fmt.Errorf("final: %v", e)
		}
	}
	return nil
}

func classify(c Case) fx.Class {
	// abstract replay of the model to find collisions and re-logins with proxies
	live := map[int]int{}
	sessions := map[int]bool{}
	collision, reloginHolding, multi, raced := false, false, false, false
	var sig []string
	for _, op := range c.Ops {
		sig = append(sig, fmt.Sprintf("%s%d.%d", op.Kind[:2], op.Slot, op.Name))
		switch op.Kind {
		case "login":
			sessions[op.Slot] = true
		case "register":
			if !sessions[op.Slot] {
				continue
			}
			if o, ok := live[op.Name]; ok {
				if o != op.Slot {
					collision = true
				}
			} else {
				live[op.Name] = op.Slot
			}
		case "race":
			rival := (op.Slot + op.N) % 3
			if sessions[op.Slot] && sessions[rival] {
				collision, raced = true, true
				if _, ok := live[op.Name]; !ok {
					live[op.Name] = -1 // one of the two
				}
			}
		case "close":
			if o, ok := live[op.Name]; ok && o == op.Slot && sessions[op.Slot] {
				delete(live, op.Name)
			}
		case "disconnect", "regdrop":
			if sessions[op.Slot] {
				delete(sessions, op.Slot)
				for n, o := range live {
					if o == op.Slot {
						delete(live, n)
					}
				}
			}
		case "relogin", "reloginN":
			if sessions[op.Slot] {
				for _, o := range live {
					if o == op.Slot {
						reloginHolding = true
					}
				}
				if op.Kind == "reloginN" {
					multi = true
				}
			}
		}
	}
	var labels []string
	if collision {
		labels = append(labels, "name-collision")
	}
	if reloginHolding {
		labels = append(labels, "relogin-holding-proxies")
	}
	if multi {
		labels = append(labels, "concurrent-relogin")
	}
	if raced {
		labels = append(labels, "concurrent-same-name")
	}
	return fx.Class{NonTrivial: collision || reloginHolding, Fingerprint: fmt.Sprint(c.TCPMux, sig), Labels: labels}
}

func TestHistories(t *testing.T) {
	fx.Prelease(3)
	fx.Run(t, fx.Spec[Case]{Prop: "C12", Name: "histories", Quick: 2400, Thorough: 60000, Journal: true, Retry: true, Gen: gen, Run: run, Class: classify})
}
