package c12

// slow_teardown_relogin: "the previous session is completely torn down before the new login is acknowledged, so the
// client's own earlier registrations never block its new ones" - also when that teardown takes long, because the old
// session is in the middle of a registration that a server plugin is still thinking about.

import (
	"encoding/json"
	"fmt"
	"io"
	"net"
	"net/http"
	"net/http/httptest"
	"strings"
	"sync/atomic"
	"testing"
	"time"

	v1 "github.com/fatedier/frp/pkg/config/v1"
	"github.com/fatedier/frp/pkg/msg"
	"pgregory.net/rapid"

	"verifharness/fx"
)

type SlowCase struct {
	HoldMs      int  `json:"hold_ms"`       // how long the plugin thinks about the old session's last registration
	UserTimeout int  `json:"user_timeout"`  // userConnTimeout of the server (s)
	Owned       int  `json:"owned"`         // live proxies the old session owns
	TCPMux      bool `json:"tcpmux"`
	DelayMs     int  `json:"delay_ms"`      // re-login that long after the slow registration was sent
}

func genSlow(t *rapid.T) SlowCase {
	return SlowCase{HoldMs: rapid.SampledFrom([]int{300, 1500, 2500, 3500}).Draw(t, "hold"), UserTimeout: rapid.IntRange(1, 2).Draw(t, "ut"),
		Owned: rapid.IntRange(1, 3).Draw(t, "owned"), TCPMux: rapid.Bool().Draw(t, "tcpmux"), DelayMs: rapid.SampledFrom([]int{0, 50, 300}).Draw(t, "delay")}
}

func runSlow(c SlowCase) error {
	var hold atomic.Int64
	hold.Store(int64(c.HoldMs))
	plug := httptest.NewServer(http.HandlerFunc(func(w http.ResponseWriter, r *http.Request) {
		body, _ := io.ReadAll(r.Body)
		var req struct {
			Content struct {
				ProxyName string `json:"proxy_name"`
			} `json:"content"`
		}
		_ = json.Unmarshal(body, &req)
		if strings.Contains(req.Content.ProxyName, "slow") {
			time.Sleep(time.Duration(hold.Load()) * time.Millisecond)
		}
		_, _ = w.Write([]byte(`{"reject":false,"unchange":true}`))
	}))
	defer plug.Close()
	s, err := fx.StartServer(fx.WithServerTCPMux(c.TCPMux), fx.WithCfg(func(sc *v1.ServerConfig, b *fx.Block) {
		sc.UserConnTimeout = int64(c.UserTimeout)
		sc.HTTPPlugins = []v1.HTTPPluginOptions{{Name: "thinker", Addr: plug.Listener.Addr().String(), Path: "/h", Ops: []string{"NewProxy"}}}
	}))
	if err != nil {
		return err
	}
	defer s.Close()
	common := func() *v1.ClientCommonConfig {
		return fx.ScriptedCommon(s, func(cc *v1.ClientCommonConfig) { cc.Transport.TCPMux = &c.TCPMux })
	}
	a, err := fx.ConnectCommon(common(), "u", "", 1, fx.TagWork("A"))
	if err != nil {
		return fx.Inconclusive("login: %v", err)
	}
	defer a.Close()
	owned := func(i int) *msg.NewProxy {
		return &msg.NewProxy{ProxyName: fmt.Sprintf("svc%d", i), ProxyType: "tcp", RemotePort: s.AllowPort(i)}
	}
	for i := 0; i < c.Owned; i++ {
		if resp, e := a.NewProxy(owned(i), 5*time.Second); e != nil || resp.Error != "" {
			return fx.Inconclusive("registration of svc%d: %v %+v", i, e, resp)
		}
	}
	slow := &msg.NewProxy{ProxyName: "slow-one", ProxyType: "tcp", RemotePort: s.AllowPort(8)}
	if e := a.Send(slow); e != nil {
		return fx.Inconclusive("send: %v", e)
	}
	time.Sleep(time.Duration(c.DelayMs) * time.Millisecond)
	t0 := time.Now()
	a.StopAuto()
	b, err := fx.ConnectCommon(common(), "u", a.RunID, 1, fx.TagWork("B"))
	if err != nil {
		return fmt.Errorf("re-login with the run id while the old session is busy with a registration (plugin holds it %d ms): %v", c.HoldMs, err)
	}
	defer b.Close()
	ack := time.Since(t0)
	hold.Store(0) // the new session's registrations are answered at once
	for i := 0; i < c.Owned; i++ {
		resp, e := b.NewProxy(owned(i), 6*time.Second)
		if e != nil {
			return fmt.Errorf("re-login acknowledged after %v (old session busy for %d ms, userConnTimeout %d s): no answer to the registration of svc%d: %v", ack.Round(time.Millisecond), c.HoldMs, c.UserTimeout, i, e)
		}
		if resp.Error != "" {
			return fmt.Errorf("re-login acknowledged after %v although the old session was still busy (plugin holds its registration %d ms, userConnTimeout %d s): the client's own earlier registration blocks the new one: svc%d refused: %s", ack.Round(time.Millisecond), c.HoldMs, c.UserTimeout, i, resp.Error)
		}
	}
	// the registration the old session was in the middle of must not survive it either
	time.Sleep(time.Duration(c.HoldMs)*time.Millisecond/4 + 50*time.Millisecond)
	resp, e := b.NewProxy(slow, 8*time.Second)
	if e != nil {
		return fmt.Errorf("no answer to the registration of slow-one by the new session: %v", e)
	}
	if resp.Error != "" {
		// the old handler may still be finishing: only a refusal that persists counts
		time.Sleep(time.Duration(c.HoldMs)*time.Millisecond + 500*time.Millisecond)
		resp, e = b.NewProxy(slow, 8*time.Second)
		if e != nil || resp.Error != "" {
			return fmt.Errorf("the registration the old session was in the middle of when it was replaced outlived it: slow-one refused for the new session %d ms later: %v %+v", c.HoldMs+500, e, resp)
		}
	}
	// the tunnels answer from the new session
	for i := 0; i < c.Owned; i++ {
		conn, e := net.DialTimeout("tcp", fmt.Sprintf("127.0.0.1:%d", s.AllowPort(i)), 2*time.Second)
		if e != nil {
			return fmt.Errorf("svc%d not reachable after the re-login: %v", i, e)
		}
		line, e := fx.ReadLine(conn, 5*time.Second)
		conn.Close()
		if e != nil || !strings.HasPrefix(line, "B:") {
			return fmt.Errorf("svc%d answered %q (%v) after the re-login, want the new session", i, line, e)
		}
	}
	return nil
}

func TestSlowTeardownRelogin(t *testing.T) {
	fx.Run(t, fx.Spec[SlowCase]{Prop: "C12", Name: "slow_teardown_relogin", Journal: true, Quick: 24, Thorough: 400, Gen: genSlow, Run: runSlow, Retry: true, ShrinkTime: "30s",
		Class: func(c SlowCase) fx.Class {
			return fx.Class{NonTrivial: c.HoldMs > 1000*c.UserTimeout || c.HoldMs >= 1500, Fingerprint: fmt.Sprintf("%+v", c), Labels: []string{fmt.Sprintf("hold>userConnTimeout=%v", c.HoldMs > 1000*c.UserTimeout)}}
		}})
}
