package c18

import (
	"testing"

	"verifharness/fx"
)

// Native coverage-guided fuzzing (thorough tier): the fuzz bytes drive the same generators, the oracle is unchanged.
func FuzzFormats(f *testing.F) {
	fx.Fuzz(f, fx.Spec[FCase]{Prop: "C18", Name: "formats", Gen: genF, Run: runF})
}

func FuzzValidation(f *testing.F) {
	fx.Fuzz(f, fx.Spec[VCase]{Prop: "C18", Name: "validation", Gen: genV, Run: runV})
}
