package c18

import (
	"encoding/json"
	"fmt"
	"reflect"
	"sort"
	"strings"
	"testing"

	"github.com/spf13/cobra"
	"pgregory.net/rapid"

	"github.com/fatedier/frp/pkg/config"
	"github.com/fatedier/frp/pkg/config/types"
	v1 "github.com/fatedier/frp/pkg/config/v1"
	"github.com/fatedier/frp/pkg/config/v1/validation"

	"verifharness/fx"
)

// ---------- (4) flags explicitly given == the file that sets the same fields ---------------------

type flagSpec struct {
	Flag string
	Path string // dotted path in the file format
	Kind string // str int bool ports bw strs kv
}

var serverFlags = []flagSpec{
	{"bind_addr", "bindAddr", "str"}, {"bind_port", "bindPort", "int"}, {"kcp_bind_port", "kcpBindPort", "int"}, {"quic_bind_port", "quicBindPort", "int"},
	{"proxy_bind_addr", "proxyBindAddr", "str"}, {"vhost_http_port", "vhostHTTPPort", "int"}, {"vhost_https_port", "vhostHTTPSPort", "int"},
	{"vhost_http_timeout", "vhostHTTPTimeout", "int"}, {"dashboard_addr", "webServer.addr", "str"}, {"dashboard_port", "webServer.port", "int"},
	{"dashboard_user", "webServer.user", "str"}, {"dashboard_pwd", "webServer.password", "str"}, {"enable_prometheus", "enablePrometheus", "bool"},
	{"log_file", "log.to", "str"}, {"log_level", "log.level", "str"}, {"log_max_days", "log.maxDays", "int"}, {"disable_log_color", "log.disablePrintColor", "bool"},
	{"token", "auth.token", "str"}, {"subdomain_host", "subDomainHost", "str"}, {"allow_ports", "allowPorts", "ports"},
	{"max_ports_per_client", "maxPortsPerClient", "int"}, {"tls_only", "transport.tls.force", "bool"},
	{"dashboard_tls_cert_file", "webServer.tls.certFile", "str"}, {"dashboard_tls_key_file", "webServer.tls.keyFile", "str"},
}

var clientFlags = []flagSpec{
	{"server_addr", "serverAddr", "str"}, {"server_port", "serverPort", "int"}, {"protocol", "transport.protocol", "str"}, {"log_level", "log.level", "str"},
	{"log_file", "log.to", "str"}, {"log_max_days", "log.maxDays", "int"}, {"disable_log_color", "log.disablePrintColor", "bool"},
	{"tls_server_name", "transport.tls.serverName", "str"}, {"dns_server", "dnsServer", "str"}, {"tls_enable", "transport.tls.enable", "bool"},
	{"user", "user", "str"}, {"token", "auth.token", "str"},
}

func proxyFlagSpecs(ty string) []flagSpec {
	base := []flagSpec{{"proxy_name", "name", "str"}, {"metadatas", "metadatas", "kv"}, {"annotations", "annotations", "kv"}, {"local_ip", "localIP", "str"},
		{"local_port", "localPort", "int"}, {"ue", "transport.useEncryption", "bool"}, {"uc", "transport.useCompression", "bool"},
		{"bandwidth_limit_mode", "transport.bandwidthLimitMode", "str"}, {"bandwidth_limit", "transport.bandwidthLimit", "bw"}}
	dom := []flagSpec{{"custom_domain", "customDomains", "strs"}, {"sd", "subdomain", "str"}}
	switch ty {
	case "tcp", "udp":
		return append(base, flagSpec{"remote_port", "remotePort", "int"})
	case "http":
		return append(append(base, dom...), flagSpec{"locations", "locations", "strs"}, flagSpec{"http_user", "httpUser", "str"}, flagSpec{"http_pwd", "httpPassword", "str"},
			flagSpec{"host_header_rewrite", "hostHeaderRewrite", "str"})
	case "https":
		return append(base, dom...)
	case "tcpmux":
		return append(append(base, dom...), flagSpec{"mux", "multiplexer", "str"}, flagSpec{"http_user", "httpUser", "str"}, flagSpec{"http_pwd", "httpPassword", "str"})
	default:
		return append(base, flagSpec{"sk", "secretKey", "str"}, flagSpec{"allow_users", "allowUsers", "strs"})
	}
}

var visitorFlagSpecs = []flagSpec{{"visitor_name", "name", "str"}, {"ue", "transport.useEncryption", "bool"}, {"uc", "transport.useCompression", "bool"}, {"sk", "secretKey", "str"},
	{"server_name", "serverName", "str"}, {"server-user", "serverUser", "str"}, {"bind_addr", "bindAddr", "str"}, {"bind_port", "bindPort", "int"}}

type FlCase struct {
	Kind   string     `json:"kind"` // server | client | proxy:<type> | visitor:<type>
	Values [][]string `json:"values"` // flag, textual value, style ("eq" / "sp"), spelling ("_" / "-")
	TLSMode string    `json:"tls_mode,omitempty"` // server: dashboard_tls_mode value ("" = not given)
}

func genValue(t *rapid.T, k, l string) string {
	switch k {
	case "int":
		return fmt.Sprint(rapid.SampledFrom([]int{0, 1, 7, 80, 7000, 65535}).Draw(t, l))
	case "bool":
		return fmt.Sprint(rapid.Bool().Draw(t, l))
	case "ports":
		return rapid.SampledFrom([]string{"1000-2000", "3000", "1000-2000,2001,3000-4000", "22,80,443"}).Draw(t, l)
	case "bw":
		return rapid.SampledFrom([]string{"1MB", "100KB", "1.5MB"}).Draw(t, l)
	case "strs":
		return rapid.SampledFrom([]string{"a.example.com", "a.example.com,b.example.com", "/x,/y"}).Draw(t, l)
	case "kv":
		return rapid.SampledFrom([]string{"k=v", "a=1,b=2", "x.y/z=val"}).Draw(t, l)
	}
	return rapid.SampledFrom([]string{"value", "127.0.0.1", "x-y_z", "ünï", "admin", "tcp", "debug", "with space"}).Draw(t, l)
}

func genFl(t *rapid.T) FlCase {
	kind := rapid.SampledFrom([]string{"server", "client", "proxy", "visitor"}).Draw(t, "kind")
	var specs []flagSpec
	c := FlCase{}
	switch kind {
	case "server":
		specs, c.Kind = serverFlags, "server"
		c.TLSMode = rapid.SampledFrom([]string{"", "true", "false"}).Draw(t, "tlsmode")
	case "client":
		specs, c.Kind = clientFlags, "client"
	case "proxy":
		ty := rapid.SampledFrom(proxyTypes).Draw(t, "ptype")
		specs, c.Kind = proxyFlagSpecs(ty), "proxy:"+ty
	default:
		ty := rapid.SampledFrom(visitorTypes).Draw(t, "vtype")
		specs, c.Kind = visitorFlagSpecs, "visitor:"+ty
	}
	// "flags explicitly given": every flag of the set is given, so that differing defaults cannot matter
	for _, s := range specs {
		c.Values = append(c.Values, []string{s.Flag, genValue(t, s.Kind, s.Flag), rapid.SampledFrom([]string{"eq", "sp"}).Draw(t, s.Flag+"/style"),
			rapid.SampledFrom([]string{"_", "-"}).Draw(t, s.Flag+"/spell")})
	}
	return c
}

func setPath(tree map[string]any, path string, v any) {
	parts := strings.Split(path, ".")
	cur := tree
	for _, p := range parts[:len(parts)-1] {
		nx, ok := cur[p].(map[string]any)
		if !ok {
			nx = map[string]any{}
			cur[p] = nx
		}
		cur = nx
	}
	cur[parts[len(parts)-1]] = v
}

func fileValue(kind, text string) any {
	switch kind {
	case "int":
		var n int64
		fmt.Sscan(text, &n)
		return n
	case "bool":
		return text == "true"
	case "ports":
		var out []any
		for _, part := range strings.Split(text, ",") {
			if strings.Contains(part, "-") {
				var a, b int64
				fmt.Sscanf(part, "%d-%d", &a, &b)
				out = append(out, map[string]any{"start": a, "end": b})
			} else {
				var a int64
				fmt.Sscan(part, &a)
				out = append(out, map[string]any{"single": a})
			}
		}
		return out
	case "strs":
		var out []any
		for _, p := range strings.Split(text, ",") {
			out = append(out, p)
		}
		return out
	case "kv":
		m := map[string]any{}
		for _, p := range strings.Split(text, ",") {
			kv := strings.SplitN(p, "=", 2)
			m[kv[0]] = kv[1]
		}
		return m
	}
	return text
}

func runFl(c FlCase) error {
	cmd := &cobra.Command{Use: "x", Run: func(*cobra.Command, []string) {}}
	cmd.SetGlobalNormalizationFunc(config.WordSepNormalizeFunc)
	var fromFlags any
	var specs []flagSpec
	fileTree := map[string]any{}
	var fromFile any
	kind, sub, _ := strings.Cut(c.Kind, ":")
	switch kind {
	case "server":
		o := &v1.ServerConfig{}
		config.RegisterServerConfigFlags(cmd, o)
		fromFlags, specs, fromFile = o, serverFlags, &v1.ServerConfig{}
	case "client":
		o := &v1.ClientCommonConfig{}
		config.RegisterClientCommonConfigFlags(cmd, o)
		fromFlags, specs, fromFile = o, clientFlags, &v1.ClientCommonConfig{}
	case "proxy":
		o := v1.NewProxyConfigurerByType(v1.ProxyType(sub))
		config.RegisterProxyFlags(cmd, o)
		fromFlags, specs, fromFile = o, proxyFlagSpecs(sub), v1.NewProxyConfigurerByType(v1.ProxyType(sub))
		fileTree["type"] = sub
	case "visitor":
		o := v1.NewVisitorConfigurerByType(v1.VisitorType(sub))
		config.RegisterVisitorFlags(cmd, o)
		fromFlags, specs, fromFile = o, visitorFlagSpecs, v1.NewVisitorConfigurerByType(v1.VisitorType(sub))
		fileTree["type"] = sub
	}
	kinds := map[string]flagSpec{}
	for _, s := range specs {
		kinds[s.Flag] = s
	}
	var args []string
	for _, v := range c.Values {
		name := v[0]
		if v[3] == "-" {
			name = strings.ReplaceAll(name, "_", "-")
		}
		s := kinds[v[0]]
		if v[2] == "eq" || s.Kind == "bool" {
			args = append(args, "--"+name+"="+v[1])
		} else {
			args = append(args, "--"+name, v[1])
		}
		setPath(fileTree, s.Path, fileValue(s.Kind, v[1]))
	}
	if kind == "server" {
		switch c.TLSMode {
		case "true":
			args = append(args, "--dashboard_tls_mode=true")
		case "false":
			args = append(args, "--dashboard_tls_mode=false")
		}
		if c.TLSMode != "true" {
			// without TLS mode the certificate flags configure nothing
			if ws, ok := fileTree["webServer"].(map[string]any); ok {
				delete(ws, "tls")
			}
		}
	}
	if err := cmd.ParseFlags(args); err != nil {
		return fmt.Errorf("flags %v refused: %v", args, err)
	}
	doc, _ := json.Marshal(fileTree)
	if err := config.LoadConfigure(doc, fromFile, true); err != nil {
		return fmt.Errorf("equivalent file refused: %v\n%s", err, doc)
	}
	a, _ := structTree(fromFlags)
	b, _ := structTree(fromFile)
	ca, cb := canonJSON(a), canonJSON(b)
	if ca != cb {
		return fmt.Errorf("%s: flags %v and the file that sets the same fields give different structures:\n flags %s\n file  %s", c.Kind, args, ca, cb)
	}
	return nil
}

func TestFlags(t *testing.T) {
	fx.Run(t, fx.Spec[FlCase]{Prop: "C18", Name: "flags", Quick: 3000, Thorough: 100000, Gen: genFl, Run: runFl,
		Class: func(c FlCase) fx.Class {
			return fx.Class{NonTrivial: len(c.Values) >= 5, Fingerprint: fmt.Sprintf("%+v", c), Labels: []string{"kind=" + strings.SplitN(c.Kind, ":", 2)[0]}}
		}})
}

// ---------- (5) what validation accepts respects the documented constraints ---------------------------

type VCase struct {
	Kind          string   `json:"kind"` // server | proxy
	Ports         []int    `json:"ports,omitempty"`
	SubDomainHost string   `json:"subdomain_host,omitempty"`
	Domains       []string `json:"domains,omitempty"`
	PType         string   `json:"ptype,omitempty"`
	LocalPort     int      `json:"local_port,omitempty"`
	LogLevel      string   `json:"log_level,omitempty"`
	AuthMethod    string   `json:"auth_method,omitempty"`
	BWMode        string   `json:"bw_mode,omitempty"`
}

var portVals = []int{-65536, -1, 0, 1, 80, 65535, 65536, 70000, 1 << 31}

func genV(t *rapid.T) VCase {
	c := VCase{Kind: rapid.SampledFrom([]string{"server", "proxy", "proxy"}).Draw(t, "kind")}
	if c.Kind == "server" {
		for i := 0; i < 7; i++ {
			c.Ports = append(c.Ports, rapid.SampledFrom(portVals).Draw(t, fmt.Sprintf("port%d", i)))
		}
		c.LogLevel = rapid.SampledFrom([]string{"info", "trace", "debug", "warn", "error", "INFO", "verbose", ""}).Draw(t, "loglevel")
		c.AuthMethod = rapid.SampledFrom([]string{"token", "oidc", "none", "Token", ""}).Draw(t, "auth")
		return c
	}
	c.PType = rapid.SampledFrom([]string{"http", "https", "tcpmux", "tcp"}).Draw(t, "ptype")
	c.SubDomainHost = rapid.SampledFrom([]string{"", "frps.com", "Frps.Com", "tunnel.example.org"}).Draw(t, "sdh")
	n := rapid.IntRange(1, 3).Draw(t, "nd")
	for i := 0; i < n; i++ {
		base := rapid.SampledFrom([]string{"frps.com", "example.com", "tunnel.example.org", "other.net"}).Draw(t, fmt.Sprintf("base%d", i))
		d := rapid.SampledFrom([]string{"", "a.", "x.y.", "*."}).Draw(t, fmt.Sprintf("pre%d", i)) + base
		c.Domains = append(c.Domains, randCase(t, d, fmt.Sprintf("dcase%d", i)))
	}
	c.LocalPort = rapid.SampledFrom(portVals).Draw(t, "localport")
	c.BWMode = rapid.SampledFrom([]string{"client", "server", "Server", "both", ""}).Draw(t, "bwmode")
	return c
}

func randCase(t *rapid.T, s, l string) string {
	if !rapid.Bool().Draw(t, l+"/mix") {
		return s
	}
	b := []byte(s)
	for i := range b {
		if b[i] >= 'a' && b[i] <= 'z' && rapid.Bool().Draw(t, fmt.Sprintf("%s/%d", l, i)) {
			b[i] -= 32
		}
	}
	return string(b)
}

func runV(c VCase) error {
	inRange := func(p int) bool { return p >= 0 && p <= 65535 }
	if c.Kind == "server" {
		s := &v1.ServerConfig{BindPort: c.Ports[0], KCPBindPort: c.Ports[1], QUICBindPort: c.Ports[2], VhostHTTPPort: c.Ports[3], VhostHTTPSPort: c.Ports[4], TCPMuxHTTPConnectPort: c.Ports[5]}
		s.WebServer.Port = c.Ports[6]
		s.Log.Level = c.LogLevel
		s.Auth.Method = v1.AuthMethod(c.AuthMethod)
		s.Complete()
		_, err := validation.ValidateServerConfig(s)
		if err != nil {
			return nil
		}
		names := []string{"bindPort", "kcpBindPort", "quicBindPort", "vhostHTTPPort", "vhostHTTPSPort", "tcpmuxHTTPConnectPort", "webServer.port"}
		vals := []int{s.BindPort, s.KCPBindPort, s.QUICBindPort, s.VhostHTTPPort, s.VhostHTTPSPort, s.TCPMuxHTTPConnectPort, s.WebServer.Port}
		for i, p := range vals {
			if !inRange(p) {
				return fmt.Errorf("server configuration with %s=%d passed validation", names[i], p)
			}
		}
		if !contains([]string{"trace", "debug", "info", "warn", "error"}, s.Log.Level) {
			return fmt.Errorf("server configuration with log.level=%q passed validation", s.Log.Level)
		}
		if !contains([]string{"token", "oidc"}, string(s.Auth.Method)) {
			return fmt.Errorf("server configuration with auth.method=%q passed validation", s.Auth.Method)
		}
		return nil
	}
	// proxy: server-side validation of custom domains against the subdomain host, client-side of ports / enumerations
	srv := &v1.ServerConfig{VhostHTTPPort: 80, VhostHTTPSPort: 443, TCPMuxHTTPConnectPort: 1337, SubDomainHost: c.SubDomainHost}
	srv.Complete()
	pc := v1.NewProxyConfigurerByType(v1.ProxyType(c.PType))
	pc.GetBaseConfig().Name = "p"
	pc.GetBaseConfig().LocalPort = c.LocalPort
	pc.GetBaseConfig().Transport.BandwidthLimitMode = c.BWMode
	switch x := pc.(type) {
	case *v1.HTTPProxyConfig:
		x.CustomDomains = c.Domains
	case *v1.HTTPSProxyConfig:
		x.CustomDomains = c.Domains
	case *v1.TCPMuxProxyConfig:
		x.CustomDomains = c.Domains
		x.Multiplexer = "httpconnect"
	}
	pc.Complete("")
	if validation.ValidateProxyConfigurerForClient(pc) == nil {
		if !inRange(pc.GetBaseConfig().LocalPort) {
			return fmt.Errorf("client accepted a proxy with localPort=%d", pc.GetBaseConfig().LocalPort)
		}
		if !contains([]string{"client", "server"}, pc.GetBaseConfig().Transport.BandwidthLimitMode) {
			return fmt.Errorf("client accepted bandwidthLimitMode=%q", pc.GetBaseConfig().Transport.BandwidthLimitMode)
		}
	}
	if c.PType != "tcp" && c.SubDomainHost != "" && validation.ValidateProxyConfigurerForServer(pc, srv) == nil {
		sdh := strings.ToLower(c.SubDomainHost)
		for _, d := range c.Domains {
			if strings.HasSuffix(strings.ToLower(d), "."+sdh) {
				return fmt.Errorf("server accepted custom domain %q although it lies under the subdomain host %q (routing ignores letter case)", d, c.SubDomainHost)
			}
		}
	}
	return nil
}

func contains(l []string, s string) bool {
	for _, x := range l {
		if x == s {
			return true
		}
	}
	return false
}

func TestValidation(t *testing.T) {
	fx.Run(t, fx.Spec[VCase]{Prop: "C18", Name: "validation", Quick: 6000, Thorough: 200000, Gen: genV, Run: runV,
		Class: func(c VCase) fx.Class { return fx.Class{NonTrivial: true, Fingerprint: fmt.Sprintf("%+v", c), Labels: []string{"kind=" + c.Kind}} }})
}

// ---------- (6) literals and templates -------------------------------------------------------------------

type LCase struct {
	Kind  string            `json:"kind"` // ports | bw | template
	Text  string            `json:"text"`
	Envs  map[string]string `json:"envs,omitempty"`
	First string            `json:"first,omitempty"`
	Second string           `json:"second,omitempty"`
}

func genRangeLit(t *rapid.T, l string) (string, []int64) {
	n := rapid.IntRange(1, 4).Draw(t, l+"/n")
	var parts []string
	var nums []int64
	for i := 0; i < n; i++ {
		a := rapid.IntRange(1, 65000).Draw(t, fmt.Sprintf("%s/a%d", l, i))
		if rapid.Bool().Draw(t, fmt.Sprintf("%s/r%d", l, i)) {
			b := a + rapid.IntRange(0, 20).Draw(t, fmt.Sprintf("%s/b%d", l, i))
			sp := rapid.SampledFrom([]string{"", " "}).Draw(t, fmt.Sprintf("%s/sp%d", l, i))
			parts = append(parts, fmt.Sprintf("%d%s-%s%d", a, sp, sp, b))
			for x := a; x <= b; x++ {
				nums = append(nums, int64(x))
			}
		} else {
			parts = append(parts, fmt.Sprint(a))
			nums = append(nums, int64(a))
		}
	}
	return strings.Join(parts, ","), nums
}

func genL(t *rapid.T) LCase {
	switch rapid.SampledFrom([]string{"ports", "bw", "template"}).Draw(t, "kind") {
	case "ports":
		s, _ := genRangeLit(t, "p")
		return LCase{Kind: "ports", Text: s}
	case "bw":
		num := rapid.SampledFrom([]string{"1", "10", "1.5", "0.25", "1024", "100", "7.75", "1e3"}).Draw(t, "num")
		return LCase{Kind: "bw", Text: rapid.SampledFrom([]string{"", " "}).Draw(t, "lead") + num + rapid.SampledFrom([]string{"KB", "MB"}).Draw(t, "unit")}
	}
	a, an := genRangeLit(t, "first")
	// second list of the same length
	start := rapid.IntRange(1, 60000).Draw(t, "second/start")
	b := fmt.Sprintf("%d-%d", start, start+len(an)-1)
	envs := map[string]string{"FRP_A": rapid.SampledFrom([]string{"alpha", "with space", "ünï", "x=y"}).Draw(t, "enva"), "FRP_B": fmt.Sprint(rapid.IntRange(1, 65535).Draw(t, "envb"))}
	return LCase{Kind: "template", Envs: envs, First: a, Second: b}
}

func runL(c LCase) error {
	switch c.Kind {
	case "ports":
		r, err := types.NewPortsRangeSliceFromString(c.Text)
		if err != nil {
			return fmt.Errorf("valid port-range literal %q refused: %v", c.Text, err)
		}
		s := types.PortsRangeSlice(r).String()
		r2, err := types.NewPortsRangeSliceFromString(s)
		if err != nil || !reflect.DeepEqual(r, r2) {
			return fmt.Errorf("port ranges %q -> %v -> %q -> %v do not round-trip (%v)", c.Text, r, s, r2, err)
		}
		// the literal denotes exactly these ports
		want := map[int]bool{}
		for _, part := range strings.Split(c.Text, ",") {
			part = strings.ReplaceAll(part, " ", "")
			var a, b int
			if n, _ := fmt.Sscanf(part, "%d-%d", &a, &b); n == 2 {
				for x := a; x <= b; x++ {
					want[x] = true
				}
			} else {
				fmt.Sscan(part, &a)
				want[a] = true
			}
		}
		got := map[int]bool{}
		for _, pr := range r {
			if pr.Single > 0 {
				got[pr.Single] = true
			}
			for x := pr.Start; x <= pr.End && pr.End > 0; x++ {
				got[x] = true
			}
		}
		if !reflect.DeepEqual(want, got) {
			return fmt.Errorf("port-range literal %q parsed to %v which denotes a different set of ports", c.Text, r)
		}
	case "bw":
		q, err := types.NewBandwidthQuantity(c.Text)
		if err != nil {
			return fmt.Errorf("valid bandwidth literal %q refused: %v", c.Text, err)
		}
		q2, err := types.NewBandwidthQuantity(q.String())
		if err != nil || q2.Bytes() != q.Bytes() || q2.String() != q.String() {
			return fmt.Errorf("bandwidth %q -> %q (%d bytes) -> %q (%d bytes) does not round-trip", c.Text, q.String(), q.Bytes(), q2.String(), q2.Bytes())
		}
		txt := strings.TrimSpace(c.Text)
		var f float64
		unit := int64(1024)
		if strings.HasSuffix(txt, "MB") {
			unit = 1024 * 1024
		}
		fmt.Sscan(txt[:len(txt)-2], &f)
		if want := int64(f * float64(unit)); q.Bytes() != want {
			return fmt.Errorf("bandwidth literal %q is %d bytes, parsed as %d", c.Text, want, q.Bytes())
		}
		// JSON form
		b, _ := json.Marshal(&q)
		var q3 types.BandwidthQuantity
		if err := json.Unmarshal(b, &q3); err != nil || q3.Bytes() != q.Bytes() {
			return fmt.Errorf("bandwidth %q does not survive its JSON form %s", c.Text, b)
		}
	case "template":
		tpl := "user = \"{{ .Envs.FRP_A }}\"\nport = {{ .Envs.FRP_B }}\n{{- range $_, $v := parseNumberRangePair \"" + c.First + "\" \"" + c.Second + "\" }}\n[[proxies]]\nlocalPort = {{ $v.First }}\nremotePort = {{ $v.Second }}\n{{- end }}\n"
		out, err := config.RenderWithTemplate([]byte(tpl), &config.Values{Envs: c.Envs})
		if err != nil {
			return fmt.Errorf("template refused: %v", err)
		}
		var firsts []int64
		for _, part := range strings.Split(c.First, ",") {
			part = strings.ReplaceAll(part, " ", "")
			var a, b int64
			if n, _ := fmt.Sscanf(part, "%d-%d", &a, &b); n == 2 {
				for x := a; x <= b; x++ {
					firsts = append(firsts, x)
				}
			} else {
				fmt.Sscan(part, &a)
				firsts = append(firsts, a)
			}
		}
		var s0 int64
		fmt.Sscanf(c.Second, "%d-", &s0)
		want := "user = \"" + c.Envs["FRP_A"] + "\"\nport = " + c.Envs["FRP_B"]
		for i, f := range firsts {
			want += fmt.Sprintf("\n[[proxies]]\nlocalPort = %d\nremotePort = %d", f, s0+int64(i))
		}
		want += "\n"
		if string(out) != want {
			return fmt.Errorf("template rendered to\n%s\nexpected\n%s", out, want)
		}
	}
	return nil
}

func TestLiterals(t *testing.T) {
	fx.Run(t, fx.Spec[LCase]{Prop: "C18", Name: "literals", Quick: 6000, Thorough: 200000, Gen: genL, Run: runL,
		Class: func(c LCase) fx.Class { return fx.Class{NonTrivial: true, Fingerprint: fmt.Sprintf("%+v", c), Labels: []string{"kind=" + c.Kind}} }})
}

var _ = sort.Strings
