// Package c18: a proxy definition means the same in every format and on both ends.
package c18

import (
	"fmt"

	"pgregory.net/rapid"
)

// Generators produce the LOGICAL configuration as a generic tree (map / slice / scalars) keyed
// by the documented (camelCase) names. The tree is rendered to JSON, YAML and TOML by
// independent encoders; frp's loaders then have to agree on it.

var proxyTypes = []string{"tcp", "udp", "http", "https", "tcpmux", "stcp", "xtcp", "sudp"}
var visitorTypes = []string{"stcp", "xtcp", "sudp"}

func gName(t *rapid.T, l string) string {
	return rapid.SampledFrom([]string{"web", "ssh-01", "a.b.c", "名前", "p_1", "UPPER", "x y", "dotted.name.with.many.parts", "n"}).Draw(t, l) +
		rapid.StringMatching(`[a-z0-9]{0,4}`).Draw(t, l+"/sfx")
}

func gStr(t *rapid.T, l string) string {
	return rapid.SampledFrom([]string{"v", "secret-key", "pa ss", "ünï", "a=b", "x,y", "quote\"d", "back\\slash", "tab\tbed", "#hash", "[br]", "1234", "true", "null"}).Draw(t, l)
}

func gMap(t *rapid.T, l string) map[string]any {
	n := rapid.IntRange(0, 3).Draw(t, l+"/n")
	m := map[string]any{}
	for i := 0; i < n; i++ {
		k := rapid.SampledFrom([]string{"k", "key.with.dots", "X-Header", "frp.io/anno", "a", "b-c", "Content-Type"}).Draw(t, fmt.Sprintf("%s/k%d", l, i))
		m[k] = gStr(t, fmt.Sprintf("%s/v%d", l, i))
	}
	return m
}

func gDomains(t *rapid.T, l string) []any {
	n := rapid.IntRange(1, 3).Draw(t, l+"/n")
	var out []any
	for i := 0; i < n; i++ {
		out = append(out, rapid.SampledFrom([]string{"a.example.com", "B.Example.COM", "*.wild.example.org", "x.y.z.test", "*", "xn--nxasmq6b.test", "one"}).Draw(t, fmt.Sprintf("%s/%d", l, i)))
	}
	return out
}

func maybe(t *rapid.T, m map[string]any, key string, l string, f func() any) {
	if rapid.IntRange(0, 2).Draw(t, l+"/has-"+key) > 0 {
		m[key] = f()
	}
}

func gBandwidth(t *rapid.T, l string) string {
	return rapid.SampledFrom([]string{"1KB", "100KB", "1MB", "10MB", "1.5MB", "0.5KB", "2048KB", "0MB", "1e2KB"}).Draw(t, l)
}

// genProxy returns the tree of one proxy (client-side definition).
func genProxy(t *rapid.T, l string, ty string) map[string]any {
	p := map[string]any{"name": gName(t, l+"/name"), "type": ty}
	tr := map[string]any{}
	maybe(t, tr, "useEncryption", l, func() any { return rapid.Bool().Draw(t, l+"/enc") })
	maybe(t, tr, "useCompression", l, func() any { return rapid.Bool().Draw(t, l+"/comp") })
	maybe(t, tr, "bandwidthLimit", l, func() any { return gBandwidth(t, l+"/bw") })
	maybe(t, tr, "bandwidthLimitMode", l, func() any { return rapid.SampledFrom([]string{"client", "server"}).Draw(t, l+"/bwm") })
	maybe(t, tr, "proxyProtocolVersion", l, func() any { return rapid.SampledFrom([]string{"v1", "v2"}).Draw(t, l+"/ppv") })
	if len(tr) > 0 {
		p["transport"] = tr
	}
	maybe(t, p, "metadatas", l, func() any { return gMap(t, l+"/meta") })
	maybe(t, p, "annotations", l, func() any {
		m := map[string]any{}
		for _, k := range []string{"frp.io/a", "b", "x.y/z-1"} {
			if rapid.Bool().Draw(t, l+"/anno-"+k) {
				m[k] = gStr(t, l+"/annov-"+k)
			}
		}
		return m
	})
	if rapid.IntRange(0, 3).Draw(t, l+"/lb") == 0 {
		p["loadBalancer"] = map[string]any{"group": gName(t, l+"/group"), "groupKey": gStr(t, l+"/gk")}
	}
	maybe(t, p, "localIP", l, func() any { return rapid.SampledFrom([]string{"127.0.0.1", "10.1.2.3", "::1", "localhost"}).Draw(t, l+"/lip") })
	maybe(t, p, "localPort", l, func() any { return int64(rapid.SampledFrom([]int{1, 22, 80, 8080, 65535}).Draw(t, l+"/lport")) })
	if rapid.IntRange(0, 4).Draw(t, l+"/hc") == 0 {
		hc := map[string]any{"type": rapid.SampledFrom([]string{"tcp", "http"}).Draw(t, l+"/hct"), "intervalSeconds": int64(rapid.IntRange(1, 60).Draw(t, l+"/hci"))}
		maybe(t, hc, "timeoutSeconds", l, func() any { return int64(rapid.IntRange(1, 10).Draw(t, l+"/hcto")) })
		maybe(t, hc, "maxFailed", l, func() any { return int64(rapid.IntRange(1, 5).Draw(t, l+"/hcmf")) })
		hc["path"] = "/health"
		if rapid.Bool().Draw(t, l+"/hchdr") {
			hc["httpHeaders"] = []any{map[string]any{"name": "X-Probe", "value": gStr(t, l+"/hchv")}}
		}
		p["healthCheck"] = hc
	}
	if rapid.IntRange(0, 5).Draw(t, l+"/plugin") == 0 {
		switch rapid.IntRange(0, 2).Draw(t, l+"/plk") {
		case 0:
			p["plugin"] = map[string]any{"type": "http_proxy", "httpUser": gStr(t, l+"/plu"), "httpPassword": gStr(t, l+"/plp")}
		case 1:
			p["plugin"] = map[string]any{"type": "static_file", "localPath": "/tmp/files", "stripPrefix": "static", "httpUser": gStr(t, l+"/plu")}
		default:
			p["plugin"] = map[string]any{"type": "http2https", "localAddr": "127.0.0.1:443", "hostHeaderRewrite": "in.ternal", "requestHeaders": map[string]any{"set": gMap(t, l+"/plh")}}
		}
		delete(p, "localIP")
		delete(p, "localPort")
	}
	switch ty {
	case "tcp", "udp":
		maybe(t, p, "remotePort", l, func() any { return int64(rapid.SampledFrom([]int{0, 1, 6000, 65535}).Draw(t, l+"/rport")) })
	case "http":
		p["customDomains"] = gDomains(t, l+"/dom")
		maybe(t, p, "subdomain", l, func() any { return rapid.SampledFrom([]string{"sub", "Sub2"}).Draw(t, l+"/sub") })
		maybe(t, p, "locations", l, func() any {
			return []any{rapid.SampledFrom([]string{"/", "/api", "/a/b"}).Draw(t, l+"/loc0"), rapid.SampledFrom([]string{"/x", "/News"}).Draw(t, l+"/loc1")}
		})
		maybe(t, p, "httpUser", l, func() any { return gStr(t, l+"/hu") })
		maybe(t, p, "httpPassword", l, func() any { return gStr(t, l+"/hp") })
		maybe(t, p, "hostHeaderRewrite", l, func() any { return "rewritten.example" })
		maybe(t, p, "requestHeaders", l, func() any { return map[string]any{"set": gMap(t, l+"/rh")} })
		maybe(t, p, "responseHeaders", l, func() any { return map[string]any{"set": gMap(t, l+"/rsh")} })
		maybe(t, p, "routeByHTTPUser", l, func() any { return gStr(t, l+"/rbu") })
	case "https":
		p["customDomains"] = gDomains(t, l+"/dom")
		maybe(t, p, "subdomain", l, func() any { return "sub" })
	case "tcpmux":
		p["customDomains"] = gDomains(t, l+"/dom")
		p["multiplexer"] = "httpconnect"
		maybe(t, p, "httpUser", l, func() any { return gStr(t, l+"/hu") })
		maybe(t, p, "httpPassword", l, func() any { return gStr(t, l+"/hp") })
		maybe(t, p, "routeByHTTPUser", l, func() any { return gStr(t, l+"/rbu") })
	case "stcp", "xtcp", "sudp":
		maybe(t, p, "secretKey", l, func() any { return gStr(t, l+"/sk") })
		maybe(t, p, "allowUsers", l, func() any {
			n := rapid.IntRange(0, 3).Draw(t, l+"/nau")
			out := []any{}
			for i := 0; i < n; i++ {
				out = append(out, rapid.SampledFrom([]string{"*", "alice", "bob", "ünï"}).Draw(t, fmt.Sprintf("%s/au%d", l, i)))
			}
			return out
		})
	}
	return p
}

func genVisitor(t *rapid.T, l string, ty string) map[string]any {
	v := map[string]any{"name": gName(t, l+"/name"), "type": ty, "serverName": gName(t, l+"/sn"), "bindPort": int64(rapid.SampledFrom([]int{-1, 6001, 9000}).Draw(t, l+"/bp"))}
	maybe(t, v, "secretKey", l, func() any { return gStr(t, l+"/sk") })
	maybe(t, v, "serverUser", l, func() any { return "other" })
	maybe(t, v, "bindAddr", l, func() any { return "0.0.0.0" })
	tr := map[string]any{}
	maybe(t, tr, "useEncryption", l, func() any { return rapid.Bool().Draw(t, l+"/enc") })
	maybe(t, tr, "useCompression", l, func() any { return rapid.Bool().Draw(t, l+"/comp") })
	if len(tr) > 0 {
		v["transport"] = tr
	}
	if ty == "xtcp" {
		maybe(t, v, "protocol", l, func() any { return rapid.SampledFrom([]string{"quic", "kcp"}).Draw(t, l+"/proto") })
		maybe(t, v, "keepTunnelOpen", l, func() any { return rapid.Bool().Draw(t, l+"/kto") })
		maybe(t, v, "maxRetriesAnHour", l, func() any { return int64(rapid.IntRange(1, 20).Draw(t, l+"/mr")) })
		maybe(t, v, "fallbackTo", l, func() any { return "fb" })
		maybe(t, v, "fallbackTimeoutMs", l, func() any { return int64(rapid.IntRange(1, 5000).Draw(t, l+"/fbt")) })
	}
	return v
}

func genClientTree(t *rapid.T) map[string]any {
	c := map[string]any{}
	maybe(t, c, "user", "c", func() any { return rapid.SampledFrom([]string{"u1", "team.a"}).Draw(t, "c/user") })
	maybe(t, c, "serverAddr", "c", func() any { return rapid.SampledFrom([]string{"frps.example.com", "10.0.0.1", "::1"}).Draw(t, "c/sa") })
	maybe(t, c, "serverPort", "c", func() any { return int64(rapid.SampledFrom([]int{7000, 1, 65535}).Draw(t, "c/sp")) })
	maybe(t, c, "loginFailExit", "c", func() any { return rapid.Bool().Draw(t, "c/lfe") })
	maybe(t, c, "udpPacketSize", "c", func() any { return int64(rapid.SampledFrom([]int{1200, 1500}).Draw(t, "c/ups")) })
	maybe(t, c, "metadatas", "c", func() any { return gMap(t, "c/meta") })
	maybe(t, c, "start", "c", func() any { return []any{} })
	auth := map[string]any{}
	maybe(t, auth, "method", "c", func() any { return "token" })
	maybe(t, auth, "token", "c", func() any { return gStr(t, "c/token") })
	maybe(t, auth, "additionalScopes", "c", func() any { return []any{"HeartBeats", "NewWorkConns"} })
	if len(auth) > 0 {
		c["auth"] = auth
	}
	tr := map[string]any{}
	maybe(t, tr, "protocol", "c", func() any { return rapid.SampledFrom([]string{"tcp", "kcp", "quic", "websocket", "wss"}).Draw(t, "c/proto") })
	maybe(t, tr, "poolCount", "c", func() any { return int64(rapid.IntRange(0, 8).Draw(t, "c/pool")) })
	maybe(t, tr, "tcpMux", "c", func() any { return rapid.Bool().Draw(t, "c/mux") })
	maybe(t, tr, "heartbeatInterval", "c", func() any { return int64(rapid.SampledFrom([]int{-1, 10, 30}).Draw(t, "c/hbi")) })
	maybe(t, tr, "heartbeatTimeout", "c", func() any { return int64(rapid.SampledFrom([]int{-1, 90}).Draw(t, "c/hbt")) })
	if rapid.Bool().Draw(t, "c/tls") {
		tls := map[string]any{}
		maybe(t, tls, "enable", "c", func() any { return rapid.Bool().Draw(t, "c/tlsen") })
		maybe(t, tls, "disableCustomTLSFirstByte", "c", func() any { return rapid.Bool().Draw(t, "c/tlsfb") })
		maybe(t, tls, "serverName", "c", func() any { return "frps.test" })
		tr["tls"] = tls
	}
	if rapid.Bool().Draw(t, "c/quic") {
		tr["quic"] = map[string]any{"keepalivePeriod": int64(5), "maxIdleTimeout": int64(20)}
	}
	if len(tr) > 0 {
		c["transport"] = tr
	}
	maybe(t, c, "log", "c", func() any { return map[string]any{"level": "debug", "maxDays": int64(7), "to": "console"} })
	maybe(t, c, "webServer", "c", func() any { return map[string]any{"addr": "127.0.0.1", "port": int64(7400), "user": "admin", "password": gStr(t, "c/wpw")} })
	np := rapid.IntRange(0, 4).Draw(t, "c/np")
	var ps []any
	for i := 0; i < np; i++ {
		ps = append(ps, genProxy(t, fmt.Sprintf("p%d", i), rapid.SampledFrom(proxyTypes).Draw(t, fmt.Sprintf("p%d/type", i))))
	}
	if np > 0 {
		c["proxies"] = ps
	}
	nv := rapid.IntRange(0, 2).Draw(t, "c/nv")
	var vs []any
	for i := 0; i < nv; i++ {
		vs = append(vs, genVisitor(t, fmt.Sprintf("v%d", i), rapid.SampledFrom(visitorTypes).Draw(t, fmt.Sprintf("v%d/type", i))))
	}
	if nv > 0 {
		c["visitors"] = vs
	}
	return c
}

func genServerTree(t *rapid.T) map[string]any {
	s := map[string]any{}
	maybe(t, s, "bindAddr", "s", func() any { return rapid.SampledFrom([]string{"0.0.0.0", "127.0.0.1", "::"}).Draw(t, "s/ba") })
	maybe(t, s, "bindPort", "s", func() any { return int64(rapid.SampledFrom([]int{7000, 1, 65535}).Draw(t, "s/bp")) })
	maybe(t, s, "kcpBindPort", "s", func() any { return int64(7000) })
	maybe(t, s, "quicBindPort", "s", func() any { return int64(7001) })
	maybe(t, s, "proxyBindAddr", "s", func() any { return "0.0.0.0" })
	maybe(t, s, "vhostHTTPPort", "s", func() any { return int64(rapid.SampledFrom([]int{80, 8080}).Draw(t, "s/vh")) })
	maybe(t, s, "vhostHTTPSPort", "s", func() any { return int64(443) })
	maybe(t, s, "vhostHTTPTimeout", "s", func() any { return int64(rapid.IntRange(1, 120).Draw(t, "s/vht")) })
	maybe(t, s, "tcpmuxHTTPConnectPort", "s", func() any { return int64(1337) })
	maybe(t, s, "tcpmuxPassthrough", "s", func() any { return rapid.Bool().Draw(t, "s/pt") })
	maybe(t, s, "subDomainHost", "s", func() any { return rapid.SampledFrom([]string{"frps.com", "Sub.Example.org"}).Draw(t, "s/sdh") })
	maybe(t, s, "custom404Page", "s", func() any { return "/etc/frp/404.html" })
	maybe(t, s, "maxPortsPerClient", "s", func() any { return int64(rapid.IntRange(0, 50).Draw(t, "s/mpc")) })
	maybe(t, s, "userConnTimeout", "s", func() any { return int64(rapid.IntRange(1, 60).Draw(t, "s/uct")) })
	maybe(t, s, "udpPacketSize", "s", func() any { return int64(1400) })
	maybe(t, s, "detailedErrorsToClient", "s", func() any { return rapid.Bool().Draw(t, "s/det") })
	maybe(t, s, "enablePrometheus", "s", func() any { return rapid.Bool().Draw(t, "s/prom") })
	maybe(t, s, "allowPorts", "s", func() any {
		return []any{map[string]any{"start": int64(2000), "end": int64(3000)}, map[string]any{"single": int64(rapid.SampledFrom([]int{3001, 4000}).Draw(t, "s/single"))}}
	})
	auth := map[string]any{}
	maybe(t, auth, "method", "s", func() any { return "token" })
	maybe(t, auth, "token", "s", func() any { return gStr(t, "s/token") })
	maybe(t, auth, "additionalScopes", "s", func() any { return []any{"HeartBeats"} })
	if len(auth) > 0 {
		s["auth"] = auth
	}
	tr := map[string]any{}
	maybe(t, tr, "tcpMux", "s", func() any { return rapid.Bool().Draw(t, "s/mux") })
	maybe(t, tr, "maxPoolCount", "s", func() any { return int64(rapid.IntRange(1, 20).Draw(t, "s/mpool")) })
	maybe(t, tr, "heartbeatTimeout", "s", func() any { return int64(rapid.SampledFrom([]int{-1, 30, 90}).Draw(t, "s/hbt")) })
	maybe(t, tr, "tls", "s", func() any { return map[string]any{"force": rapid.Bool().Draw(t, "s/force")} })
	if len(tr) > 0 {
		s["transport"] = tr
	}
	maybe(t, s, "webServer", "s", func() any {
		return map[string]any{"addr": "127.0.0.1", "port": int64(7500), "user": "admin", "password": gStr(t, "s/wpw")}
	})
	maybe(t, s, "log", "s", func() any { return map[string]any{"level": "warn", "maxDays": int64(1)} })
	maybe(t, s, "httpPlugins", "s", func() any {
		return []any{map[string]any{"name": "p1", "addr": "127.0.0.1:9000", "path": "/handler", "ops": []any{"Login", "NewProxy"}}}
	})
	maybe(t, s, "sshTunnelGateway", "s", func() any { return map[string]any{"bindPort": int64(2200), "authorizedKeysFile": "/etc/keys"} })
	return s
}
