package c18

import (
	"bytes"
	"encoding/json"
	"fmt"
	"reflect"
	"sort"
	"strconv"
	"strings"
	"testing"

	toml "github.com/pelletier/go-toml/v2"
	"pgregory.net/rapid"
	"sigs.k8s.io/yaml"

	"github.com/fatedier/frp/pkg/config"
	v1 "github.com/fatedier/frp/pkg/config/v1"
	"github.com/fatedier/frp/pkg/config/v1/validation"
	"github.com/fatedier/frp/pkg/msg"

	"verifharness/fx"
)

func TestMain(m *testing.M) { fx.Main(m, "C18") }

// ---------- helpers ----------------------------------------------------------------------------

func decodeTree(b []byte) (any, error) {
	d := json.NewDecoder(bytes.NewReader(b))
	d.UseNumber()
	var v any
	if err := d.Decode(&v); err != nil {
		return nil, err
	}
	return intify(v), nil
}

func intify(v any) any {
	switch x := v.(type) {
	case json.Number:
		if n, err := strconv.ParseInt(x.String(), 10, 64); err == nil {
			return n
		}
		f, _ := x.Float64()
		return f
	case map[string]any:
		for k, e := range x {
			x[k] = intify(e)
		}
	case []any:
		for i, e := range x {
			x[i] = intify(e)
		}
	}
	return v
}

// canon drops zero leaves / empty containers (omitempty equivalence) and renders deterministically.
func canon(v any) any {
	switch x := v.(type) {
	case nil:
		return nil
	case string:
		if x == "" {
			return nil
		}
	case bool:
		if !x {
			return nil
		}
	case int64:
		if x == 0 {
			return nil
		}
	case float64:
		if x == 0 {
			return nil
		}
	case map[string]any:
		out := map[string]any{}
		for k, e := range x {
			if c := canon(e); c != nil {
				out[k] = c
			}
		}
		if len(out) == 0 {
			return nil
		}
		return out
	case []any:
		if len(x) == 0 {
			return nil
		}
		out := make([]any, len(x))
		for i, e := range x {
			out[i] = canon(e)
		}
		return out
	}
	return v
}

func canonJSON(v any) string {
	b, _ := json.Marshal(canon(v))
	return string(b)
}

func structTree(obj any) (any, error) {
	b, err := json.Marshal(obj)
	if err != nil {
		return nil, err
	}
	return decodeTree(b)
}

func newObj(kind string) any {
	if kind == "server" {
		return &v1.ServerConfig{}
	}
	return &v1.ClientConfig{}
}

// objects of the tree, for unknown-key injection: returns paths (as index lists) to every map node
func mapNodes(v any, path []string, out *[][]string) {
	switch x := v.(type) {
	case map[string]any:
		*out = append(*out, append([]string(nil), path...))
		keys := make([]string, 0, len(x))
		for k := range x {
			keys = append(keys, k)
		}
		sort.Strings(keys)
		for _, k := range keys {
			mapNodes(x[k], append(path, k), out)
		}
	case []any:
		for i, e := range x {
			mapNodes(e, append(path, "#"+strconv.Itoa(i)), out)
		}
	}
}

// free-form maps of the schema: any key is legal there, so no "unknown field" exists
func insideFreeMap(path []string) bool {
	for _, p := range path {
		switch p {
		case "metadatas", "annotations", "set":
			return true
		}
	}
	return false
}

func inject(v any, path []string, key string) {
	cur := v
	for _, p := range path {
		if strings.HasPrefix(p, "#") {
			i, _ := strconv.Atoi(p[1:])
			cur = cur.([]any)[i]
		} else {
			cur = cur.(map[string]any)[p]
		}
	}
	cur.(map[string]any)[key] = "surprise"
}

// ---------- (2)+(3): the three formats agree; strict mode rejects unknown fields at any depth ------

type FCase struct {
	Kind    string   `json:"kind"`
	Doc     string   `json:"doc"` // the logical configuration as canonical JSON
	Unknown []string `json:"unknown,omitempty"`
	HasUnk  bool     `json:"has_unknown"`
	Order   []int    `json:"order"` // order in which the six (format, strict) loads are performed (loaders share process-wide state)
}

func genF(t *rapid.T) FCase {
	c := FCase{Kind: rapid.SampledFrom([]string{"client", "client", "server"}).Draw(t, "kind")}
	var tree map[string]any
	if c.Kind == "server" {
		tree = genServerTree(t)
	} else {
		tree = genClientTree(t)
	}
	b, _ := json.Marshal(tree)
	c.Doc = string(b)
	c.Order = rapid.Permutation([]int{0, 1, 2, 3, 4, 5}).Draw(t, "order")
	if rapid.IntRange(0, 2).Draw(t, "inject") == 0 {
		var nodes [][]string
		mapNodes(tree, nil, &nodes)
		var cand [][]string
		for _, n := range nodes {
			if !insideFreeMap(n) {
				cand = append(cand, n)
			}
		}
		c.Unknown = cand[rapid.IntRange(0, len(cand)-1).Draw(t, "node")]
		c.HasUnk = true
	}
	return c
}

func renderAll(tree any) (map[string][]byte, error) {
	j, err := json.Marshal(tree)
	if err != nil {
		return nil, err
	}
	y, err := yaml.JSONToYAML(j)
	if err != nil {
		return nil, err
	}
	tm, err := toml.Marshal(tree)
	if err != nil {
		return nil, err
	}
	return map[string][]byte{"json": j, "yaml": y, "toml": tm}, nil
}

func runF(c FCase) error {
	orig, err := decodeTree([]byte(c.Doc))
	if err != nil {
		return fx.Inconclusive("doc: %v", err)
	}
	want := canonJSON(orig)
	withUnknown, _ := decodeTree([]byte(c.Doc))
	if c.HasUnk {
		inject(withUnknown, c.Unknown, "zzNotAField")
	}
	docs, err := renderAll(withUnknown)
	if err != nil {
		return fx.Inconclusive("render: %v", err)
	}
	order := c.Order
	if len(order) != 6 {
		order = []int{0, 1, 2, 3, 4, 5}
	}
	fmts := []string{"json", "yaml", "toml"}
	results := map[bool]map[string]string{false: {}, true: {}}
	for _, k := range order {
		f, strict := fmts[k%3], k >= 3
		obj := newObj(c.Kind)
		e := config.LoadConfigure(docs[f], obj, strict)
		if c.HasUnk && strict {
			if e == nil {
				return fmt.Errorf("strict mode accepted the unknown key zzNotAField at %v in the %s rendering (load order %v):\n%s", c.Unknown, f, order, docs[f])
			}
			continue
		}
		if e != nil {
			return fmt.Errorf("%s rendering (strict=%v, load order %v) of a valid configuration refused: %v\n%s", f, strict, order, e, docs[f])
		}
		tr, e := structTree(obj)
		if e != nil {
			return fmt.Errorf("re-marshal: %v", e)
		}
		results[strict][f] = canonJSON(tr)
	}
	for _, strict := range []bool{false, true} {
		if c.HasUnk && strict {
			continue
		}
		r := results[strict]
		if r["json"] != r["yaml"] || r["json"] != r["toml"] {
			return fmt.Errorf("the three formats load to different structures (strict=%v):\n json %s\n yaml %s\n toml %s", strict, r["json"], r["yaml"], r["toml"])
		}
		if r["json"] != want {
			return fmt.Errorf("loaded structure differs from the document (strict=%v, unknown key %v):\n doc    %s\n loaded %s", strict, c.Unknown, want, r["json"])
		}
	}
	return nil
}

func depthOf(p []string) int { return len(p) }

func classF(c FCase) fx.Class {
	tr, _ := decodeTree([]byte(c.Doc))
	n := countLeaves(tr)
	var lab []string
	if c.HasUnk {
		lab = append(lab, fmt.Sprintf("unknown-depth=%d", min(depthOf(c.Unknown), 4)))
	}
	lab = append(lab, "kind="+c.Kind)
	return fx.Class{NonTrivial: n >= 3 || (c.HasUnk && len(c.Unknown) >= 2), Fingerprint: c.Kind + c.Doc + fmt.Sprint(c.Unknown), Labels: lab}
}

func countLeaves(v any) int {
	switch x := v.(type) {
	case map[string]any:
		n := 0
		for _, e := range x {
			n += countLeaves(e)
		}
		return n
	case []any:
		n := 0
		for _, e := range x {
			n += countLeaves(e)
		}
		return n
	}
	return 1
}

func TestFormats(t *testing.T) {
	fx.Run(t, fx.Spec[FCase]{Prop: "C18", Name: "formats", Quick: 6000, Thorough: 400000, Gen: genF, Run: runF, Class: classF})
}

// ---------- (1): client definition -> registration message -> server's reconstruction ------------------

type MCase struct {
	User  string `json:"user"`
	Proxy string `json:"proxy"` // one proxy definition, canonical JSON
}

func genM(t *rapid.T) MCase {
	ty := rapid.SampledFrom(proxyTypes).Draw(t, "type")
	p := genProxy(t, "p", ty)
	b, _ := json.Marshal(p)
	return MCase{User: rapid.SampledFrom([]string{"", "u1", "team.a"}).Draw(t, "user"), Proxy: string(b)}
}

func runM(c MCase) error {
	var tp v1.TypedProxyConfig
	v1.DisallowUnknownFieldsMu.Lock()
	v1.DisallowUnknownFields = false
	err := json.Unmarshal([]byte(c.Proxy), &tp)
	v1.DisallowUnknownFieldsMu.Unlock()
	if err != nil {
		return fmt.Errorf("client refuses a valid definition: %v\n%s", err, c.Proxy)
	}
	cl := tp.ProxyConfigurer
	cl.Complete(c.User)
	if err := validation.ValidateProxyConfigurerForClient(cl); err != nil {
		return nil // not a valid client configuration (e.g. localPort missing for a non-plugin proxy): outside the domain
	}
	var m msg.NewProxy
	cl.MarshalToMsg(&m)
	var buf bytes.Buffer
	if err := msg.WriteMsg(&buf, &m); err != nil {
		return fmt.Errorf("WriteMsg: %v", err)
	}
	rm, err := msg.ReadMsg(&buf)
	if err != nil {
		return nil // registration larger than a frame: cannot be sent at all
	}
	srvCfg := &v1.ServerConfig{VhostHTTPPort: 80, VhostHTTPSPort: 443, TCPMuxHTTPConnectPort: 1337, SubDomainHost: "frps.test"}
	srvCfg.Complete()
	sv, err := config.NewProxyConfigurerFromMsg(rm.(*msg.NewProxy), srvCfg)
	if err != nil {
		return fmt.Errorf("server refuses the registration of a definition the client accepted: %v\n%s", err, c.Proxy)
	}
	cb, sb := cl.GetBaseConfig(), sv.GetBaseConfig()
	type kv struct {
		name string
		a, b any
	}
	cmp := []kv{
		{"name", cb.Name, sb.Name}, {"type", cb.Type, sb.Type},
		{"transport.useEncryption", cb.Transport.UseEncryption, sb.Transport.UseEncryption},
		{"transport.useCompression", cb.Transport.UseCompression, sb.Transport.UseCompression},
		{"transport.bandwidthLimit(bytes)", cb.Transport.BandwidthLimit.Bytes(), sb.Transport.BandwidthLimit.Bytes()},
		{"transport.bandwidthLimitMode", cb.Transport.BandwidthLimitMode, sb.Transport.BandwidthLimitMode},
		{"loadBalancer.group", cb.LoadBalancer.Group, sb.LoadBalancer.Group}, {"loadBalancer.groupKey", cb.LoadBalancer.GroupKey, sb.LoadBalancer.GroupKey},
		{"metadatas", normMap(cb.Metadatas), normMap(sb.Metadatas)}, {"annotations", normMap(cb.Annotations), normMap(sb.Annotations)},
	}
	switch cc := cl.(type) {
	case *v1.TCPProxyConfig:
		cmp = append(cmp, kv{"remotePort", cc.RemotePort, sv.(*v1.TCPProxyConfig).RemotePort})
	case *v1.UDPProxyConfig:
		cmp = append(cmp, kv{"remotePort", cc.RemotePort, sv.(*v1.UDPProxyConfig).RemotePort})
	case *v1.HTTPProxyConfig:
		s := sv.(*v1.HTTPProxyConfig)
		cmp = append(cmp, kv{"customDomains", normList(cc.CustomDomains), normList(s.CustomDomains)}, kv{"subdomain", cc.SubDomain, s.SubDomain},
			kv{"locations", normList(cc.Locations), normList(s.Locations)}, kv{"httpUser", cc.HTTPUser, s.HTTPUser}, kv{"httpPassword", cc.HTTPPassword, s.HTTPPassword},
			kv{"hostHeaderRewrite", cc.HostHeaderRewrite, s.HostHeaderRewrite}, kv{"requestHeaders.set", normMap(cc.RequestHeaders.Set), normMap(s.RequestHeaders.Set)},
			kv{"responseHeaders.set", normMap(cc.ResponseHeaders.Set), normMap(s.ResponseHeaders.Set)}, kv{"routeByHTTPUser", cc.RouteByHTTPUser, s.RouteByHTTPUser})
	case *v1.HTTPSProxyConfig:
		s := sv.(*v1.HTTPSProxyConfig)
		cmp = append(cmp, kv{"customDomains", normList(cc.CustomDomains), normList(s.CustomDomains)}, kv{"subdomain", cc.SubDomain, s.SubDomain})
	case *v1.TCPMuxProxyConfig:
		s := sv.(*v1.TCPMuxProxyConfig)
		cmp = append(cmp, kv{"customDomains", normList(cc.CustomDomains), normList(s.CustomDomains)}, kv{"subdomain", cc.SubDomain, s.SubDomain},
			kv{"multiplexer", cc.Multiplexer, s.Multiplexer}, kv{"httpUser", cc.HTTPUser, s.HTTPUser}, kv{"httpPassword", cc.HTTPPassword, s.HTTPPassword},
			kv{"routeByHTTPUser", cc.RouteByHTTPUser, s.RouteByHTTPUser})
	case *v1.STCPProxyConfig:
		s := sv.(*v1.STCPProxyConfig)
		cmp = append(cmp, kv{"secretKey", cc.Secretkey, s.Secretkey}, kv{"allowUsers", normList(cc.AllowUsers), normList(s.AllowUsers)})
	case *v1.XTCPProxyConfig:
		s := sv.(*v1.XTCPProxyConfig)
		cmp = append(cmp, kv{"secretKey", cc.Secretkey, s.Secretkey}, kv{"allowUsers", normList(cc.AllowUsers), normList(s.AllowUsers)})
	case *v1.SUDPProxyConfig:
		s := sv.(*v1.SUDPProxyConfig)
		cmp = append(cmp, kv{"secretKey", cc.Secretkey, s.Secretkey}, kv{"allowUsers", normList(cc.AllowUsers), normList(s.AllowUsers)})
	}
	for _, x := range cmp {
		if !reflect.DeepEqual(x.a, x.b) {
			return fmt.Errorf("%s proxy %q: field %s is %v at the client and %v at the server\n%s", cb.Type, cb.Name, x.name, x.a, x.b, c.Proxy)
		}
	}
	return nil
}

func normMap(m map[string]string) map[string]string {
	if len(m) == 0 {
		return nil
	}
	return m
}

func normList(l []string) []string {
	if len(l) == 0 {
		return nil
	}
	return l
}

func classM(c MCase) fx.Class {
	tr, _ := decodeTree([]byte(c.Proxy))
	m, _ := tr.(map[string]any)
	ty, _ := m["type"].(string)
	return fx.Class{NonTrivial: countLeaves(tr) >= 5, Fingerprint: c.User + c.Proxy, Labels: []string{"type=" + ty}}
}

func TestMsgRoundTrip(t *testing.T) {
	fx.Run(t, fx.Spec[MCase]{Prop: "C18", Name: "msg_roundtrip", Quick: 12000, Thorough: 600000, Gen: genM, Run: runM, Class: classM})
}
