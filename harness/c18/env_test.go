package c18

import (
	"fmt"
	"os"
	"strings"
	"testing"

	"github.com/fatedier/frp/pkg/config"
	"pgregory.net/rapid"

	"verifharness/fx"
)

// env_template: a templated document renders to exactly the document with the PROCESS environment written out.
// The variables are put into the environment by the driver before the test binary starts, because frp snapshots
// the environment when the package is initialised; values contain '=', base64 padding, spaces, or nothing.
type ECase struct {
	Format string   `json:"format"` // toml yaml json
	Vars   []string `json:"vars"`   // environment variable names used, in order
}

var envNames = []string{"VERIF_ENV_PLAIN", "VERIF_ENV_EQ", "VERIF_ENV_B64", "VERIF_ENV_LEAD", "VERIF_ENV_SPACE", "VERIF_ENV_EMPTY"}

func genE(t *rapid.T) ECase {
	c := ECase{Format: rapid.SampledFrom([]string{"toml", "yaml", "json"}).Draw(t, "format")}
	n := rapid.IntRange(1, 4).Draw(t, "n")
	for i := 0; i < n; i++ {
		c.Vars = append(c.Vars, rapid.SampledFrom(envNames).Draw(t, fmt.Sprintf("v%d", i)))
	}
	return c
}

func renderDoc(c ECase, value func(name string) string) string {
	var b strings.Builder
	switch c.Format {
	case "toml":
		for i, v := range c.Vars {
			fmt.Fprintf(&b, "k%d = \"%s\"\n", i, value(v))
		}
	case "yaml":
		for i, v := range c.Vars {
			fmt.Fprintf(&b, "k%d: \"%s\"\n", i, value(v))
		}
	default:
		b.WriteString("{")
		for i, v := range c.Vars {
			if i > 0 {
				b.WriteString(", ")
			}
			fmt.Fprintf(&b, "\"k%d\": \"%s\"", i, value(v))
		}
		b.WriteString("}\n")
	}
	return b.String()
}

func runE(c ECase) error {
	if _, ok := os.LookupEnv("VERIF_ENV_EQ"); !ok {
		return fx.Inconclusive("the driver did not provide the VERIF_ENV_* variables")
	}
	tpl := renderDoc(c, func(n string) string { return "{{ .Envs." + n + " }}" })
	want := renderDoc(c, os.Getenv)
	got, err := config.RenderWithTemplate([]byte(tpl), config.GetValues())
	if err != nil {
		return fmt.Errorf("template %q: %v", tpl, err)
	}
	if string(got) != want {
		return fmt.Errorf("%s document with environment values written out:\n%s\nrendered from the template as:\n%s", c.Format, want, got)
	}
	return nil
}

func TestEnvTemplate(t *testing.T) {
	fx.Run(t, fx.Spec[ECase]{Prop: "C18", Name: "env_template", Quick: 800, Thorough: 20000, Gen: genE, Run: runE,
		Class: func(c ECase) fx.Class {
			nt := false
			for _, v := range c.Vars {
				if v != "VERIF_ENV_PLAIN" {
					nt = true
				}
			}
			return fx.Class{NonTrivial: nt, Fingerprint: fmt.Sprintf("%+v", c), Labels: []string{"format=" + c.Format}}
		}})
}
