package c18

import (
	"fmt"
	"strings"
	"sync"
	"testing"

	"github.com/fatedier/frp/pkg/config"
	v1 "github.com/fatedier/frp/pkg/config/v1"
	"pgregory.net/rapid"

	"verifharness/fx"
)

// concurrent_strict: the strict / tolerant decision belongs to each load. Loads that overlap in time (config_dir
// loads one file per goroutine, the admin API reloads with a strictness of its own) must each behave as if alone:
// strict refuses an unknown key nested in a proxy / visitor / plugin block, tolerant accepts the same document.
type CSCase struct {
	Format  string `json:"format"` // toml yaml json
	Where   string `json:"where"`  // proxy | plugin | visitor
	Proxies int    `json:"proxies"`
	Workers int    `json:"workers"`
}

func genCS(t *rapid.T) CSCase {
	return CSCase{Format: rapid.SampledFrom([]string{"toml", "yaml", "json"}).Draw(t, "format"), Where: rapid.SampledFrom([]string{"proxy", "plugin", "visitor"}).Draw(t, "where"),
		Proxies: rapid.SampledFrom([]int{1, 20, 120}).Draw(t, "proxies"), Workers: rapid.IntRange(2, 6).Draw(t, "workers")}
}

func csDoc(c CSCase) []byte {
	var b strings.Builder
	switch c.Format {
	case "json":
		b.WriteString(`{"serverAddr":"127.0.0.1","proxies":[`)
		for i := 0; i < c.Proxies; i++ {
			if i > 0 {
				b.WriteString(",")
			}
			extra, plugin := "", ""
			if i == c.Proxies-1 && c.Where == "proxy" {
				extra = `,"zzUnknown":1`
			}
			if i == c.Proxies-1 && c.Where == "plugin" {
				plugin = `,"plugin":{"type":"static_file","localPath":"/tmp","zzUnknown":1}`
			}
			fmt.Fprintf(&b, `{"name":"p%d","type":"tcp","localPort":%d,"remotePort":%d%s%s}`, i, 1000+i, 2000+i, extra, plugin)
		}
		b.WriteString(`],"visitors":[{"name":"v","type":"stcp","serverName":"s","bindPort":-1`)
		if c.Where == "visitor" {
			b.WriteString(`,"zzUnknown":1`)
		}
		b.WriteString(`}]}`)
	case "yaml":
		b.WriteString("serverAddr: 127.0.0.1\nproxies:\n")
		for i := 0; i < c.Proxies; i++ {
			fmt.Fprintf(&b, "- name: p%d\n  type: tcp\n  localPort: %d\n  remotePort: %d\n", i, 1000+i, 2000+i)
			if i == c.Proxies-1 && c.Where == "proxy" {
				b.WriteString("  zzUnknown: 1\n")
			}
			if i == c.Proxies-1 && c.Where == "plugin" {
				b.WriteString("  plugin:\n    type: static_file\n    localPath: /tmp\n    zzUnknown: 1\n")
			}
		}
		b.WriteString("visitors:\n- name: v\n  type: stcp\n  serverName: s\n  bindPort: -1\n")
		if c.Where == "visitor" {
			b.WriteString("  zzUnknown: 1\n")
		}
	default:
		b.WriteString("serverAddr = \"127.0.0.1\"\n")
		for i := 0; i < c.Proxies; i++ {
			fmt.Fprintf(&b, "[[proxies]]\nname = \"p%d\"\ntype = \"tcp\"\nlocalPort = %d\nremotePort = %d\n", i, 1000+i, 2000+i)
			if i == c.Proxies-1 && c.Where == "proxy" {
				b.WriteString("zzUnknown = 1\n")
			}
			if i == c.Proxies-1 && c.Where == "plugin" {
				b.WriteString("[proxies.plugin]\ntype = \"static_file\"\nlocalPath = \"/tmp\"\nzzUnknown = 1\n")
			}
		}
		b.WriteString("[[visitors]]\nname = \"v\"\ntype = \"stcp\"\nserverName = \"s\"\nbindPort = -1\n")
		if c.Where == "visitor" {
			b.WriteString("zzUnknown = 1\n")
		}
	}
	return []byte(b.String())
}

func runCS(c CSCase) error {
	doc := csDoc(c)
	load := func(strict bool) error {
		var cfg v1.ClientConfig
		return config.LoadConfigure(doc, &cfg, strict)
	}
	// alone: strict refuses, tolerant accepts
	if e := load(true); e == nil {
		return fx.Inconclusive("strict load accepts the %s document with a nested unknown key when alone (format rendering?)", c.Format)
	}
	if e := load(false); e != nil {
		return fx.Inconclusive("tolerant load refuses the document when alone: %v", e)
	}
	var wg sync.WaitGroup
	errs := make(chan error, c.Workers)
	for w := 0; w < c.Workers; w++ {
		wg.Add(1)
		go func(w int) {
			defer wg.Done()
			strict := w%2 == 0
			for k := 0; k < 60; k++ {
				e := load(strict)
				if strict && e == nil {
					errs <- fmt.Errorf("a strict load accepted the unknown key nested in a %s block (%s, %d proxies) while %d other loads were running", c.Where, c.Format, c.Proxies, c.Workers-1)
					return
				}
				if !strict && e != nil {
					errs <- fmt.Errorf("a tolerant load refused the document (%v) while %d other loads were running (%s, unknown key in a %s block)", e, c.Workers-1, c.Format, c.Where)
					return
				}
			}
		}(w)
	}
	wg.Wait()
	select {
	case e := <-errs:
		return e
	default:
		return nil
	}
}

func TestConcurrentStrict(t *testing.T) {
	fx.Run(t, fx.Spec[CSCase]{Prop: "C18", Name: "concurrent_strict", Journal: true, Quick: 160, Thorough: 3000, Gen: genCS, Run: runCS,
		Class: func(c CSCase) fx.Class { return fx.Class{NonTrivial: true, Fingerprint: fmt.Sprintf("%+v", c), Labels: []string{"format=" + c.Format, "where=" + c.Where}} }})
}
