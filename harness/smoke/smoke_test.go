package smoke

import (
	"bufio"
	"net"
	"testing"
	"time"
	"fmt"

	"github.com/fatedier/frp/pkg/msg"
	"verifharness/fx"
)

func TestSmoke(t *testing.T) {
	for i := 0; i < 3; i++ {
		t0 := time.Now()
		s, err := fx.StartServer()
		if err != nil { t.Fatal(err) }
		sc, err := fx.ConnectCommon(fx.ScriptedCommon(s), "u", "", 1, fx.TagWork("A"))
		if err != nil { t.Fatal(err) }
		resp, err := sc.NewProxy(&msg.NewProxy{ProxyName: "p1", ProxyType: "tcp", RemotePort: s.AllowPort(0)}, 3*time.Second)
		if err != nil { t.Fatal(err) }
		fmt.Println("resp", resp.RemoteAddr, resp.Error, time.Since(t0))
		c, err := net.Dial("tcp", fmt.Sprintf("127.0.0.1:%d", s.AllowPort(0)))
		if err != nil { t.Fatal(err) }
		line, err := bufio.NewReader(c).ReadString('\n')
		fmt.Println("line", line, err, time.Since(t0))
		c.Close()
		sc.Close()
		fmt.Println("sc closed", time.Since(t0))
		s.Svc.Close()
		fmt.Println("svc closed", time.Since(t0))
		time.Sleep(300*time.Millisecond)
		s.Close()
		fmt.Println("closed", time.Since(t0))
	}
}
