package c15

import (
	"fmt"
	"net"
	"strings"
	"testing"
	"time"

	v1 "github.com/fatedier/frp/pkg/config/v1"
	"github.com/fatedier/frp/pkg/msg"
	"github.com/fatedier/frp/pkg/util/util"
	"pgregory.net/rapid"

	"verifharness/fx"
)

// ---- (c) call sites in a real frps ---------------------------------------------------------------

type CCase struct {
	Chain []PluginSpec `json:"chain"`
	Kind  string       `json:"kind"` // tcp | tcpmux | stcp
	End   string       `json:"end"`  // close | drop | relogin (the session is replaced by a login with its run id)
	Users int          `json:"users"`
	Scope bool         `json:"scope"` // server checks credentials of work connections (NewWorkConns scope): an edited key must be what is checked
	HB    bool         `json:"hb"`    // heartbeatTimeout 2 s: refused heartbeats must not keep the session alive, accepted ones must
	Extra int          `json:"extra"` // further proxies of the same session (only when no plugin edits or refuses NewProxy): each gets its own CloseProxy notification at the end
}

func genC(t *rapid.T) CCase {
	c := CCase{Chain: genChain(t), Kind: rapid.SampledFrom([]string{"tcp", "tcp", "tcpmux", "stcp"}).Draw(t, "kind"),
		End: rapid.SampledFrom([]string{"close", "drop", "relogin"}).Draw(t, "end"), Users: rapid.IntRange(1, 2).Draw(t, "users"), Scope: rapid.Bool().Draw(t, "scope"),
		Extra: rapid.SampledFrom([]int{0, 0, 2, 3, 5}).Draw(t, "extra"), HB: rapid.IntRange(0, 2).Draw(t, "hb") == 0}
	// calls that go wrong at Login end the script early: keep most chains login-friendly
	if rapid.IntRange(0, 3).Draw(t, "loginfriendly") != 0 {
		for i := range c.Chain {
			if !isAccept(c.Chain[i].Outcome["Login"]) {
				c.Chain[i].Outcome["Login"] = "accept"
			}
		}
	}
	return c
}

func runC(c CCase) error {
	st := getStub()
	ep := st.reset(c.Chain)
	s, err := fx.StartServer(fx.WithTCPMux(false), fx.WithCfg(func(sc *v1.ServerConfig, b *fx.Block) {
		sc.UserConnTimeout = 1
		if c.HB {
			sc.Transport.HeartbeatTimeout = 2
		}
		if c.Scope {
			sc.Auth.AdditionalScopes = []v1.AuthScope{v1.AuthScopeNewWorkConns}
		}
		for i, p := range c.Chain {
			sc.HTTPPlugins = append(sc.HTTPPlugins, v1.HTTPPluginOptions{Name: fmt.Sprintf("p%d", i), Addr: st.srv.Listener.Addr().String(), Path: pluginPath(ep, i), Ops: p.Ops})
		}
	}))
	if err != nil {
		return err
	}
	defer s.Close()
	callsFor := func(op string) []call {
		var out []call
		for _, cl := range st.snapshot() {
			if cl.Op == op {
				out = append(out, cl)
			}
		}
		return out
	}
	checkConsulted := func(op string, from int, want []int, what string) error {
		cs := callsFor(op)
		var got []int
		for _, cl := range cs[min(from, len(cs)):] {
			got = append(got, cl.Plugin)
		}
		if fmt.Sprint(got) != fmt.Sprint(want) {
			return fmt.Errorf("%s: plugins consulted for %s: %v, expected %v", what, op, got, want)
		}
		return nil
	}

	// ---- Login
	cons, _, allowed, finalUser := expect(c.Chain, "Login", "usr")
	sc, lerr := connectSigned(s, c.Scope)
	if e := checkConsulted("Login", 0, cons, "login"); e != nil {
		if sc != nil {
			sc.Close()
		}
		return e
	}
	if allowed != (lerr == nil) {
		if sc != nil {
			sc.Close()
		}
		return fmt.Errorf("login with plugin outcomes %v: accepted=%v (%v), expected %v", outcomesFor(c.Chain, "Login"), lerr == nil, lerr, allowed)
	}
	if !allowed {
		if snap := s.Snapshot(); snap != nil && len(snap.Sessions) != 0 {
			return fmt.Errorf("login refused by a plugin but a session exists: %v", snap.Sessions)
		}
		return nil
	}
	defer sc.Close()

	// ---- NewProxy
	name0 := "px"
	np := &msg.NewProxy{ProxyName: name0, ProxyType: c.Kind}
	switch c.Kind {
	case "tcp":
		np.RemotePort = s.AllowPort(0)
	case "tcpmux":
		np.CustomDomains, np.Multiplexer = []string{"px.test"}, "httpconnect"
	case "stcp":
		np.Sk, np.AllowUsers = "sk", []string{"*"}
	}
	cons, _, allowed, finalName := expect(c.Chain, "NewProxy", name0)
	if e := sc.Send(np); e != nil {
		return fx.Inconclusive("send: %v", e)
	}
	// the response carries the (possibly edited) name: wait for either
	var resp *msg.NewProxyResp
	deadline := time.Now().Add(5 * time.Second)
	for resp == nil && time.Now().Before(deadline) {
		for _, n := range []string{finalName, name0} {
			if r, _ := sc.PeekProxyResp(n); r != nil {
				resp = r
			}
		}
		time.Sleep(2 * time.Millisecond)
	}
	if resp == nil {
		return fmt.Errorf("no NewProxyResp under name %q or %q", finalName, name0)
	}
	if e := checkConsulted("NewProxy", 0, cons, "registration"); e != nil {
		return e
	}
	for _, cl := range callsFor("NewProxy") {
		u, _ := cl.Content["user"].(map[string]any)
		if got, _ := u["user"].(string); got != finalUser {
			return fmt.Errorf("NewProxy plugin p%d saw user %q, the login plugins edited it to %q", cl.Plugin, got, finalUser)
		}
	}
	if allowed != (resp.Error == "") {
		return fmt.Errorf("registration with plugin outcomes %v: accepted=%v (%q), expected %v", outcomesFor(c.Chain, "NewProxy"), resp.Error == "", resp.Error, allowed)
	}
	if !allowed {
		if snap := s.Snapshot(); snap != nil && len(snap.Proxies) != 0 {
			return fmt.Errorf("registration refused by a plugin but a proxy exists: %v", snap.Proxies)
		}
		return nil
	}
	if resp.ProxyName != finalName {
		return fmt.Errorf("server registered the proxy as %q, the plugins edited the name to %q", resp.ProxyName, finalName)
	}
	if snap := s.Snapshot(); snap != nil && (len(snap.Proxies) != 1 || snap.Proxies[0] != finalName) {
		return fmt.Errorf("server's proxy table %v, expected [%s]", snap.Proxies, finalName)
	}

	// ---- Ping
	cons, _, allowed, _ = expect(c.Chain, "Ping", "")
	pong, e := sc.Ping(&msg.Ping{}, 5*time.Second)
	if e != nil {
		return fmt.Errorf("no pong: %v", e)
	}
	if e := checkConsulted("Ping", 0, cons, "ping"); e != nil {
		return e
	}
	if allowed != (pong.Error == "") {
		return fmt.Errorf("ping with plugin outcomes %v: accepted=%v (%q), expected %v", outcomesFor(c.Chain, "Ping"), pong.Error == "", pong.Error, allowed)
	}

	if !allowed && c.HB {
		// a heartbeat the plugins refuse is a refused operation: it must not count as a sign of life. A peer that goes
		// on pinging (and ignores the error answers) is gone once the heartbeat timeout (2 s) has passed.
		stop := time.Now().Add(7 * time.Second)
		for time.Now().Before(stop) {
			if e := sc.Send(&msg.Ping{}); e != nil {
				break
			}
			if sc.WaitControlClosed(300*time.Millisecond) == nil {
				break
			}
		}
		if e := sc.WaitControlClosed(100 * time.Millisecond); e != nil {
			return fmt.Errorf("every heartbeat is refused by the Ping plugins (%v), heartbeatTimeout is 2 s, and the session is still alive 7 s later: refused heartbeats keep it alive", outcomesFor(c.Chain, "Ping"))
		}
		return nil
	}
	if c.HB {
		// accepted heartbeats keep the session alive for the rest of the script
		stopHB := make(chan struct{})
		defer close(stopHB)
		go func() {
			for {
				select {
				case <-stopHB:
					return
				case <-time.After(400 * time.Millisecond):
					_ = sc.Send(&msg.Ping{})
				}
			}
		}()
	}

	// ---- user connections: NewUserConn then NewWorkConn
	var vis *fx.ScriptedClient
	for u := 0; u < c.Users; u++ {
		ucFrom, wcFrom := len(callsFor("NewUserConn")), len(callsFor("NewWorkConn"))
		consU, _, allowU, _ := expect(c.Chain, "NewUserConn", finalName)
		consW, _, allowW, finalKey := expect(c.Chain, "NewWorkConn", "")
		if c.Scope && allowW && finalKey != "" {
			// the plugins edited the (valid) key: the server has to check the EDITED key, which is invalid
			allowW = false
		}
		req0 := sc.ReqWorkCount()
		var conn net.Conn
		var line string
		var rerr error
		switch c.Kind {
		case "tcp":
			conn, rerr = net.DialTimeout("tcp", fmt.Sprintf("127.0.0.1:%d", s.AllowPort(0)), 2*time.Second)
			if rerr != nil {
				return fmt.Errorf("proxy port not listening: %v", rerr)
			}
			line, rerr = fx.ReadLine(conn, 4*time.Second)
		case "tcpmux":
			stt, cc, br, e := fx.HTTPConnect(s.Addr(fx.SlotTCPMux), "px.test", nil, 4*time.Second)
			if e != nil || stt != 200 {
				rerr = fmt.Errorf("connect %d %v", stt, e)
			} else {
				conn = cc
				_ = cc.SetReadDeadline(time.Now().Add(4 * time.Second))
				line, rerr = br.ReadString('\n')
				line = strings.TrimSpace(line)
			}
		case "stcp":
			if vis == nil {
				// the visitor's own login goes through the Login plugins as well
				before := len(callsFor("Login"))
				vis, e = fx.ConnectCommon(fx.ScriptedCommon(s), "usr", "", 0, nil)
				if e != nil {
					return fmt.Errorf("visitor login refused although the same chain accepted the owner: %v", e)
				}
				defer vis.Close()
				_ = before
			}
			cc, vresp, e := vis.VisitorConn(fx.SignedVisitor(vis.RunID, finalName, "sk"), 4*time.Second)
			if e != nil || vresp.Error != "" {
				return fmt.Errorf("visitor refused: %v %+v", e, vresp)
			}
			conn = cc
			line, rerr = fx.ReadLine(conn, 4*time.Second)
		}
		if conn != nil {
			conn.Close()
		}
		time.Sleep(20 * time.Millisecond)
		if e := checkConsulted("NewUserConn", ucFrom, consU, "user connection"); e != nil {
			return e
		}
		if !allowU {
			if rerr == nil {
				return fmt.Errorf("user connection rejected by a NewUserConn plugin (%v) was bridged: %q", outcomesFor(c.Chain, "NewUserConn"), line)
			}
			if sc.ReqWorkCount() != req0 {
				return fmt.Errorf("user connection rejected by a NewUserConn plugin still made the server ask for a work connection")
			}
			continue
		}
		if e := checkConsulted("NewWorkConn", wcFrom, consW, "work connection"); e != nil {
			// the server may ask again after a refused work connection: accept repetitions of the expected prefix
			cs := callsFor("NewWorkConn")
			ok := len(consW) > 0 && (len(cs)-wcFrom)%len(consW) == 0
			for k, cl := range cs[min(wcFrom, len(cs)):] {
				if len(consW) == 0 || cl.Plugin != consW[k%len(consW)] {
					ok = false
				}
			}
			if !ok {
				return e
			}
		}
		if allowW != (rerr == nil) {
			return fmt.Errorf("user connection with NewWorkConn plugin outcomes %v: bridged=%v (%q, %v), expected %v", outcomesFor(c.Chain, "NewWorkConn"), rerr == nil, line, rerr, allowW)
		}
		if rerr == nil && line != "T:"+finalName {
			return fmt.Errorf("user connection answered %q, expected T:%s", line, finalName)
		}
	}

	// ---- end: CloseProxy notifications for every proxy that stops
	consCP, _, _, _ := expect(c.Chain, "CloseProxy", finalName)
	// further proxies of the session, registered only when the chain leaves NewProxy alone
	var extras []string
	plain := true
	for _, p := range c.Chain {
		if supports(p, "NewProxy") && p.Outcome["NewProxy"] != "accept" {
			plain = false
		}
	}
	if plain && c.End != "close" {
		for k := 0; k < c.Extra; k++ {
			n := fmt.Sprintf("extra-%d", k)
			if r, e := sc.NewProxy(&msg.NewProxy{ProxyName: n, ProxyType: "stcp", Sk: "sk"}, 5*time.Second); e == nil && r.Error == "" {
				extras = append(extras, n)
			}
		}
	}
	from := len(callsFor("CloseProxy"))
	if c.End == "close" {
		_ = sc.CloseProxy(finalName)
		_ = sc.Sync(3 * time.Second)
	} else if c.End == "relogin" {
		// the session is replaced: a second login with its run id. Only when the plugins leave logins alone;
		// otherwise (or when that login fails) the session is dropped instead.
		loginPlain := true
		for _, p := range c.Chain {
			if supports(p, "Login") && p.Outcome["Login"] != "accept" {
				loginPlain = false
			}
		}
		replaced := false
		if loginPlain {
			sc.StopAuto()
			if sc2, e := fx.ConnectCommon(fx.ScriptedCommon(s), "usr", sc.RunID, 0, nil); e == nil {
				defer sc2.Close()
				replaced = true
				fx.AddLabel("call_sites", "session-replaced-by-relogin", 1)
			}
		}
		if !replaced {
			sc.Close()
		}
	} else {
		sc.Close()
	}
	wantCalls := len(consCP) * (1 + len(extras))
	deadline = time.Now().Add(4 * time.Second)
	for {
		if len(callsFor("CloseProxy"))-from >= wantCalls || time.Now().After(deadline) {
			break
		}
		time.Sleep(3 * time.Millisecond)
	}
	time.Sleep(20 * time.Millisecond)
	if len(extras) == 0 {
		if e := checkConsulted("CloseProxy", from, consCP, "proxy stopped by "+c.End); e != nil {
			return e
		}
		for _, cl := range callsFor("CloseProxy")[from:] {
			if n, _ := cl.Content["proxy_name"].(string); n != finalName {
				return fmt.Errorf("CloseProxy notification names %q, the proxy was registered as %q", n, finalName)
			}
		}
	} else {
		// the session ended with several proxies: every consulted plugin hears about each of them exactly once
		live := append([]string{finalName}, extras...)
		for _, pi := range consCP {
			seen := map[string]int{}
			for _, cl := range callsFor("CloseProxy")[from:] {
				if cl.Plugin == pi {
					n, _ := cl.Content["proxy_name"].(string)
					seen[n]++
				}
			}
			for _, n := range live {
				if seen[n] != 1 {
					return fmt.Errorf("session ended with proxies %v: plugin p%d received %d CloseProxy notifications for %q (all it received: %v)", live, pi, seen[n], n, seen)
				}
			}
			if len(seen) != len(live) {
				return fmt.Errorf("session ended with proxies %v: plugin p%d received CloseProxy notifications for %v", live, pi, seen)
			}
		}
	}
	// ---- no stub was consulted for an operation it did not register
	for _, cl := range st.snapshot() {
		if cl.Plugin < len(c.Chain) && !supports(c.Chain[cl.Plugin], cl.Op) {
			return fmt.Errorf("plugin p%d is not registered for %s but was consulted", cl.Plugin, cl.Op)
		}
	}
	return nil
}

func classC(c CCase) fx.Class {
	n := 0
	for _, p := range c.Chain {
		for _, op := range p.Ops {
			if p.Outcome[op] != "accept" {
				n++
			}
		}
	}
	var sig []string
	for _, op := range allOps {
		sig = append(sig, fmt.Sprint(outcomesFor(c.Chain, op)))
	}
	return fx.Class{NonTrivial: len(c.Chain) >= 2 && n >= 1, Fingerprint: fmt.Sprint(c.Kind, c.End, c.Users, c.HB, sig), Labels: []string{"kind=" + c.Kind, "end=" + c.End, fmt.Sprint("hb=", c.HB)}}
}

func TestCallSites(t *testing.T) {
	fx.Prelease(3)
	fx.Run(t, fx.Spec[CCase]{Prop: "C15", Name: "call_sites", Quick: 320, Thorough: 10000, Gen: genC, Run: runC, Class: classC, Journal: true, ShrinkTime: "40s"})
}

// connectSigned logs in; with the NewWorkConns scope its work connections carry a valid key.
func connectSigned(s *fx.Server, scope bool) (*fx.ScriptedClient, error) {
	sc, err := fx.Dial(fx.ScriptedCommon(s))
	if err != nil {
		return nil, err
	}
	sc.AutoWork = fx.TagWork("T")
	if scope {
		sc.SignWork = func(m *msg.NewWorkConn) {
			m.Timestamp = time.Now().Unix()
			m.PrivilegeKey = util.GetAuthKey(fx.Token, m.Timestamp)
		}
	}
	if err := sc.SendLogin(sc.LoginMsg("usr", "", 0)); err != nil {
		sc.Close()
		return nil, err
	}
	return sc, nil
}
