// Package c15: server plugins gate every operation, fail closed, and see each other's edits.
package c15

import (
	"encoding/json"
	"fmt"
	"io"
	"net"
	"net/http"
	"net/http/httptest"
	"strconv"
	"sync"
	"testing"
	"time"

	v1 "github.com/fatedier/frp/pkg/config/v1"
	"github.com/fatedier/frp/pkg/msg"
	plugin "github.com/fatedier/frp/pkg/plugin/server"
	"pgregory.net/rapid"

	"verifharness/fx"
)

func TestMain(m *testing.M) { fx.Main(m, "C15") }

var allOps = []string{"Login", "NewProxy", "CloseProxy", "Ping", "NewWorkConn", "NewUserConn"}

// outcomes of one plugin for one consultation
var outcomes = []string{"accept", "accept", "accept", "modify", "modify", "scrub", "scrub", "reject", "reject-unchange", "http500", "http404", "http302", "reset", "badjson", "wrongtypes", "emptybody", "truncated", "trailing", "trailing-reject"}

type PluginSpec struct {
	Ops     []string          `json:"ops"`
	Outcome map[string]string `json:"outcome"` // op -> outcome
}

// ---- stub plugin server: records every consultation and answers per script ------------------

type call struct {
	Plugin  int
	Op      string
	Content map[string]any
}

type stub struct {
	mu    sync.Mutex
	specs []PluginSpec
	calls []call
	epoch int
	srv   *httptest.Server
}

var (
	stubOnce sync.Once
	theStub  *stub
)

func getStub() *stub {
	stubOnce.Do(func() {
		st := &stub{}
		st.srv = httptest.NewServer(http.HandlerFunc(st.handle))
		theStub = st
	})
	return theStub
}

// reset starts a new case and returns its epoch: every plugin path of the case carries it, and calls that still arrive
// from the server of an earlier case (session-end notifications are sent asynchronously) are answered 404 and ignored.
func (st *stub) reset(specs []PluginSpec) int {
	st.mu.Lock()
	defer st.mu.Unlock()
	st.epoch++
	st.specs, st.calls = specs, nil
	return st.epoch
}

func pluginPath(epoch, i int) string { return fmt.Sprintf("/e%d/p%d", epoch, i) }

func (st *stub) snapshot() []call {
	st.mu.Lock()
	defer st.mu.Unlock()
	return append([]call(nil), st.calls...)
}

// mark appends the plugin's marker to the field this op is identified by
func markField(op string) []string {
	switch op {
	case "Login":
		return []string{"user"}
	case "NewProxy", "CloseProxy", "NewUserConn":
		return []string{"proxy_name"}
	case "Ping", "NewWorkConn":
		return []string{"privilege_key"}
	}
	return nil
}

func (st *stub) handle(w http.ResponseWriter, r *http.Request) {
	var ep, idx int
	if n, _ := fmt.Sscanf(r.URL.Path, "/e%d/p%d", &ep, &idx); n != 2 || r.Method != "POST" {
		w.WriteHeader(404) // e.g. the target of the 302 outcome
		return
	}
	st.mu.Lock()
	stale := ep != st.epoch
	st.mu.Unlock()
	if stale {
		w.WriteHeader(404)
		return
	}
	body, _ := io.ReadAll(r.Body)
	var req struct {
		Version string         `json:"version"`
		Op      string         `json:"op"`
		Content map[string]any `json:"content"`
	}
	_ = json.Unmarshal(body, &req)
	st.mu.Lock()
	if ep != st.epoch { // the case this call belongs to ended while its body was being read
		st.mu.Unlock()
		w.WriteHeader(404)
		return
	}
	out := "accept"
	if idx < len(st.specs) {
		if o, ok := st.specs[idx].Outcome[req.Op]; ok {
			out = o
		}
	}
	var rec struct {
		Content map[string]any `json:"content"`
	}
	_ = json.Unmarshal(body, &rec) // an independent copy: "modify" below edits req.Content
	st.calls = append(st.calls, call{idx, req.Op, rec.Content})
	st.mu.Unlock()
	switch out {
	case "accept":
		_, _ = w.Write([]byte(`{"reject":false,"unchange":true}`))
	case "modify":
		c := req.Content
		for _, f := range markField(req.Op) {
			s, _ := c[f].(string)
			c[f] = s + fmt.Sprintf("+p%d", idx)
		}
		b, _ := json.Marshal(map[string]any{"reject": false, "unchange": false, "content": c})
		_, _ = w.Write(b)
	case "scrub":
		// an edit that REMOVES something: the entry "role" of the metas map, and nothing else
		c := req.Content
		if metas, ok := c["metas"].(map[string]any); ok {
			delete(metas, "role")
		}
		b, _ := json.Marshal(map[string]any{"reject": false, "unchange": false, "content": c})
		_, _ = w.Write(b)
	case "reject":
		_, _ = w.Write([]byte(`{"reject":true,"reject_reason":"no"}`))
	case "reject-unchange":
		_, _ = w.Write([]byte(`{"reject":true,"reject_reason":"no","unchange":true}`))
	case "http500":
		w.WriteHeader(500)
		_, _ = w.Write([]byte(`{"reject":false,"unchange":true}`))
	case "http404":
		w.WriteHeader(404)
		_, _ = w.Write([]byte(`{"reject":false,"unchange":true}`))
	case "http302":
		w.Header().Set("Location", "/nowhere-"+strconv.Itoa(idx))
		w.WriteHeader(302)
	case "reset":
		if hj, ok := w.(http.Hijacker); ok {
			c, _, _ := hj.Hijack()
			if tc, ok := c.(*net.TCPConn); ok {
				_ = tc.SetLinger(0)
			}
			c.Close()
		}
	case "badjson":
		_, _ = w.Write([]byte(`{"reject":false,"unchange":tru`))
	case "wrongtypes":
		_, _ = w.Write([]byte(`{"reject":"no","unchange":1}`))
	case "trailing": // a complete accepting object followed by more bytes: not a valid JSON document
		_, _ = w.Write([]byte(`{"reject":false,"unchange":true}<html>502 Bad Gateway</html>`))
	case "trailing-reject":
		_, _ = w.Write([]byte(`{"reject":false,"unchange":true}{"reject":true,"reject_reason":"second opinion"}`))
	case "emptybody":
		w.WriteHeader(200)
	case "truncated":
		w.Header().Set("Content-Length", "100")
		_, _ = w.Write([]byte(`{"reject":false,`))
	}
}

func isAccept(o string) bool { return o == "accept" || o == "modify" || o == "scrub" }

// ---- (a)+(b): Manager with real HTTP plugins against the stub server ------------------------------

type MCase struct {
	Chain []PluginSpec `json:"chain"`
	Op    string       `json:"op"`
}

func genChain(t *rapid.T) []PluginSpec {
	n := rapid.IntRange(0, 4).Draw(t, "nplugins")
	var chain []PluginSpec
	for i := 0; i < n; i++ {
		p := PluginSpec{Outcome: map[string]string{}}
		for _, op := range allOps {
			if rapid.IntRange(0, 2).Draw(t, fmt.Sprintf("p%d-%s", i, op)) > 0 {
				p.Ops = append(p.Ops, op)
			}
			p.Outcome[op] = rapid.SampledFrom(outcomes).Draw(t, fmt.Sprintf("o%d-%s", i, op))
		}
		chain = append(chain, p)
	}
	return chain
}

func genM(t *rapid.T) MCase {
	return MCase{Chain: genChain(t), Op: rapid.SampledFrom(allOps).Draw(t, "op")}
}

func supports(p PluginSpec, op string) bool {
	for _, o := range p.Ops {
		if o == op {
			return true
		}
	}
	return false
}

// expected consultations and verdict for one operation
func expect(chain []PluginSpec, op string, start string) (consulted []int, seen []string, allowed bool, final string) {
	cur := start
	allowed = true
	for i, p := range chain {
		if !supports(p, op) {
			continue
		}
		consulted = append(consulted, i)
		seen = append(seen, cur)
		o := p.Outcome[op]
		if op == "CloseProxy" {
			continue // notification: everybody registered is told, whatever the others answered
		}
		if !isAccept(o) {
			allowed = false
			break
		}
		if o == "modify" {
			cur += fmt.Sprintf("+p%d", i)
		}
	}
	return consulted, seen, allowed, cur
}

func buildManager(st *stub, ep int, chain []PluginSpec) *plugin.Manager {
	m := plugin.NewManager()
	for i, p := range chain {
		m.Register(plugin.NewHTTPPluginOptions(v1.HTTPPluginOptions{Name: fmt.Sprintf("p%d", i), Addr: st.srv.Listener.Addr().String(), Path: pluginPath(ep, i), Ops: p.Ops}))
	}
	return m
}

func runM(c MCase) error {
	st := getStub()
	ep := st.reset(c.Chain)
	m := buildManager(st, ep, c.Chain)
	user := plugin.UserInfo{User: "u", RunID: "r"}
	start := "v0"
	var err error
	var final string
	var finalMetas map[string]string
	switch c.Op {
	case "Login":
		var r *plugin.LoginContent
		r, err = m.Login(&plugin.LoginContent{Login: msg.Login{User: start, Metas: map[string]string{"role": "admin", "keep": "1"}}})
		if err == nil {
			final = r.User
			finalMetas = r.Metas
		}
	case "NewProxy":
		var r *plugin.NewProxyContent
		r, err = m.NewProxy(&plugin.NewProxyContent{User: user, NewProxy: msg.NewProxy{ProxyName: start, ProxyType: "tcp", Metas: map[string]string{"role": "admin", "keep": "1"}}})
		if err == nil {
			final = r.ProxyName
			finalMetas = r.Metas
		}
	case "CloseProxy":
		err = m.CloseProxy(&plugin.CloseProxyContent{User: user, CloseProxy: msg.CloseProxy{ProxyName: start}})
		final = start
	case "Ping":
		var r *plugin.PingContent
		r, err = m.Ping(&plugin.PingContent{User: user, Ping: msg.Ping{PrivilegeKey: start}})
		if err == nil {
			final = r.PrivilegeKey
		}
	case "NewWorkConn":
		var r *plugin.NewWorkConnContent
		r, err = m.NewWorkConn(&plugin.NewWorkConnContent{User: user, NewWorkConn: msg.NewWorkConn{PrivilegeKey: start}})
		if err == nil {
			final = r.PrivilegeKey
		}
	case "NewUserConn":
		var r *plugin.NewUserConnContent
		r, err = m.NewUserConn(&plugin.NewUserConnContent{User: user, ProxyName: start, ProxyType: "tcp"})
		if err == nil {
			final = r.ProxyName
		}
	}
	wantConsulted, wantSeen, wantAllowed, wantFinal := expect(c.Chain, c.Op, start)
	calls := st.snapshot()
	var got []int
	for _, cl := range calls {
		if cl.Op != c.Op {
			return fmt.Errorf("plugin p%d was consulted for %s during a %s operation", cl.Plugin, cl.Op, c.Op)
		}
		got = append(got, cl.Plugin)
	}
	if fmt.Sprint(got) != fmt.Sprint(wantConsulted) {
		return fmt.Errorf("%s: plugins consulted %v, expected %v (registered for the op, in order, up to the first refusal)", c.Op, got, wantConsulted)
	}
	for k, cl := range calls {
		f := markField(c.Op)[0]
		if s, _ := cl.Content[f].(string); s != wantSeen[k] {
			return fmt.Errorf("%s: plugin p%d received %s=%q, the previous plugins' edits give %q", c.Op, cl.Plugin, f, s, wantSeen[k])
		}
	}
	if c.Op == "Login" || c.Op == "NewProxy" {
		// edits that remove something: once a plugin has dropped the metas entry "role", nobody after it - neither the
		// following plugins nor the server - sees it again; the entry it left alone stays
		scrubbed := false
		for k, cl := range calls {
			metas, _ := cl.Content["metas"].(map[string]any)
			_, hasRole := metas["role"]
			_, hasKeep := metas["keep"]
			if hasRole == scrubbed || !hasKeep {
				return fmt.Errorf("%s: plugin p%d was shown metas %v; removed by an earlier plugin: role=%v (chain outcomes %v)", c.Op, cl.Plugin, metas, scrubbed, outcomesFor(c.Chain, c.Op))
			}
			if k < len(wantConsulted) && c.Chain[wantConsulted[k]].Outcome[c.Op] == "scrub" {
				scrubbed = true
			}
		}
		if err == nil {
			_, hasRole := finalMetas["role"]
			_, hasKeep := finalMetas["keep"]
			if hasRole == scrubbed || !hasKeep {
				return fmt.Errorf("%s: the content the server acts on has metas %v; a plugin removed the entry role: %v (chain outcomes %v)", c.Op, finalMetas, scrubbed, outcomesFor(c.Chain, c.Op))
			}
		}
	}
	if c.Op == "CloseProxy" {
		return nil // notification: the verdict does not gate anything
	}
	if wantAllowed != (err == nil) {
		return fmt.Errorf("%s with chain outcomes %v: allowed=%v (err %v), expected allowed=%v", c.Op, outcomesFor(c.Chain, c.Op), err == nil, err, wantAllowed)
	}
	if err == nil && final != wantFinal {
		return fmt.Errorf("%s: the content the server acts on is %q, the plugins' edits give %q", c.Op, final, wantFinal)
	}
	return nil
}

func outcomesFor(chain []PluginSpec, op string) []string {
	var out []string
	for _, p := range chain {
		if supports(p, op) {
			out = append(out, p.Outcome[op])
		} else {
			out = append(out, "-")
		}
	}
	return out
}

func classM(c MCase) fx.Class {
	n, non := 0, 0
	for _, p := range c.Chain {
		if supports(p, c.Op) {
			n++
			if p.Outcome[c.Op] != "accept" {
				non++
			}
		}
	}
	return fx.Class{NonTrivial: n >= 2 && non >= 1, Fingerprint: fmt.Sprint(c.Op, outcomesFor(c.Chain, c.Op)), Labels: []string{"op=" + c.Op}}
}

func TestManagerChains(t *testing.T) {
	fx.Run(t, fx.Spec[MCase]{Prop: "C15", Name: "manager_chains", Journal: true, Quick: 6000, Thorough: 200000, Gen: genM, Run: runM, Class: classM})
}

var _ = time.Second
