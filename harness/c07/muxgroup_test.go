package c07

import (
	"context"
	"encoding/base64"
	"fmt"
	"io"
	"net"
	"strings"
	"sync"
	"testing"
	"time"

	"github.com/fatedier/frp/pkg/util/tcpmux"
	"github.com/fatedier/frp/pkg/util/vhost"
	"github.com/fatedier/frp/server/group"
	"pgregory.net/rapid"

	"verifharness/fx"
)

// ---- tcpmux load-balancing group: the members share one muxer route. A CONNECT carrying user:P may only ever be
// bridged to a member whose OWN configured password is P (members with other credentials must not be in the group).

type MGCase struct {
	Members []string `json:"member_passwords"` // configured password of each member (same group, key, domain, user)
	Tries   []string `json:"tries"`            // password carried by each CONNECT
}

func genMG(t *rapid.T) MGCase {
	var c MGCase
	pw := []string{"pw-A", "pw-A", "pw-B", ""}
	n := rapid.IntRange(2, 3).Draw(t, "members")
	for i := 0; i < n; i++ {
		c.Members = append(c.Members, rapid.SampledFrom(pw).Draw(t, fmt.Sprintf("m%d", i)))
	}
	k := rapid.IntRange(4, 12).Draw(t, "tries")
	for i := 0; i < k; i++ {
		c.Tries = append(c.Tries, rapid.SampledFrom([]string{"pw-A", "pw-B", "pw-C", ""}).Draw(t, fmt.Sprintf("t%d", i)))
	}
	return c
}

func runMG(c MGCase) error {
	ln, err := net.Listen("tcp", "127.0.0.1:0")
	if err != nil {
		return fx.Inconclusive("%v", err)
	}
	defer ln.Close()
	m, err := tcpmux.NewHTTPConnectTCPMuxer(ln, false, 5*time.Second)
	if err != nil {
		return fx.Inconclusive("%v", err)
	}
	ctl := group.NewTCPMuxGroupCtl(m)
	var mu sync.Mutex
	var served []int // member index per bridged connection
	var joined []int
	for i, p := range c.Members {
		l, e := ctl.Listen(context.Background(), "httpconnect", "g", "key", vhost.RouteConfig{Domain: "grp.test", Username: "alice", Password: p})
		if e != nil {
			continue // refused: fine, it is then no member
		}
		joined = append(joined, i)
		defer l.Close()
		go func(i int, l net.Listener) {
			for {
				conn, e := l.Accept()
				if e != nil {
					return
				}
				mu.Lock()
				served = append(served, i)
				mu.Unlock()
				_, _ = conn.Write([]byte(fmt.Sprintf("MEMBER %d\n", i)))
				conn.Close()
			}
		}(i, l)
	}
	if len(joined) == 0 {
		return fx.Inconclusive("no member could join")
	}
	for k, p := range c.Tries {
		mu.Lock()
		before := len(served)
		mu.Unlock()
		conn, e := net.DialTimeout("tcp", ln.Addr().String(), 2*time.Second)
		if e != nil {
			return fx.Inconclusive("%v", e)
		}
		_ = conn.SetDeadline(time.Now().Add(3 * time.Second))
		req := "CONNECT grp.test:80 HTTP/1.1\r\nHost: grp.test:80\r\nProxy-Authorization: Basic " + base64.StdEncoding.EncodeToString([]byte("alice:"+p)) + "\r\n\r\n"
		_, _ = conn.Write([]byte(req))
		all, _ := io.ReadAll(conn)
		conn.Close()
		time.Sleep(2 * time.Millisecond)
		mu.Lock()
		now := append([]int(nil), served[before:]...)
		mu.Unlock()
		for _, mi := range now {
			if c.Members[mi] != p {
				return fmt.Errorf("CONNECT %d carrying alice:%q was bridged to group member %d, whose configured credentials are alice:%q (members %q, joined %v)", k, p, mi, c.Members[mi], c.Members, joined)
			}
		}
		if len(now) == 0 && strings.Contains(string(all), "MEMBER") {
			return fmt.Errorf("CONNECT %d: inconsistent accounting", k)
		}
	}
	return nil
}

func TestTCPMuxGroupCredentials(t *testing.T) {
	fx.Run(t, fx.Spec[MGCase]{Prop: "C07", Name: "tcpmux_group_credentials", Journal: true, Quick: 300, Thorough: 10000, Gen: genMG, Run: runMG,
		Class: func(c MGCase) fx.Class {
			diff := false
			for _, p := range c.Members {
				if p != c.Members[0] {
					diff = true
				}
			}
			return fx.Class{NonTrivial: diff, Fingerprint: fmt.Sprintf("%+v", c)}
		}})
}
