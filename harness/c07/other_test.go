package c07

import (
	"bufio"
	"context"
	"encoding/base64"
	"fmt"
	"io"
	"net"
	"net/http"
	"os"
	"path/filepath"
	"strings"
	"sync"
	"testing"
	"time"

	"github.com/samber/lo"

	v1 "github.com/fatedier/frp/pkg/config/v1"
	plugin "github.com/fatedier/frp/pkg/plugin/client"
	"github.com/fatedier/frp/pkg/util/tcpmux"
	"github.com/fatedier/frp/pkg/util/vhost"
	"pgregory.net/rapid"

	"verifharness/fx"
)

// credential grammar shared by the remaining sub-checks
type SCred struct {
	Kind string `json:"kind"` // none exact wrongpass wronguser other emptyuser emptypass badb64 swapped prefix
}

var scredKinds = []string{"none", "exact", "exact", "wrongpass", "wronguser", "other", "emptyuser", "emptypass", "badb64", "swapped", "prefix", "caseuser"}

func scred(kind, u, p string) (user, pass string, present, wellFormed bool) {
	switch kind {
	case "none":
		return "", "", false, false
	case "exact":
		return u, p, true, true
	case "wrongpass":
		return u, p + "x", true, true
	case "wronguser":
		return u + "x", p, true, true
	case "other":
		return "mallory", "letmein", true, true
	case "emptyuser":
		return "", p, true, true
	case "emptypass":
		return u, "", true, true
	case "swapped":
		return p, u, true, true
	case "prefix":
		if len(p) > 1 {
			return u, p[:len(p)-1], true, true
		}
		return u, p + "y", true, true
	case "caseuser":
		return strings.ToUpper(u), p, true, true
	case "badb64":
		return "", "", true, false
	}
	return "", "", false, false
}

func basic(kind, u, p string) (hdr string, exact bool) {
	cu, cp, present, ok := scred(kind, u, p)
	if !present {
		return "", false
	}
	if !ok {
		return "Basic %%%not-base64", false
	}
	return "Basic " + base64.StdEncoding.EncodeToString([]byte(cu+":"+cp)), cu == u && cp == p
}

// ---- (2) tcpmux CONNECT credentials ---------------------------------------------------------------

type MuxCase struct {
	User  string   `json:"user"`
	Pass  string   `json:"pass"`
	Kinds []string `json:"kinds"`
	Pass2 bool     `json:"passthrough"`
}

func genMuxC(t *rapid.T) MuxCase {
	cr := creds[rapid.IntRange(0, 1).Draw(t, "cred")]
	c := MuxCase{User: cr[0], Pass: cr[1], Pass2: rapid.Bool().Draw(t, "passthrough")}
	n := rapid.IntRange(1, 6).Draw(t, "n")
	for i := 0; i < n; i++ {
		c.Kinds = append(c.Kinds, rapid.SampledFrom(scredKinds).Draw(t, "kind"))
	}
	return c
}

func runMuxC(c MuxCase) error {
	ln, err := net.Listen("tcp", "127.0.0.1:0")
	if err != nil {
		return fx.Inconclusive("%v", err)
	}
	defer ln.Close()
	m, err := tcpmux.NewHTTPConnectTCPMuxer(ln, c.Pass2, 5*time.Second)
	if err != nil {
		return fx.Inconclusive("%v", err)
	}
	l, err := m.Listen(context.Background(), &vhost.RouteConfig{Domain: "sec.test", Username: c.User, Password: c.Pass})
	if err != nil {
		return fx.Inconclusive("%v", err)
	}
	defer l.Close()
	var mu sync.Mutex
	accepted := 0
	go func() {
		for {
			conn, e := l.Accept()
			if e != nil {
				return
			}
			mu.Lock()
			accepted++
			mu.Unlock()
			_, _ = conn.Write([]byte("BACKEND\n"))
			conn.Close()
		}
	}()
	for i, k := range c.Kinds {
		hdr, exact := basic(k, c.User, c.Pass)
		mu.Lock()
		before := accepted
		mu.Unlock()
		conn, e := net.DialTimeout("tcp", ln.Addr().String(), 2*time.Second)
		if e != nil {
			return fx.Inconclusive("%v", e)
		}
		_ = conn.SetDeadline(time.Now().Add(3 * time.Second))
		req := "CONNECT sec.test:80 HTTP/1.1\r\nHost: sec.test:80\r\n"
		if hdr != "" {
			req += "Proxy-Authorization: " + hdr + "\r\n"
		}
		_, _ = conn.Write([]byte(req + "\r\n"))
		all, _ := io.ReadAll(conn)
		conn.Close()
		time.Sleep(2 * time.Millisecond)
		mu.Lock()
		got := accepted - before
		mu.Unlock()
		if !exact && (got != 0 || strings.Contains(string(all), "BACKEND")) {
			return fmt.Errorf("CONNECT %d with %s credentials reached the backend of a tcpmux route protected by %s:%s", i, k, c.User, c.Pass)
		}
		if exact && got != 1 {
			return fmt.Errorf("CONNECT %d with the exact credentials was not bridged (server said %q)", i, strings.SplitN(string(all), "\r\n", 2)[0])
		}
	}
	return nil
}

func TestTCPMuxConnect(t *testing.T) {
	fx.Run(t, fx.Spec[MuxCase]{Prop: "C07", Name: "tcpmux_connect", Journal: true, Quick: 600, Thorough: 20000, Gen: genMuxC, Run: runMuxC,
		Class: func(c MuxCase) fx.Class { return fx.Class{NonTrivial: true, Fingerprint: fmt.Sprintf("%+v", c)} }})
}

// ---- (3) client plugins through plugin.Create(...).Handle over pipes -----------------------------------

type PlCase struct {
	Plugin string   `json:"plugin"` // http_proxy socks5 static_file
	User   string   `json:"user"`
	Pass   string   `json:"pass"`
	Kinds  []string `json:"kinds"`
	Form   string   `json:"form"` // http_proxy: connect | get
}

func genPl(t *rapid.T) PlCase {
	cr := creds[rapid.IntRange(0, 1).Draw(t, "cred")]
	c := PlCase{Plugin: rapid.SampledFrom([]string{"http_proxy", "socks5", "static_file"}).Draw(t, "plugin"), User: cr[0], Pass: cr[1],
		Form: rapid.SampledFrom([]string{"connect", "get", "connect-split", "get-then-connect"}).Draw(t, "form")}
	n := rapid.IntRange(1, 3).Draw(t, "n")
	for i := 0; i < n; i++ {
		c.Kinds = append(c.Kinds, rapid.SampledFrom(scredKinds).Draw(t, "kind"))
	}
	return c
}

var (
	staticDirOnce sync.Once
	staticDir     string
)

func runPl(c PlCase) error {
	// a backend that records contact: the plugin may only connect to it for authorised requests
	bl, err := net.Listen("tcp", "127.0.0.1:0")
	if err != nil {
		return fx.Inconclusive("%v", err)
	}
	defer bl.Close()
	var mu sync.Mutex
	contacts := 0
	go func() {
		for {
			conn, e := bl.Accept()
			if e != nil {
				return
			}
			mu.Lock()
			contacts++
			mu.Unlock()
			go func() {
				defer conn.Close()
				br := bufio.NewReader(conn)
				// an HTTP client speaks first; a raw tunnel user waits for the banner
				_ = conn.SetReadDeadline(time.Now().Add(150 * time.Millisecond))
				if _, e := br.Peek(4); e == nil {
					_ = conn.SetReadDeadline(time.Now().Add(2 * time.Second))
					if _, e := http.ReadRequest(br); e == nil {
						_, _ = conn.Write([]byte("HTTP/1.1 200 OK\r\nContent-Length: 7\r\nConnection: close\r\n\r\nBACKEND"))
						return
					}
				}
				_, _ = conn.Write([]byte("BACKEND"))
			}()
		}
	}()
	staticDirOnce.Do(func() {
		staticDir, _ = os.MkdirTemp("", "verif-static")
		_ = os.WriteFile(filepath.Join(staticDir, "secret.txt"), []byte("TOP-SECRET-FILE"), 0o644)
	})
	var opts v1.ClientPluginOptions
	switch c.Plugin {
	case "http_proxy":
		opts = &v1.HTTPProxyPluginOptions{Type: "http_proxy", HTTPUser: c.User, HTTPPassword: c.Pass}
	case "socks5":
		opts = &v1.Socks5PluginOptions{Type: "socks5", Username: c.User, Password: c.Pass}
	case "static_file":
		opts = &v1.StaticFilePluginOptions{Type: "static_file", LocalPath: staticDir, HTTPUser: c.User, HTTPPassword: c.Pass}
	}
	p, err := plugin.Create(c.Plugin, plugin.PluginContext{Name: "t"}, opts)
	if err != nil {
		return fx.Inconclusive("create plugin: %v", err)
	}
	defer p.Close()
	for i, k := range c.Kinds {
		mu.Lock()
		before := contacts
		mu.Unlock()
		cli, srv := net.Pipe()
		go p.Handle(context.Background(), &plugin.ConnectionInfo{Conn: srv, UnderlyingConn: srv})
		_ = cli.SetDeadline(time.Now().Add(3 * time.Second))
		cu, cp, present, wellFormed := scred(k, c.User, c.Pass)
		exact := present && wellFormed && cu == c.User && cp == c.Pass
		var out []byte
		served := false
		switch c.Plugin {
		case "http_proxy":
			hdr, _ := basic(k, c.User, c.Pass)
			auth := ""
			if hdr != "" {
				auth = "Proxy-Authorization: " + hdr + "\r\n"
			}
			target := bl.Addr().String()
			connectReq := "CONNECT " + target + " HTTP/1.1\r\nHost: " + target + "\r\n" + auth + "\r\n"
			switch c.Form {
			case "connect":
				_, _ = cli.Write([]byte(connectReq))
			case "connect-split":
				// the request line arrives in two segments
				_, _ = cli.Write([]byte(connectReq[:4]))
				time.Sleep(120 * time.Millisecond)
				_, _ = cli.Write([]byte(connectReq[4:]))
			case "get-then-connect":
				// a CONNECT as second request of a kept-alive connection; the first request is refused (407) or
				// served, either way the connection stays usable for the next request when keep-alive applies
				first := "GET http://" + target + "/first HTTP/1.1\r\nHost: " + target + "\r\n" + auth + "\r\n"
				_, _ = cli.Write([]byte(first))
				br := bufio.NewReader(cli)
				if resp, e := http.ReadResponse(br, nil); e == nil {
					_, _ = io.Copy(io.Discard, resp.Body)
					resp.Body.Close()
					if strings.Contains(string(firstBodyMarker(resp)), "x") {
						_ = resp
					}
				}
				mu.Lock()
				before = contacts // the authorised GET itself contacts the backend: only the CONNECT is judged below
				mu.Unlock()
				_, _ = cli.Write([]byte(connectReq))
				rest, _ := io.ReadAll(br)
				out = rest
				served = strings.Contains(string(out), "BACKEND")
			default:
				_, _ = cli.Write([]byte("GET http://" + target + "/x HTTP/1.1\r\nHost: " + target + "\r\nConnection: close\r\n" + auth + "\r\n"))
			}
			if c.Form != "get-then-connect" {
				out, _ = io.ReadAll(cli)
				served = strings.Contains(string(out), "BACKEND")
			}
		case "static_file":
			hdr, _ := basic(k, c.User, c.Pass)
			req := "GET /secret.txt HTTP/1.1\r\nHost: files\r\nConnection: close\r\n"
			if hdr != "" {
				req += "Authorization: " + hdr + "\r\n"
			}
			_, _ = cli.Write([]byte(req + "\r\n"))
			out, _ = io.ReadAll(cli)
			served = strings.Contains(string(out), "TOP-SECRET-FILE")
		case "socks5":
			// RFC 1928/1929 by hand: offer user/pass (and "no auth" when no credentials are sent)
			if !present || !wellFormed {
				_, _ = cli.Write([]byte{5, 1, 0}) // only "no authentication"
			} else {
				_, _ = cli.Write([]byte{5, 2, 0, 2})
			}
			sel := make([]byte, 2)
			if _, e := io.ReadFull(cli, sel); e == nil && sel[1] == 2 && present && wellFormed {
				m := []byte{1, byte(len(cu))}
				m = append(m, cu...)
				m = append(m, byte(len(cp)))
				m = append(m, cp...)
				_, _ = cli.Write(m)
				st := make([]byte, 2)
				if _, e := io.ReadFull(cli, st); e == nil && st[1] == 0 {
					sel[1] = 0 // authenticated
				} else {
					sel[1] = 0xff
				}
			}
			if sel[1] == 0 {
				addr := bl.Addr().(*net.TCPAddr)
				_, _ = cli.Write(append([]byte{5, 1, 0, 1, 127, 0, 0, 1}, byte(addr.Port>>8), byte(addr.Port)))
				rep := make([]byte, 10)
				if _, e := io.ReadFull(cli, rep); e == nil && rep[1] == 0 {
					out, _ = io.ReadAll(cli)
					served = strings.Contains(string(out), "BACKEND")
				}
			}
		}
		cli.Close()
		time.Sleep(2 * time.Millisecond)
		mu.Lock()
		contacted := contacts - before
		mu.Unlock()
		if !exact && (served || contacted != 0) {
			return fmt.Errorf("%s request %d with %s credentials (%q:%q) was served (served=%v, backend contacted %d times); configured %s:%s", c.Plugin, i, k, cu, cp, served, contacted, c.User, c.Pass)
		}
		if exact && !served {
			return fmt.Errorf("%s request %d with the exact credentials was not served: %q", c.Plugin, i, firstLine(out))
		}
	}
	return nil
}

func firstLine(b []byte) string { return strings.SplitN(string(b), "\r\n", 2)[0] }

func TestClientPlugins(t *testing.T) {
	fx.Run(t, fx.Spec[PlCase]{Prop: "C07", Name: "client_plugins", Journal: true, Quick: 160, Thorough: 6000, Gen: genPl, Run: runPl,
		Class: func(c PlCase) fx.Class {
			return fx.Class{NonTrivial: true, Fingerprint: fmt.Sprintf("%+v", c), Labels: []string{"plugin=" + c.Plugin}}
		}})
}

// ---- (4) frps dashboard and frpc admin APIs -------------------------------------------------------------

type WebCase struct {
	Side   string `json:"side"` // server | client
	Path   string `json:"path"`
	Method string `json:"method"`
	Kind   string `json:"kind"`
}

var serverPaths = []string{"/api/serverinfo", "/api/proxy/tcp", "/api/proxy/tcp/x", "/api/traffic/x", "/api/proxies", "/", "/static/", "/favicon.ico", "/metrics", "/api/unknown", "/API/serverinfo", "//api/serverinfo", "/api/serverinfo/"}
var clientPaths = []string{"/api/reload", "/api/stop", "/api/status", "/api/config", "/", "/static/", "/favicon.ico", "/api/unknown", "/api/status/", "//api/status"}

func genWeb(t *rapid.T) WebCase {
	c := WebCase{Side: rapid.SampledFrom([]string{"server", "client"}).Draw(t, "side"), Method: rapid.SampledFrom([]string{"GET", "GET", "POST", "PUT", "DELETE", "HEAD", "OPTIONS"}).Draw(t, "method"),
		Kind: rapid.SampledFrom(scredKinds).Draw(t, "kind")}
	if c.Side == "server" {
		c.Path = rapid.SampledFrom(serverPaths).Draw(t, "path")
	} else {
		c.Path = rapid.SampledFrom(clientPaths).Draw(t, "path")
	}
	return c
}

var (
	webOnce   sync.Once
	webServer *fx.Server
	webClient *fx.Client
	webErr    error
)

func webSetup() {
	webServer, webErr = fx.StartServer(fx.WithCfg(func(sc *v1.ServerConfig, b *fx.Block) {
		sc.WebServer.Addr, sc.WebServer.Port, sc.WebServer.User, sc.WebServer.Password = "127.0.0.1", b.Port(fx.SlotDash), "admin", "dash-pw"
		sc.EnablePrometheus = true
	}))
	if webErr != nil {
		return
	}
	cc := fx.BaseClientConfig(webServer)
	cc.WebServer.Addr, cc.WebServer.Port, cc.WebServer.User, cc.WebServer.Password = "127.0.0.1", webServer.Block.Port(fx.SlotAdmin), "admin", "dash-pw"
	cc.Transport.TLS.Enable = lo.ToPtr(false)
	webClient, webErr = fx.StartClient(cc, nil, nil)
	if webErr == nil {
		webErr = fx.WaitListen(fmt.Sprintf("127.0.0.1:%d", webServer.Block.Port(fx.SlotAdmin)), 3*time.Second)
	}
}

func runWeb(c WebCase) error {
	webOnce.Do(webSetup)
	if webErr != nil {
		return fx.Inconclusive("web setup: %v", webErr)
	}
	port := webServer.Block.Port(fx.SlotDash)
	if c.Side == "client" {
		port = webServer.Block.Port(fx.SlotAdmin)
	}
	hdr, exact := basic(c.Kind, "admin", "dash-pw")
	if exact && c.Side == "client" && (c.Path == "/api/stop" || c.Path == "/api/reload" || c.Method == "PUT") {
		return nil // authorised state-changing calls would stop / reconfigure the shared client
	}
	if exact && c.Side == "server" && c.Method == "DELETE" {
		return nil
	}
	conn, err := net.DialTimeout("tcp", fmt.Sprintf("127.0.0.1:%d", port), 2*time.Second)
	if err != nil {
		return fx.Inconclusive("%v", err)
	}
	defer conn.Close()
	_ = conn.SetDeadline(time.Now().Add(4 * time.Second))
	req := c.Method + " " + c.Path + " HTTP/1.1\r\nHost: x\r\nConnection: close\r\n"
	if hdr != "" {
		req += "Authorization: " + hdr + "\r\n"
	}
	_, _ = conn.Write([]byte(req + "\r\n"))
	resp, err := http.ReadResponse(bufio.NewReader(conn), &http.Request{Method: c.Method})
	if err != nil {
		if exact {
			// with valid credentials the static-asset handlers run; the embedded assets are not linked
			// into the harness, so those handlers may abort the connection: not what this check decides
			return nil
		}
		return fmt.Errorf("%s %s %s: no response: %v", c.Side, c.Method, c.Path, err)
	}
	body, _ := io.ReadAll(io.LimitReader(resp.Body, 4096))
	resp.Body.Close()
	if !exact {
		switch resp.StatusCode {
		case 401:
			if resp.Header.Get("WWW-Authenticate") == "" {
				return fmt.Errorf("%s %s %s with %s credentials: 401 without challenge", c.Side, c.Method, c.Path, c.Kind)
			}
		case 404, 405, 301:
			// not found / method not allowed / path clean-up redirect carry no protected content
			if resp.StatusCode == 301 && !strings.Contains(resp.Header.Get("Location"), "api") && c.Path != "/" {
				// fine: redirect of a malformed path
			}
			if resp.StatusCode == 301 && c.Path == "/" {
				return fmt.Errorf("%s %s / with %s credentials was served the dashboard redirect", c.Side, c.Method, c.Kind)
			}
		default:
			return fmt.Errorf("%s %s %s with %s credentials was answered %d %q", c.Side, c.Method, c.Path, c.Kind, resp.StatusCode, string(body[:min(len(body), 80)]))
		}
		return nil
	}
	if resp.StatusCode == 401 {
		return fmt.Errorf("%s %s %s with the exact credentials was refused", c.Side, c.Method, c.Path)
	}
	return nil
}

func TestWebAPIs(t *testing.T) {
	fx.Run(t, fx.Spec[WebCase]{Prop: "C07", Name: "web_apis", Journal: true, Quick: 240, Thorough: 6000, Gen: genWeb, Run: runWeb,
		Class: func(c WebCase) fx.Class {
			return fx.Class{NonTrivial: true, Fingerprint: fmt.Sprintf("%+v", c), Labels: []string{"side=" + c.Side}}
		}})
}

func firstBodyMarker(r *http.Response) []byte { return nil }
