// Package c07: password-protected endpoints serve only requests carrying the exact credentials.
package c07

import (
	"bufio"
	"context"
	"crypto/tls"
	"encoding/base64"
	"fmt"
	"io"
	"net"
	"net/http"
	"net/url"
	"strings"
	"sync"
	"testing"
	"time"

	"golang.org/x/net/http2"

	"github.com/fatedier/frp/pkg/util/vhost"
	"pgregory.net/rapid"

	"verifharness/fx"
)

func TestMain(m *testing.M) { fx.Main(m, "C07") }

// ---- (1) http routes: protected / unprotected / user-routed proxies on the same hosts -----------

type PRoute struct {
	Host      string `json:"host"`
	Location  string `json:"location"`
	RouteUser string `json:"route_user"` // routeByHTTPUser
	User      string `json:"user"`       // httpUser ("" = unprotected)
	Pass      string `json:"pass"`
}

func (r PRoute) key() string { return strings.ToLower(r.Host) + "|" + r.Location + "|" + r.RouteUser }
func (r PRoute) protected() bool {
	return r.User != "" || r.Pass != ""
}

type Cred struct {
	Kind string `json:"kind"` // none exact wrongpass wronguser other emptyuser emptypass badb64 lowerscheme noscheme
	Of   int    `json:"of"`   // which route's credentials "exact"/"wrong*" refer to
}

type HReq struct {
	Form      string `json:"form"` // origin absolute connect http10 h2c
	Host      string `json:"host"`
	Path      string `json:"path"`
	Auth      Cred   `json:"auth"`
	ProxyAuth Cred   `json:"proxy_auth"`
	HdrCase   int    `json:"hdr_case"`
}

type HCase struct {
	Routes []PRoute `json:"routes"`
	Reqs   []HReq   `json:"reqs"`
}

var hosts = []string{"a.test", "b.test", "x.a.test"}
var creds = [][2]string{{"alice", "s3cret"}, {"bob", "hunter2"}, {"alice", "other"}, {"", "onlypass"}, {"carol", ""}}

func genH(t *rapid.T) HCase {
	var c HCase
	seen := map[string]bool{}
	n := rapid.IntRange(1, 5).Draw(t, "nroutes")
	for i := 0; i < n; i++ {
		r := PRoute{Host: rapid.SampledFrom([]string{"a.test", "a.test", "b.test", "*.a.test", "*"}).Draw(t, "host"),
			Location: rapid.SampledFrom([]string{"", "", "/", "/p", "/p/q"}).Draw(t, "loc")}
		switch rapid.IntRange(0, 3).Draw(t, "shape") {
		case 0: // unprotected, unrestricted
		case 1: // protected, unrestricted
			cr := creds[rapid.IntRange(0, len(creds)-1).Draw(t, "cred")]
			r.User, r.Pass = cr[0], cr[1]
		case 2: // user-routed and protected with that user's password (the documented combination)
			cr := creds[rapid.IntRange(0, 1).Draw(t, "cred")]
			r.RouteUser, r.User, r.Pass = cr[0], cr[0], cr[1]
		case 3: // user-routed, unprotected
			r.RouteUser = rapid.SampledFrom([]string{"alice", "bob"}).Draw(t, "ru")
		}
		if seen[r.key()] {
			continue
		}
		seen[r.key()] = true
		c.Routes = append(c.Routes, r)
	}
	if len(c.Routes) == 0 {
		c.Routes = []PRoute{{Host: "a.test", User: "alice", Pass: "s3cret"}}
	}
	m := rapid.IntRange(2, 10).Draw(t, "nreqs")
	kinds := []string{"none", "exact", "exact", "wrongpass", "wronguser", "other", "emptyuser", "emptypass", "badb64", "lowerscheme", "noscheme"}
	for i := 0; i < m; i++ {
		q := HReq{Form: rapid.SampledFrom([]string{"origin", "origin", "absolute", "absolute", "connect", "http10", "h2c"}).Draw(t, "form"),
			Host: rapid.SampledFrom(hosts).Draw(t, "qhost"), Path: rapid.SampledFrom([]string{"/", "/p", "/p/q/r", "/z", "/%70", "/%70/q/r", "/p/%71", "/%70/%71/r", "/p%2Fq", ""}).Draw(t, "qpath"),
			Auth:      Cred{Kind: rapid.SampledFrom(kinds).Draw(t, "akind"), Of: rapid.IntRange(0, len(c.Routes)-1).Draw(t, "aof")},
			ProxyAuth: Cred{Kind: rapid.SampledFrom(append([]string{"none", "none", "none"}, kinds...)).Draw(t, "pkind"), Of: rapid.IntRange(0, len(c.Routes)-1).Draw(t, "pof")},
			HdrCase:   rapid.IntRange(0, 2).Draw(t, "hcase")}
		if q.Path == "" && q.Form != "absolute" {
			q.Path = "/" // only the absolute form ("GET http://host HTTP/1.1") and CONNECT can have an empty path
		}
		c.Reqs = append(c.Reqs, q)
	}
	return c
}

// header value for a credential description; returns also the (user, pass) it decodes to and whether it is well-formed Basic
func credHeader(c HCase, cr Cred) (val, user, pass string, wellFormed bool) {
	r := c.Routes[cr.Of]
	u, p := r.User, r.Pass
	if !r.protected() {
		u, p = "alice", "s3cret"
	}
	b64 := func(s string) string { return base64.StdEncoding.EncodeToString([]byte(s)) }
	switch cr.Kind {
	case "none":
		return "", "", "", false
	case "exact":
		return "Basic " + b64(u+":"+p), u, p, true
	case "wrongpass":
		return "Basic " + b64(u+":"+p+"x"), u, p + "x", true
	case "wronguser":
		return "Basic " + b64(u+"x:"+p), u + "x", p, true
	case "other":
		return "Basic " + b64("mallory:letmein"), "mallory", "letmein", true
	case "emptyuser":
		return "Basic " + b64(":"+p), "", p, true
	case "emptypass":
		return "Basic " + b64(u+":"), u, "", true
	case "badb64":
		return "Basic !!!" + b64(u+":"+p), "", "", false
	case "lowerscheme":
		return "basic " + b64(u+":"+p), u, p, true // scheme is case-insensitive
	case "noscheme":
		return b64(u + ":" + p), "", "", false
	}
	return "", "", "", false
}

func hdrName(base string, k int) string {
	switch k {
	case 1:
		return strings.ToLower(base)
	case 2:
		return strings.ToUpper(base)
	}
	return base
}

type seenReq struct {
	owner int
	id    string
}

func runH(c HCase) error {
	rp := vhost.NewHTTPReverseProxy(vhost.HTTPReverseProxyOptions{ResponseHeaderTimeoutS: 5}, vhost.NewRouters())
	var mu sync.Mutex
	var seen []seenReq
	for i, r := range c.Routes {
		owner := i
		err := rp.Register(vhost.RouteConfig{Domain: r.Host, Location: r.Location, RouteByHTTPUser: r.RouteUser, Username: r.User, Password: r.Pass,
			CreateConnFn: func(string) (net.Conn, error) {
				cli, srv := net.Pipe()
				go func() {
					defer srv.Close()
					br := bufio.NewReader(srv)
					for {
						req, err := http.ReadRequest(br)
						if err != nil {
							return
						}
						if req.Body != nil {
							req.Body.Close()
						}
						mu.Lock()
						seen = append(seen, seenReq{owner, req.Header.Get("X-Req-Id")})
						mu.Unlock()
						if req.Method == "CONNECT" {
							fmt.Fprintf(srv, "HTTP/1.1 200 OK\r\nX-Owner: %d\r\n\r\n", owner)
							continue
						}
						fmt.Fprintf(srv, "HTTP/1.1 200 OK\r\nX-Owner: %d\r\nContent-Length: 0\r\n\r\n", owner)
					}
				}()
				return cli, nil
			}})
		if err != nil {
			return fx.Inconclusive("register: %v", err)
		}
	}
	// an in-memory listener: the handler under test is pure HTTP, and hundreds of thousands of loopback
	// connections per run would exhaust the ephemeral ports
	pl := fx.NewPipeListener()
	ts := &http.Server{Handler: rp}
	go func() { _ = ts.Serve(pl) }()
	defer ts.Close()
	h2 := &http2.Transport{AllowHTTP: true, DialTLSContext: func(ctx context.Context, network, a string, _ *tls.Config) (net.Conn, error) {
		return pl.Dial()
	}}
	defer h2.CloseIdleConnections()

	for i, q := range c.Reqs {
		id := fmt.Sprintf("req-%d", i)
		av, au, ap, aok := credHeader(c, q.Auth)
		pv, pu, pp, pok := credHeader(c, q.ProxyAuth)
		var status int
		var challenge string
		switch q.Form {
		case "h2c":
			req, _ := http.NewRequest("GET", "http://"+q.Host+q.Path, nil)
			req.Header.Set("X-Req-Id", id)
			if av != "" {
				req.Header.Set("Authorization", av)
			}
			if pv != "" {
				req.Header.Set("Proxy-Authorization", pv)
			}
			ctx, cancel := context.WithTimeout(context.Background(), 5*time.Second)
			resp, e := h2.RoundTrip(req.WithContext(ctx))
			if e != nil {
				cancel()
				return fmt.Errorf("request %d (h2c) failed: %v", i, e)
			}
			_, _ = io.Copy(io.Discard, resp.Body)
			resp.Body.Close()
			cancel()
			status, challenge = resp.StatusCode, resp.Header.Get("WWW-Authenticate")
		default:
			conn, e := pl.Dial()
			if e != nil {
				return fx.Inconclusive("%v", e)
			}
			_ = conn.SetDeadline(time.Now().Add(5 * time.Second))
			var line string
			switch q.Form {
			case "origin":
				line = "GET " + q.Path + " HTTP/1.1\r\n"
			case "http10":
				line = "GET " + q.Path + " HTTP/1.0\r\n"
			case "absolute":
				line = "GET http://" + q.Host + q.Path + " HTTP/1.1\r\n"
			case "connect":
				line = "CONNECT " + q.Host + ":80 HTTP/1.1\r\n"
			}
			msg := line + "Host: " + q.Host + "\r\nX-Req-Id: " + id + "\r\nConnection: close\r\n"
			if av != "" {
				msg += hdrName("Authorization", q.HdrCase) + ": " + av + "\r\n"
			}
			if pv != "" {
				msg += hdrName("Proxy-Authorization", q.HdrCase) + ": " + pv + "\r\n"
			}
			_, _ = conn.Write([]byte(msg + "\r\n"))
			method := "GET"
			if q.Form == "connect" {
				method = "CONNECT"
			}
			resp, e := http.ReadResponse(bufio.NewReader(conn), &http.Request{Method: method})
			if e != nil {
				conn.Close()
				return fmt.Errorf("request %d (%s) got no response: %v", i, q.Form, e)
			}
			status, challenge = resp.StatusCode, resp.Header.Get("WWW-Authenticate")
			conn.Close()
		}
		time.Sleep(time.Millisecond)
		mu.Lock()
		var reached []int
		for _, s := range seen {
			if s.id == id {
				reached = append(reached, s.owner)
			}
		}
		mu.Unlock()
		if len(reached) > 1 {
			return fmt.Errorf("request %d reached %d backends %v", i, len(reached), reached)
		}
		desc := fmt.Sprintf("request %d (%s host %s path %s Authorization=%s:%s[%s] Proxy-Authorization=%s:%s[%s])", i, q.Form, q.Host, q.Path, au, ap, q.Auth.Kind, pu, pp, q.ProxyAuth.Kind)
		if len(reached) == 1 {
			r := c.Routes[reached[0]]
			if r.protected() {
				okA := aok && au == r.User && ap == r.Pass
				okP := pok && pu == r.User && pp == r.Pass
				if !okA && !okP {
					return fmt.Errorf("%s was forwarded to the backend of route %+v, which is protected by %s:%s", desc, r, r.User, r.Pass)
				}
			}
			// the route must match the request at all (host/location) and the user it is restricted to must have been presented
			if r.RouteUser != "" && !(aok && au == r.RouteUser) && !(pok && pu == r.RouteUser) {
				return fmt.Errorf("%s was forwarded to route %+v restricted to user %q which the request did not present", desc, r, r.RouteUser)
			}
		}
		if status == 401 {
			if len(reached) != 0 {
				return fmt.Errorf("%s was answered 401 but reached backend %v", desc, reached)
			}
			if challenge == "" {
				return fmt.Errorf("%s was answered 401 without an authentication challenge", desc)
			}
		}
		// positive control: origin-form request with the exact credentials of the route that wins for that user is served
		if q.Form == "origin" && q.Auth.Kind == "exact" && q.ProxyAuth.Kind == "none" {
			if w, ok := refWinner(c.Routes, q.Host, decodePath(q.Path), au); ok && w.protected() && w.User == au && w.Pass == ap {
				if status != 200 || len(reached) != 1 || c.Routes[reached[0]].key() != w.key() {
					return fmt.Errorf("%s carries the exact credentials of the winning route %+v but was answered %d (reached %v)", desc, w, status, reached)
				}
			}
		}
	}
	return nil
}

func refWinner(routes []PRoute, host, path, user string) (PRoute, bool) {
	host = strings.ToLower(host)
	levels := []string{host}
	labels := strings.Split(host, ".")
	for len(labels) >= 3 {
		labels = labels[1:]
		levels = append(levels, "*."+strings.Join(labels, "."))
	}
	levels = append(levels, "*")
	for _, lvl := range levels {
		us := []string{user}
		if user != "" {
			us = append(us, "")
		}
		for _, u := range us {
			best, found := PRoute{}, false
			for _, r := range routes {
				if strings.ToLower(r.Host) == lvl && r.RouteUser == u && strings.HasPrefix(path, r.Location) {
					if !found || len(r.Location) > len(best.Location) {
						best, found = r, true
					}
				}
			}
			if found {
				return best, true
			}
		}
	}
	return PRoute{}, false
}

func classH(c HCase) fx.Class {
	prot := 0
	for _, r := range c.Routes {
		if r.protected() {
			prot++
		}
	}
	var lab []string
	for _, q := range c.Reqs {
		lab = append(lab, "form="+q.Form)
	}
	return fx.Class{NonTrivial: prot > 0, Fingerprint: fmt.Sprintf("%+v", c), Labels: dedup(lab)}
}

func dedup(l []string) []string {
	m := map[string]bool{}
	var out []string
	for _, s := range l {
		if !m[s] {
			m[s] = true
			out = append(out, s)
		}
	}
	return out
}

func TestHTTPRoutes(t *testing.T) {
	fx.Run(t, fx.Spec[HCase]{Prop: "C07", Name: "http_routes", Journal: true, Quick: 1600, Thorough: 60000, Gen: genH, Run: runH, Class: classH})
}

func decodePath(p string) string {
	if u, err := url.PathUnescape(p); err == nil {
		return u
	}
	return p
}
