package c16

import (
	"fmt"
	"testing"

	"verifharness/fx"
)

// frpc_bad_source_address: deterministic probes of frpc_hostile_server's machinery - the server starts a work connection
// for a proxy that sends the PROXY-protocol header, naming a user address that does not resolve. frpc must survive.
func TestFrpcBadSourceAddress(t *testing.T) {
	if fx.Shard() != 0 || fx.Replaying() {
		return
	}
	for i, src := range []string{"not-an-address", "999.1.2.3", "::::", "fe80::1%nosuchzone"} {
		c := CCase{LoginResp: `{"version":"0.62.0","run_id":"abc"}`,
			Starts: []HMsg{{Type: 's', Body: fmt.Sprintf(`{"proxy_name":"pp1","src_addr":%q,"src_port":4711,"dst_addr":"","dst_port":0}`, src)}}}
		fx.JournalCase("C16", "frpc_bad_source_address", c)
		err := runCC(c)
		if fx.IsInconclusive(err) {
			fx.Note("frpc_bad_source_address", "%v", err)
			continue
		}
		if err != nil {
			fx.ReportViolation("C16", "frpc_bad_source_address", c, err)
			t.Errorf("C16/frpc_bad_source_address: %v", err)
			continue
		}
		fx.Record("frpc_bad_source_address", fx.Class{NonTrivial: true, Fingerprint: fmt.Sprint(i)}, c)
	}
}
