package c16

import (
	"context"
	"encoding/json"
	"fmt"
	"testing"
	"time"

	"github.com/samber/lo"

	"github.com/fatedier/frp/client"

	"verifharness/fx"
)

// Deterministic probe (needs the gate hook): a client service that is stopped at the moment its login has
// succeeded. Service.Run starts the goroutine that watches the control AFTER the login; stopping clears the
// service's control. The gate delays that goroutine until the stop has happened - which a loaded scheduler does
// on its own (this is how the C01 thorough run met it). The process must survive.
type StopCase struct {
	DelayMs int  `json:"delay_ms"`
	TCPMux  bool `json:"tcpmux"`
}

func runStop(c StopCase) error {
	s, err := fx.StartServer(fx.WithServerTCPMux(c.TCPMux))
	if err != nil {
		return err
	}
	defer s.Close()
	defer fx.ClearGates()
	common := fx.BaseClientConfig(s)
	common.Transport.TCPMux = lo.ToPtr(c.TCPMux)
	common.Complete()
	svc, err := client.NewService(client.ServiceOptions{Common: common})
	if err != nil {
		return fx.Inconclusive("%v", err)
	}
	g := fx.HoldGate("client.keepalive.start", 1, func([]string) bool { return true })
	ctx, cancel := context.WithCancel(context.Background())
	done := make(chan struct{})
	go func() {
		_ = svc.Run(ctx)
		close(done)
	}()
	if !g.WaitArrived(5 * time.Second) {
		cancel()
		g.Release()
		return fx.Inconclusive("gate client.keepalive.start not reached (not placed?)")
	}
	// logged in, the watcher goroutine exists but has not looked at the control yet: stop the service
	cancel()
	select {
	case <-done:
	case <-time.After(5 * time.Second):
		g.Release()
		return fmt.Errorf("client service did not stop within 5 s of the cancellation")
	}
	time.Sleep(time.Duration(c.DelayMs) * time.Millisecond)
	g.Release() // an unrecovered nil dereference here kills the whole process; the journal names this case
	time.Sleep(50 * time.Millisecond)
	return nil
}

func TestFrpcStopAtLogin(t *testing.T) {
	if !fx.Hooked || fx.Shard() != 0 || fx.Replaying() {
		return
	}
	for i, c := range []StopCase{{DelayMs: 0, TCPMux: true}, {DelayMs: 5, TCPMux: false}} {
		fx.JournalCase("C16", "frpc_stop_at_login", c)
		err := runStop(c)
		if fx.IsInconclusive(err) {
			fx.Note("frpc_stop_at_login", "%v", err)
			continue
		}
		if err != nil {
			fx.ReportViolation("C16", "frpc_stop_at_login", c, err)
			t.Errorf("C16/frpc_stop_at_login: %v", err)
			continue
		}
		fx.Record("frpc_stop_at_login", fx.Class{NonTrivial: true, Fingerprint: fmt.Sprintf("probe-%d", i)}, c)
	}
}

func init() {
	fx.RegisterReplay("frpc_stop_at_login", func(raw json.RawMessage) error {
		var c StopCase
		if err := json.Unmarshal(raw, &c); err != nil {
			return err
		}
		return runStop(c)
	})
}
