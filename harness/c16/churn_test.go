package c16

import (
	"strings"
	"sync/atomic"
	"encoding/binary"
	"fmt"
	"net"
	"sync"
	"testing"
	"time"

	"github.com/samber/lo"

	v1 "github.com/fatedier/frp/pkg/config/v1"
	"github.com/fatedier/frp/pkg/msg"
	"github.com/fatedier/frp/pkg/util/util"
	"pgregory.net/rapid"

	"verifharness/fx"
)

// ---- frps under concurrent WELL-FORMED churn: registration, closure, group, visitor and NAT-hole traffic ----
//
// Several scripted clients run short loops at the same time against one frps child process: joining and
// leaving the same tcp / http / tcpmux group, registering and closing the same proxy names, opening visitor
// connections to an stcp proxy that its owner keeps closing and re-registering, NAT-hole requests for an xtcp
// proxy that comes and goes, session drops and re-logins, user connections. Nothing is malformed; only the
// interleaving is hostile. Afterwards the process must be alive, nothing fatal on stderr, every surviving
// session (the bystander, every worker) still gets a Pong, and a fresh login can register and use a tunnel.

type Worker struct {
	Ops    []string `json:"ops"`    // what one loop iteration does, in order
	Rounds int      `json:"rounds"` // loop iterations
	Target int      `json:"target"` // which shared object (group / name index 0..1) the ops refer to
}

type ChCase struct {
	Quota   int      `json:"max_ports_per_client"` // 0 = unlimited
	TCPMux  bool     `json:"tcpmux"`
	Workers []Worker `json:"workers"`
}

var churnOps = []string{"join-tcp", "leave-tcp", "join-http", "leave-http", "join-mux", "leave-mux", "reg-stcp", "close-stcp", "visitor", "visitor-flood", "reg-xtcp", "close-xtcp",
	"nathole-visitor", "relogin", "user-tcp", "reg-shared", "close-shared", "pause", "relogin-twin", "reg-limit", "user-limit", "close-limit", "reg-udp", "user-udp", "close-udp"}

func genCh(t *rapid.T) ChCase {
	c := ChCase{TCPMux: rapid.Bool().Draw(t, "tcpmux"), Quota: rapid.SampledFrom([]int{0, 0, 1, 2}).Draw(t, "quota")}
	n := rapid.IntRange(2, 6).Draw(t, "nworkers")
	// most cases put several workers on the same few operations: that is where the windows are
	theme := rapid.SampledFrom([][]string{{"join-tcp", "leave-tcp", "pause"}, {"join-http", "leave-http", "pause"}, {"join-mux", "leave-mux", "pause"}, {"reg-stcp", "close-stcp", "visitor", "visitor-flood", "reg-stcp", "close-stcp", "pause"},
		{"reg-xtcp", "close-xtcp", "nathole-visitor"}, {"reg-shared", "close-shared", "relogin", "relogin-twin"}, {"relogin-twin", "relogin-twin", "pause"}, {"reg-limit", "user-limit", "close-limit", "reg-limit", "user-limit"}, {"reg-udp", "user-udp", "user-udp", "user-udp", "close-udp", "reg-udp", "user-udp"}, {"join-tcp", "reg-shared", "reg-limit", "leave-tcp", "close-shared"}, churnOps}).Draw(t, "theme")
	for i := 0; i < n; i++ {
		l := fmt.Sprintf("w%d", i)
		w := Worker{Rounds: rapid.SampledFrom([]int{10, 40, 120, 400, 1200}).Draw(t, l+"/rounds"), Target: rapid.IntRange(0, 1).Draw(t, l+"/target")}
		k := rapid.IntRange(1, 4).Draw(t, l+"/nops")
		for j := 0; j < k; j++ {
			src := theme
			if rapid.IntRange(0, 5).Draw(t, fmt.Sprintf("%s/any%d", l, j)) == 0 {
				src = churnOps
			}
			w.Ops = append(w.Ops, rapid.SampledFrom(src).Draw(t, fmt.Sprintf("%s/op%d", l, j)))
		}
		c.Workers = append(c.Workers, w)
	}
	return c
}

func runCh(c ChCase) error {
	if buildErr != nil {
		return fx.Inconclusive("%v", buildErr)
	}
	blk, err := fx.Lease()
	if err != nil {
		return fx.Inconclusive("%v", err)
	}
	defer blk.Release()
	conf := serverConf(blk, c.TCPMux)
	if c.Quota > 0 {
		conf += fmt.Sprintf("maxPortsPerClient = %d\n", c.Quota)
	}
	ch, err := startChild(frpsBin, conf)
	if err != nil {
		return fx.Inconclusive("start frps: %v", err)
	}
	defer ch.stop()
	bind := fmt.Sprintf("127.0.0.1:%d", blk.Port(fx.SlotBind))
	if e := fx.WaitListen(bind, 5*time.Second); e != nil {
		return fx.Inconclusive("frps did not come up: %v\n%s", e, ch.stderr.String())
	}
	fake := &fx.Server{Cfg: &v1.ServerConfig{BindPort: blk.Port(fx.SlotBind)}, Block: blk}
	fake.Cfg.Transport.TCPMux = lo.ToPtr(c.TCPMux)
	common := func() *v1.ClientCommonConfig { return fx.ScriptedCommon(fake) }

	by, err := fx.ConnectCommon(common(), "by", "", 1, fx.TagWork("BY"))
	if err != nil {
		return fx.Inconclusive("bystander login: %v\n%s", err, ch.stderr.String())
	}
	defer by.Close()
	if r, e := by.NewProxy(&msg.NewProxy{ProxyName: "by-tcp", ProxyType: "tcp", RemotePort: blk.Port(fx.SlotAllow)}, 5*time.Second); e != nil || r.Error != "" {
		return fx.Inconclusive("bystander registration: %v %+v", e, r)
	}

	// the bystander is a scripted peer: it has to send its own heartbeats, a long churn on a loaded machine would
	// otherwise run into the server's 90 s heartbeat timeout (tcpMux off) and the bystander's tunnel would vanish
	hbStop := make(chan struct{})
	defer close(hbStop)
	go func() {
		for {
			select {
			case <-hbStop:
				return
			case <-time.After(8 * time.Second):
				_, _ = by.Ping(&msg.Ping{}, 4*time.Second)
			}
		}
	}()
	groupPort := func(tg int) int { return blk.Port(fx.SlotAllow + 2 + tg) }
	sharedPort := func(tg int) int { return blk.Port(fx.SlotAllow + 4 + tg) }
	limitPort := func(w int) int { return blk.Port(fx.SlotAllow + 8 + w%8) }
	udpPort := func(w int) int { return blk.Port(fx.SlotAllow + 16 + w%8) }
	var wg, fwg sync.WaitGroup
	stop := make(chan struct{})
	var smu sync.Mutex
	var survivors []*fx.ScriptedClient
	for wi, w := range c.Workers {
		wg.Add(1)
		go func(wi int, w Worker) {
			defer wg.Done()
			user := fmt.Sprintf("w%d", wi)
			sc, e := fx.ConnectCommon(common(), user, "", 0, hostileUDPWork(fx.TagWork(user)))
			if e != nil {
				return
			}
			defer func() {
				smu.Lock()
				survivors = append(survivors, sc)
				smu.Unlock()
			}()
			floods := 0
			own := func(kind string) string { return fmt.Sprintf("%s-%s-%d", user, kind, w.Target) }
			short := 1500 * time.Millisecond
			for r := 0; r < w.Rounds; r++ {
				for _, op := range w.Ops {
					switch op {
					case "join-tcp":
						_, _ = sc.NewProxy(&msg.NewProxy{ProxyName: own("gt"), ProxyType: "tcp", RemotePort: groupPort(w.Target), Group: fmt.Sprintf("g%d", w.Target), GroupKey: "k"}, short)
					case "leave-tcp":
						_ = sc.CloseProxy(own("gt"))
					case "join-http":
						_, _ = sc.NewProxy(&msg.NewProxy{ProxyName: own("gh"), ProxyType: "http", CustomDomains: []string{fmt.Sprintf("g%d.churn.test", w.Target)}, Group: fmt.Sprintf("h%d", w.Target), GroupKey: "k"}, short)
					case "leave-http":
						_ = sc.CloseProxy(own("gh"))
					case "join-mux":
						_, _ = sc.NewProxy(&msg.NewProxy{ProxyName: own("gm"), ProxyType: "tcpmux", Multiplexer: "httpconnect", CustomDomains: []string{fmt.Sprintf("m%d.churn.test", w.Target)}, Group: fmt.Sprintf("m%d", w.Target), GroupKey: "k"}, short)
					case "leave-mux":
						_ = sc.CloseProxy(own("gm"))
					case "reg-stcp":
						// every worker fights for the SAME name: whoever owns it at the moment answers visitors
						_, _ = sc.NewProxy(&msg.NewProxy{ProxyName: fmt.Sprintf("churn-stcp-%d", w.Target), ProxyType: "stcp", Sk: "k", AllowUsers: []string{"*"}}, short)
					case "close-stcp":
						_ = sc.CloseProxy(fmt.Sprintf("churn-stcp-%d", w.Target))
					case "visitor":
						if vc, _, e := sc.VisitorConn(fx.SignedVisitor(sc.RunID, fmt.Sprintf("churn-stcp-%d", w.Target), "k"), short); e == nil {
							vc.Close()
						}
					case "visitor-flood":
						// visitor connections keep arriving from several goroutines while the loop goes on
						if floods < 4 {
							floods++
							name := fmt.Sprintf("churn-stcp-%d", w.Target)
							fsc := sc
							for g := 0; g < 6; g++ {
								fwg.Add(1)
								go func() {
									defer fwg.Done()
									for i := 0; i < 2500; i++ { // bounded: each attempt costs a stream / connection and memory under -race
										select {
										case <-stop:
											return
										default:
										}
										time.Sleep(100 * time.Microsecond)
										if vc, _, e := fsc.VisitorConn(fx.SignedVisitor("", name, "k"), 300*time.Millisecond); e == nil {
											vc.Close()
										}
									}
								}()
							}
						}
					case "reg-xtcp":
						_, _ = sc.NewProxy(&msg.NewProxy{ProxyName: fmt.Sprintf("churn-xtcp-%d", w.Target), ProxyType: "xtcp", Sk: "k", AllowUsers: []string{"*"}}, short)
					case "close-xtcp":
						_ = sc.CloseProxy(fmt.Sprintf("churn-xtcp-%d", w.Target))
					case "nathole-visitor":
						ts := time.Now().Unix()
						_ = sc.Send(&msg.NatHoleVisitor{TransactionID: fmt.Sprintf("%s-%d", user, r), ProxyName: fmt.Sprintf("churn-xtcp-%d", w.Target), Timestamp: ts,
							SignKey: util.GetAuthKey("k", ts), MappedAddrs: []string{"127.0.0.1:1000"}, AssistedAddrs: []string{"127.0.0.1:1001"}})
					case "relogin":
						sc.Close()
						nsc, e := fx.ConnectCommon(common(), user, "", 0, fx.TagWork(user))
						if e != nil {
							return
						}
						sc = nsc
					case "relogin-twin":
						// two logins carrying this session's run id at the same moment (a flapping client): each replaces
						// whatever holds the run id, possibly a control that has only just been added
						rid := sc.RunID
						type res struct {
							sc *fx.ScriptedClient
							e  error
						}
						ch := make(chan res, 2)
						for k := 0; k < 2; k++ {
							go func() {
								n, e := fx.ConnectCommon(common(), user, rid, 0, fx.TagWork(user))
								ch <- res{n, e}
							}()
						}
						var alive *fx.ScriptedClient
						for k := 0; k < 2; k++ {
							r := <-ch
							if r.e == nil {
								if alive != nil {
									alive.Close()
								}
								alive = r.sc
							}
						}
						if alive == nil {
							return
						}
						sc.Close()
						sc = alive
					case "user-tcp":
						if cn, e := net.DialTimeout("tcp", fmt.Sprintf("127.0.0.1:%d", groupPort(w.Target)), 300*time.Millisecond); e == nil {
							_ = cn.SetReadDeadline(time.Now().Add(100 * time.Millisecond))
							_, _ = cn.Read(make([]byte, 16))
							cn.Close()
						}
					case "pause":
						time.Sleep(time.Duration(r%5) * 200 * time.Microsecond)
					case "reg-limit":
						// a bandwidth limit is an unvalidated string from the peer: negative, overflowing, not a number
						lim := []string{"-1MB", "1e13MB", "InfMB", "NaNKB", "1KB", "0KB", "9223372036854775807KB"}[(r+wi)%7]
						_, _ = sc.NewProxy(&msg.NewProxy{ProxyName: own("lim"), ProxyType: "tcp", RemotePort: limitPort(wi), BandwidthLimit: lim, BandwidthLimitMode: "server"}, short)
					case "close-limit":
						_ = sc.CloseProxy(own("lim"))
					case "user-limit":
						if cn, e := net.DialTimeout("tcp", fmt.Sprintf("127.0.0.1:%d", limitPort(wi)), 300*time.Millisecond); e == nil {
							_ = cn.SetDeadline(time.Now().Add(300 * time.Millisecond))
							_, _ = cn.Write([]byte("hello"))
							_, _ = cn.Read(make([]byte, 64))
							cn.Close()
						}
					case "reg-udp":
						_, _ = sc.NewProxy(&msg.NewProxy{ProxyName: own("udp"), ProxyType: "udp", RemotePort: udpPort(wi)}, short)
					case "close-udp":
						_ = sc.CloseProxy(own("udp"))
					case "user-udp":
						if cn, e := net.Dial("udp", fmt.Sprintf("127.0.0.1:%d", udpPort(wi))); e == nil {
							_, _ = cn.Write([]byte("ping"))
							_ = cn.SetReadDeadline(time.Now().Add(30 * time.Millisecond))
							_, _ = cn.Read(make([]byte, 64))
							cn.Close()
						}
					case "reg-shared":
						_, _ = sc.NewProxy(&msg.NewProxy{ProxyName: fmt.Sprintf("shared-%d", w.Target), ProxyType: "tcp", RemotePort: sharedPort(w.Target)}, short)
					case "close-shared":
						_ = sc.CloseProxy(fmt.Sprintf("shared-%d", w.Target))
					}
				}
			}
		}(wi, w)
	}
	wg.Wait()
	close(stop)
	fwg.Wait()
	defer func() {
		for _, sc := range survivors {
			sc.Close()
		}
	}()
	time.Sleep(50 * time.Millisecond)

	if !ch.alive() {
		return fmt.Errorf("frps terminated during the churn:\n%s", tail(ch.stderr.String()))
	}
	if t := ch.crashText(); t != "" {
		return fmt.Errorf("frps reported a fatal condition:\n%s", t)
	}
	for i, sc := range append([]*fx.ScriptedClient{by}, survivors...) {
		if !sc.ControlAlive() {
			continue
		}
		if _, e := sc.Ping(&msg.Ping{}, 4*time.Second); e != nil {
			if !ch.alive() {
				return fmt.Errorf("frps terminated:\n%s", tail(ch.stderr.String()))
			}
			if !sc.ControlAlive() {
				continue
			}
			who := "the bystander"
			if i > 0 {
				who = "a churn worker"
			}
			// the churn is over; a server that is merely working off its backlog (tens of thousands of visitor streams,
			// under -race on a saturated machine) answers late, a wedged one never does
			if _, e2 := sc.Ping(&msg.Ping{}, 20*time.Second); e2 == nil {
				fx.Note("frps_churn", "%s's Pong took more than 4 s after the churn had stopped (answered within 24 s): slow, not stalled", who)
				continue
			}
			if !ch.alive() {
				return fmt.Errorf("frps terminated:\n%s", tail(ch.stderr.String()))
			}
			if !sc.ControlAlive() {
				continue
			}
			return fmt.Errorf("%s's session gets no Pong for its Pings within 24 s after the churn stopped (%v): its message handling is stalled", who, e)
		}
	}
	cn, e := net.DialTimeout("tcp", fmt.Sprintf("127.0.0.1:%d", blk.Port(fx.SlotAllow)), 2*time.Second)
	if e != nil {
		return fmt.Errorf("bystander's tunnel port is gone after the churn: %v", e)
	}
	line, e := fx.ReadLine(cn, 5*time.Second)
	cn.Close()
	if e != nil || line != "BY:by-tcp" {
		return fmt.Errorf("bystander's tunnel answers %q (%v) after the churn", line, e)
	}
	fresh, e := fx.ConnectCommon(common(), "fresh", "", 0, fx.TagWork("F"))
	if e != nil {
		return fmt.Errorf("fresh login after the churn failed: %v\n%s", e, tail(ch.stderr.String()))
	}
	defer fresh.Close()
	// the fresh session can use every object the churn fought over
	for tg := 0; tg < 2; tg++ {
		if c.Quota > 0 && tg >= c.Quota {
			break // the fresh session has a port quota of its own
		}
		if r, e := fresh.NewProxy(&msg.NewProxy{ProxyName: fmt.Sprintf("fresh-g%d", tg), ProxyType: "tcp", RemotePort: groupPort(tg), Group: fmt.Sprintf("g%d", tg), GroupKey: "k"}, 5*time.Second); e != nil {
			return fmt.Errorf("after the churn a fresh session's registration into tcp group g%d is never answered (%v)", tg, e)
		} else if r.Error != "" && !survivorsHold(survivors) {
			return fmt.Errorf("after the churn a fresh session cannot join tcp group g%d: %s", tg, r.Error)
		}
	}
	if t := ch.crashText(); t != "" || !ch.alive() {
		return fmt.Errorf("frps reported a fatal condition:\n%s", tail(ch.stderr.String()))
	}
	return nil
}

// survivorsHold: workers that ended with a registration still hold it; a refusal of the fresh session may then be legitimate.
func survivorsHold(s []*fx.ScriptedClient) bool {
	for _, sc := range s {
		if sc.ControlAlive() {
			return true
		}
	}
	return false
}

func TestFrpsChurn(t *testing.T) {
	fx.Prelease(2)
	fx.Run(t, fx.Spec[ChCase]{Prop: "C16", Name: "frps_churn", Journal: true, Quick: 320, Thorough: 2000, Gen: genCh, Run: runCh, ShrinkTime: "60s",
		Class: func(c ChCase) fx.Class {
			ops := map[string]int{}
			for _, w := range c.Workers {
				for _, o := range w.Ops {
					ops[o]++
				}
			}
			shared := false
			for _, n := range ops {
				if n >= 2 {
					shared = true
				}
			}
			return fx.Class{NonTrivial: shared, Fingerprint: fmt.Sprintf("%+v", c)}
		}})
}


// hostileUDPWork: on the work connection of a udp proxy the peer owns the reply stream. Every datagram of a user is
// answered by hand-made UDPPacket frames an honest frpc never sends - no address, null address, empty address, port out
// of range, zone, content that is not base64, content of the wrong JSON type, other message types - and then by the
// proper reply. Work connections of other proxies are served by next.
func hostileUDPWork(next func(*fx.ScriptedClient, net.Conn, *msg.StartWorkConn)) func(*fx.ScriptedClient, net.Conn, *msg.StartWorkConn) {
	bodies := []string{
		`{"c":"cG9uZw=="}`,
		`{"c":"cG9uZw==","r":null,"l":null}`,
		`{"c":"cG9uZw==","r":{"IP":"","Port":0,"Zone":""}}`,
		`{"c":"cG9uZw==","r":{"IP":"127.0.0.1","Port":-1,"Zone":""}}`,
		`{"c":"cG9uZw==","r":{"IP":"::1","Port":99999,"Zone":"eth0"}}`,
		`{"c":"!!! not base64 !!!","r":{"IP":"127.0.0.1","Port":9,"Zone":""}}`,
		`{"c":"","r":{"IP":"255.255.255.255","Port":65535,"Zone":""}}`,
		`{"r":{"IP":"127.0.0.1","Port":9,"Zone":""}}`,
	}
	frame := func(tb byte, body string) []byte {
		b := make([]byte, 9, 9+len(body))
		b[0] = tb
		binary.BigEndian.PutUint64(b[1:], uint64(len(body)))
		return append(b, body...)
	}
	var n atomic.Int64
	return func(sc *fx.ScriptedClient, wc net.Conn, st *msg.StartWorkConn) {
		if !strings.Contains(st.ProxyName, "-udp-") {
			next(sc, wc, st)
			return
		}
		defer wc.Close()
		for {
			m, err := msg.ReadMsg(wc)
			if err != nil {
				return
			}
			pkt, ok := m.(*msg.UDPPacket)
			if !ok {
				continue
			}
			k := int(n.Add(1))
			_, _ = wc.Write(frame('u', bodies[k%len(bodies)]))
			switch k % 5 {
			case 1:
				_ = msg.WriteMsg(wc, &msg.Ping{})
			case 2:
				_ = msg.WriteMsg(wc, &msg.NewProxy{ProxyName: "x", ProxyType: "udp"})
			case 3:
				_, _ = wc.Write(frame('u', `{"c":123}`)) // wrong JSON type: the server gives up on this work connection
			}
			if err := msg.WriteMsg(wc, pkt); err != nil {
				return
			}
		}
	}
}
