// Package c16: no input or interleaving crashes or wedges frps or frpc.
package c16

import (
	"bytes"
	"encoding/binary"
	"encoding/json"
	"fmt"
	"io"
	"net"
	"os"
	"os/exec"
	"path/filepath"
	"strings"
	"sync"
	"testing"
	"time"

	"github.com/samber/lo"

	v1 "github.com/fatedier/frp/pkg/config/v1"
	"github.com/fatedier/frp/pkg/msg"
	netpkg "github.com/fatedier/frp/pkg/util/net"
	"github.com/fatedier/frp/pkg/util/util"
	"pgregory.net/rapid"

	"verifharness/fx"
)

var (
	frpsBin, frpcBin string
	buildErr         error
)

func TestMain(m *testing.M) {
	// sacrificial children: the real binaries built from /repo's current working tree
	dir, _ := os.MkdirTemp("", "verif-c16-bin")
	repo := os.Getenv("VERIF_REPO")
	if repo == "" {
		repo = "/repo"
	}
	race := os.Getenv("VERIF_RACE") == "1"
	build := func(name string) string {
		out := filepath.Join(dir, name)
		args := []string{"build", "-o", out}
		if race {
			args = append(args, "-race")
		}
		args = append(args, "./cmd/"+name)
		cmd := exec.Command("go", args...)
		cmd.Dir = repo
		cmd.Env = append(os.Environ(), "GOFLAGS=-mod=mod", "GOPROXY=off", "GOSUMDB=off", "GOTOOLCHAIN=local")
		if b, err := cmd.CombinedOutput(); err != nil {
			buildErr = fmt.Errorf("go build %s: %v\n%s", name, err, b)
		}
		return out
	}
	frpsBin, frpcBin = build("frps"), build("frpc")
	defer os.RemoveAll(dir)
	fx.Main(m, "C16")
}

// ---- field-level hostile message generation ---------------------------------------------------

type HMsg struct {
	Type byte   `json:"type"`
	Body string `json:"body"` // JSON text (hand-written, may contain invalid UTF-8 escapes / wrong types)
	Where string `json:"where"` // first | control | workconn | visitor
}

var intExtremes = []string{"-9223372036854775808", "-2147483649", "-65536", "-11", "-1", "0", "1", "65535", "65536", "2147483648", "9223372036854775807", "1e3", "12345678901234567890"}
var strExtremes = []string{`""`, `"a"`, `"\u0000"`, `"\ud800"`, `"\n\r\t"`, `"../../etc/passwd"`, `"*"`, `"%s%n"`, `"‮"`, `"` + strings.Repeat("A", 9000) + `"`, `"tcp"`, `"xtcp"`, `"httpconnect"`, `"127.0.0.1:99999"`, `"[::1]:80"`, `"1.2.3.4:-1"`, `":"`}

func genVal(t *rapid.T, l string) string {
	switch rapid.IntRange(0, 7).Draw(t, l+"/k") {
	case 0, 1:
		return rapid.SampledFrom(intExtremes).Draw(t, l)
	case 2, 3, 4:
		return rapid.SampledFrom(strExtremes).Draw(t, l)
	case 5:
		return rapid.SampledFrom([]string{"null", "true", "false", "{}", "[]", `[""]`, `["a","a","a"]`, `{"a":"b"}`, `{"":""}`, `[null]`}).Draw(t, l)
	case 6:
		return rapid.SampledFrom([]string{`{"IP":"1.2.3.4","Port":-1,"Zone":""}`, `{"IP":"","Port":70000}`, `{"IP":"::1","Port":1,"Zone":"` + strings.Repeat("z", 300) + `"}`}).Draw(t, l)
	default:
		return `"` + rapid.StringMatching(`[a-z0-9.:*-]{0,12}`).Draw(t, l) + `"`
	}
}

var fieldsByType = map[byte][]string{
	'o': {"version", "hostname", "os", "arch", "user", "privilege_key", "timestamp", "run_id", "metas", "client_spec", "pool_count"},
	'p': {"proxy_name", "proxy_type", "use_encryption", "use_compression", "bandwidth_limit", "bandwidth_limit_mode", "group", "group_key", "metas", "annotations", "remote_port", "custom_domains", "subdomain", "locations", "http_user", "http_pwd", "host_header_rewrite", "headers", "response_headers", "route_by_http_user", "sk", "allow_users", "multiplexer"},
	'c': {"proxy_name"},
	'w': {"run_id", "privilege_key", "timestamp"},
	'r': {},
	's': {"proxy_name", "src_addr", "dst_addr", "src_port", "dst_port", "error"},
	'v': {"run_id", "proxy_name", "sign_key", "timestamp", "use_encryption", "use_compression"},
	'h': {"privilege_key", "timestamp"},
	'u': {"c", "l", "r"},
	'i': {"transaction_id", "proxy_name", "pre_check", "protocol", "sign_key", "timestamp", "mapped_addrs", "assisted_addrs"},
	'n': {"transaction_id", "proxy_name", "sid", "mapped_addrs", "assisted_addrs"},
	'6': {"sid", "success"},
	'1': {"version", "run_id", "error"}, '2': {"proxy_name", "remote_addr", "error"}, '3': {"proxy_name", "error"}, '4': {"error"}, 'm': {"transaction_id", "sid", "protocol", "candidate_addrs", "assisted_addrs", "detect_behavior", "error"}, '5': {"transaction_id", "sid", "response", "nonce"},
}

func genHMsg(t *rapid.T, l string, types []byte) HMsg {
	ty := rapid.SampledFrom(types).Draw(t, l+"/type")
	var parts []string
	for _, f := range fieldsByType[ty] {
		if rapid.IntRange(0, 2).Draw(t, l+"/has-"+f) > 0 {
			parts = append(parts, fmt.Sprintf("%q:%s", f, genVal(t, l+"/"+f)))
		}
	}
	body := "{" + strings.Join(parts, ",") + "}"
	if ty == 'p' && rapid.IntRange(0, 2).Draw(t, l+"/plausible") == 0 {
		// a registration that passes validation for its type (whatever listeners the server runs or does not run)
		pt := rapid.SampledFrom([]string{"tcp", "udp", "http", "https", "tcpmux", "stcp", "sudp", "xtcp"}).Draw(t, l+"/ptype")
		n := rapid.IntRange(0, 3).Draw(t, l+"/pn")
		body = fmt.Sprintf(`{"proxy_name":"hp-%s-%d","proxy_type":%q,"custom_domains":["h%d.%s.test"],"multiplexer":"httpconnect","sk":"k","remote_port":0,"group":%q,"group_key":"k"}`,
			pt, n, pt, n, pt, rapid.SampledFrom([]string{"", "", "g"}).Draw(t, l+"/pgroup"))
	}
	if rapid.IntRange(0, 15).Draw(t, l+"/garbage") == 0 {
		body = rapid.SampledFrom([]string{"", "{", "null", "[]", `{"a":`, strings.Repeat("[", 5000), `"x"`, "\xff\xfe"}).Draw(t, l+"/gb")
	}
	return HMsg{Type: ty, Body: body}
}

func frameOf(m HMsg) []byte {
	var b bytes.Buffer
	b.WriteByte(m.Type)
	_ = binary.Write(&b, binary.BigEndian, int64(len(m.Body)))
	b.WriteString(m.Body)
	return b.Bytes()
}

// ---- frps barrage --------------------------------------------------------------------------------

type Peer struct {
	Auth   bool   `json:"auth"`    // logs in first (valid key) and sends on the encrypted control channel
	Login  *HMsg  `json:"login,omitempty"` // hostile login (unauthenticated peers / extra fields on valid login)
	Pool   string `json:"pool,omitempty"`  // pool_count for the valid login
	Msgs   []HMsg `json:"msgs"`
	Drop   bool   `json:"drop"` // abrupt disconnect at the end
}

type SCase struct {
	TCPMux bool   `json:"tcpmux"`
	Peers  []Peer `json:"peers"`
	Users  int    `json:"users"` // garbage user connections on the vhost / proxy ports
	Without int   `json:"without"` // optional listeners the server does NOT run (bit 0 vhost http, 1 vhost https, 2 tcpmux)
	UserReqs []UserReq `json:"user_reqs,omitempty"` // generated hostile requests from anonymous users on the shared ports
}

// UserReq is one anonymous user connection: raw bytes written to one of the user-facing ports.
type UserReq struct {
	Slot int    `json:"slot"` // 0 vhost http, 1 vhost https, 2 tcpmux CONNECT port, 3 bind port
	Raw  []byte `json:"raw"`
}

// genUserReq draws an HTTP-shaped request with hostile header values (the vhost http, tcpmux and bind ports all parse
// what an anonymous user sends before any authentication), or a mangled TLS ClientHello.
func genUserReq(t *rapid.T, l string) UserReq {
	r := UserReq{Slot: rapid.IntRange(0, 3).Draw(t, l+"/slot")}
	if rapid.IntRange(0, 5).Draw(t, l+"/tls") == 0 {
		hello := []byte{0x16, 0x03, 0x01}
		body := rapid.SliceOfN(rapid.Byte(), 0, 80).Draw(t, l+"/hello")
		ln := rapid.SampledFrom([]int{len(body), 0, 1, 0xffff, len(body) + 7}).Draw(t, l+"/len")
		hello = append(hello, byte(ln>>8), byte(ln), 0x01)
		r.Raw = append(hello, body...)
		return r
	}
	methods := []string{"GET", "CONNECT", "CONNECT", "POST", "OPTIONS", "PRI", "", "G\x00T"}
	if r.Slot == 2 {
		methods = []string{"CONNECT", "CONNECT", "CONNECT", "CONNECT", "connect", "GET", ""} // what the CONNECT port expects, mostly
	}
	method := rapid.SampledFrom(methods).Draw(t, l+"/method")
	target := rapid.SampledFrom([]string{"/", "by.test:80", "by.test:443", ":0", "*", "", "http://by.test/%zz", "/" + strings.Repeat("a", 3000), "[::1", "by.test:99999"}).Draw(t, l+"/target")
	version := rapid.SampledFrom([]string{"HTTP/1.1", "HTTP/1.1", "HTTP/1.0", "HTTP/2.0", "HTTP/9.9", ""}).Draw(t, l+"/version")
	vals := []string{"", " ", "Basic", "Basic ", "Basic    ", "basic", "Basic !!!", "Basic dXNlcg==", "Basic dXNlcjpwdw==", "Basic Og==", "Basic =", "Bearer x", "Digest", "\xff\xfe", strings.Repeat("A", 5000),
		"by.test", "by.test:80", "BY.TEST.", ".", "*", "[::1]:80", "-1", "0", "18446744073709551616", "chunked", "upgrade", "websocket", "h2c", "close, keep-alive"}
	names := []string{"Host", "Host", "Proxy-Authorization", "Proxy-Authorization", "Authorization", "Connection", "Upgrade", "Content-Length", "Transfer-Encoding", "X-Forwarded-For", "Expect", "HTTP2-Settings", "Sec-WebSocket-Key", ""}
	if r.Slot == 2 {
		names = append(names, "Proxy-Authorization", "Proxy-Authorization", "Proxy-Authorization", "Proxy-Connection")
	}
	var b strings.Builder
	b.WriteString(method + " " + target + " " + version + "\r\n")
	n := rapid.IntRange(0, 5).Draw(t, l+"/nh")
	for i := 0; i < n; i++ {
		name := rapid.SampledFrom(names).Draw(t, fmt.Sprintf("%s/h%d", l, i))
		val := rapid.SampledFrom(vals).Draw(t, fmt.Sprintf("%s/v%d", l, i))
		sep := rapid.SampledFrom([]string{": ", ": ", ":", " : ", ":\t"}).Draw(t, fmt.Sprintf("%s/s%d", l, i))
		b.WriteString(name + sep + val + "\r\n")
	}
	if rapid.IntRange(0, 6).Draw(t, l+"/unterminated") != 0 {
		b.WriteString("\r\n")
	}
	if rapid.Bool().Draw(t, l+"/body") {
		b.WriteString("0\r\n\r\nGET / HTTP/1.1\r\n\r\n")
	}
	r.Raw = []byte(b.String())
	return r
}

var controlTypes = []byte{'p', 'c', 'h', 'i', 'n', '6', 'p', 'p', 'i', 'n', 'r', 's', 'u', '1', '2', '4', 'm', '5', 'w', 'v', 'o'}
var firstTypes = []byte{'o', 'o', 'w', 'v', 'p', 'h', 'u', 'r', 's', 'i', '1'}

func genS(t *rapid.T) SCase {
	c := SCase{TCPMux: rapid.Bool().Draw(t, "tcpmux"), Users: rapid.IntRange(0, 4).Draw(t, "users"), Without: rapid.SampledFrom([]int{0, 0, 0, 1, 2, 4, 3, 6, 7}).Draw(t, "without")}
	n := rapid.IntRange(1, 6).Draw(t, "npeers")
	for i := 0; i < n; i++ {
		l := fmt.Sprintf("peer%d", i)
		p := Peer{Auth: rapid.IntRange(0, 3).Draw(t, l+"/auth") > 0, Drop: rapid.Bool().Draw(t, l+"/drop")}
		k := rapid.IntRange(1, 12).Draw(t, l+"/n")
		if p.Auth {
			p.Pool = rapid.SampledFrom([]string{"0", "1", "3", "-1", "-10", "-11", "-1000", "2147483647", "9223372036854775807", "100000"}).Draw(t, l+"/pool")
			for j := 0; j < k; j++ {
				p.Msgs = append(p.Msgs, genHMsg(t, fmt.Sprintf("%s/m%d", l, j), controlTypes))
			}
		} else {
			lm := genHMsg(t, l+"/login", firstTypes)
			p.Login = &lm
			for j := 0; j < k; j++ {
				p.Msgs = append(p.Msgs, genHMsg(t, fmt.Sprintf("%s/m%d", l, j), controlTypes))
			}
		}
		c.Peers = append(c.Peers, p)
	}
	nu := rapid.IntRange(0, 8).Draw(t, "nuserreqs")
	for i := 0; i < nu; i++ {
		c.UserReqs = append(c.UserReqs, genUserReq(t, fmt.Sprintf("ureq%d", i)))
	}
	return c
}

// lockedBuffer collects the child's output; the exec package writes to it from its own goroutine.
type lockedBuffer struct {
	mu sync.Mutex
	b  bytes.Buffer
}

func (l *lockedBuffer) Write(p []byte) (int, error) {
	l.mu.Lock()
	defer l.mu.Unlock()
	return l.b.Write(p)
}

func (l *lockedBuffer) String() string {
	l.mu.Lock()
	defer l.mu.Unlock()
	return l.b.String()
}

type child struct {
	cmd    *exec.Cmd
	stderr *lockedBuffer
	dir    string
	done   chan struct{}
	mu     sync.Mutex
}

func startChild(bin, conf string) (*child, error) {
	dir, _ := os.MkdirTemp("", "verif-c16")
	cf := filepath.Join(dir, "conf.toml")
	_ = os.WriteFile(cf, []byte(conf), 0o644)
	cmd := exec.Command(bin, "-c", cf)
	cmd.Dir = dir
	var buf lockedBuffer
	cmd.Stderr = &buf
	cmd.Stdout = &buf
	if err := cmd.Start(); err != nil {
		return nil, err
	}
	ch := &child{cmd: cmd, stderr: &buf, dir: dir, done: make(chan struct{})}
	go func() { _ = cmd.Wait(); close(ch.done) }()
	return ch, nil
}

func (c *child) alive() bool {
	select {
	case <-c.done:
		return false
	default:
		return true
	}
}

func (c *child) stop() {
	if c.alive() {
		_ = c.cmd.Process.Kill()
		<-c.done
	}
	os.RemoveAll(c.dir)
}

func (c *child) crashText() string {
	s := c.stderr.String()
	for _, marker := range []string{"panic: ", "fatal error: "} {
		if i := strings.Index(s, marker); i >= 0 {
			end := min(len(s), i+1500)
			return s[i:end]
		}
	}
	// -race children: a race on a Go map reached from frp code is the "unsynchronised concurrent access to
	// a shared table" of the property (it is a fatal 'concurrent map writes' waiting to happen); other race
	// reports are counted as information only
	for _, rep := range strings.Split(s, "WARNING: DATA RACE")[1:] {
		if end := strings.Index(rep, "=================="); end >= 0 {
			rep = rep[:end]
		}
		if (strings.Contains(rep, "runtime.mapassign") || strings.Contains(rep, "runtime.mapaccess") || strings.Contains(rep, "runtime.mapdelete") || strings.Contains(rep, "runtime.mapiter")) && strings.Contains(rep, "github.com/fatedier/frp/") {
			return "WARNING: DATA RACE (on a map)" + rep[:min(len(rep), 1500)]
		}
		fx.AddLabel("frps_barrage", "info:data-race-not-on-a-map", 1)
	}
	return ""
}

// serverConfWithout is serverConf with some of the optional listeners left out (bit 0: vhost http, bit 1: vhost https,
// bit 2: tcpmux): messages that need a listener the server does not run must be refused, not crash it.
func serverConfWithout(b *fx.Block, tcpmux bool, without int) string {
	conf := serverConf(b, tcpmux)
	var out []string
	for _, l := range strings.Split(conf, "\n") {
		if (without&1 != 0 && strings.HasPrefix(l, "vhostHTTPPort")) || (without&2 != 0 && strings.HasPrefix(l, "vhostHTTPSPort")) || (without&4 != 0 && strings.HasPrefix(l, "tcpmuxHTTPConnectPort")) {
			continue
		}
		out = append(out, l)
	}
	return strings.Join(out, "\n")
}

func serverConf(b *fx.Block, tcpmux bool) string {
	return fmt.Sprintf(`bindAddr = "127.0.0.1"
bindPort = %d
vhostHTTPPort = %d
vhostHTTPSPort = %d
tcpmuxHTTPConnectPort = %d
auth.token = %q
transport.tcpMux = %v
userConnTimeout = 2
log.level = "error"
allowPorts = [ { start = %d, end = %d } ]
`, b.Port(fx.SlotBind), b.Port(fx.SlotVhostHTTP), b.Port(fx.SlotVhostHTTPS), b.Port(fx.SlotTCPMux), fx.Token, tcpmux, b.Port(fx.SlotAllow), b.Port(fx.BlockSize-1))
}

func runS(c SCase) error {
	if buildErr != nil {
		return fx.Inconclusive("%v", buildErr)
	}
	blk, err := fx.Lease()
	if err != nil {
		return fx.Inconclusive("%v", err)
	}
	defer blk.Release()
	ch, err := startChild(frpsBin, serverConfWithout(blk, c.TCPMux, c.Without))
	if err != nil {
		return fx.Inconclusive("start frps: %v", err)
	}
	defer ch.stop()
	bind := fmt.Sprintf("127.0.0.1:%d", blk.Port(fx.SlotBind))
	if e := fx.WaitListen(bind, 5*time.Second); e != nil {
		return fx.Inconclusive("frps did not come up: %v\n%s", e, ch.stderr.String())
	}
	// the minimal pieces of fx.Server that ScriptedCommon needs
	fake := &fx.Server{Cfg: &v1.ServerConfig{BindPort: blk.Port(fx.SlotBind)}, Block: blk}
	fake.Cfg.Transport.TCPMux = lo.ToPtr(c.TCPMux)
	common := func() *v1.ClientCommonConfig { return fx.ScriptedCommon(fake) }

	// a legitimate bystander session whose tunnel and heartbeat must keep working
	by, err := fx.ConnectCommon(common(), "by", "", 1, fx.TagWork("BY"))
	if err != nil {
		return fx.Inconclusive("bystander login: %v\n%s", err, ch.stderr.String())
	}
	defer by.Close()
	if r, e := by.NewProxy(&msg.NewProxy{ProxyName: "by-tcp", ProxyType: "tcp", RemotePort: blk.Port(fx.SlotAllow)}, 5*time.Second); e != nil || r.Error != "" {
		return fx.Inconclusive("bystander registration: %v %+v", e, r)
	}
	hbStop := make(chan struct{})
	defer close(hbStop)
	go func() { // the scripted bystander sends its own heartbeats (see churn_test.go)
		for {
			select {
			case <-hbStop:
				return
			case <-time.After(8 * time.Second):
				_, _ = by.Ping(&msg.Ping{}, 4*time.Second)
			}
		}
	}()
	_, _ = by.NewProxy(&msg.NewProxy{ProxyName: "by-xtcp", ProxyType: "xtcp", Sk: "k", AllowUsers: []string{"*"}}, 5*time.Second)
	_, _ = by.NewProxy(&msg.NewProxy{ProxyName: "by-stcp", ProxyType: "stcp", Sk: "k", AllowUsers: []string{"*"}}, 5*time.Second)

	var wg sync.WaitGroup
	for _, p := range c.Peers {
		wg.Add(1)
		go func(p Peer) {
			defer wg.Done()
			sc, e := fx.Dial(common())
			if e != nil {
				return
			}
			defer func() {
				if p.Drop {
					sc.Close()
				} else {
					time.Sleep(20 * time.Millisecond)
					sc.Close()
				}
			}()
			if p.Auth {
				ts := time.Now().Unix()
				body := fmt.Sprintf(`{"version":"0.62.0","user":"h","timestamp":%d,"privilege_key":%q,"pool_count":%s}`, ts, util.GetAuthKey(fx.Token, ts), p.Pool)
				if _, e := sc.Conn.Write(frameOf(HMsg{Type: 'o', Body: body})); e != nil {
					return
				}
				_ = sc.Conn.SetReadDeadline(time.Now().Add(3 * time.Second))
				var lr msg.LoginResp
				if e := msg.ReadMsgInto(sc.Conn, &lr); e != nil || lr.Error != "" {
					return
				}
				_ = sc.Conn.SetReadDeadline(time.Time{})
				rw, e := netpkg.NewCryptoReadWriter(sc.Conn, []byte(fx.Token))
				if e != nil {
					return
				}
				go func() { _, _ = io.Copy(io.Discard, rw) }()
				for _, m := range p.Msgs {
					if _, e := rw.Write(frameOf(m)); e != nil {
						return
					}
				}
				return
			}
			// unauthenticated: hostile first message, then more bytes on the same connection
			if _, e := sc.Conn.Write(frameOf(*p.Login)); e != nil {
				return
			}
			for _, m := range p.Msgs {
				if _, e := sc.Conn.Write(frameOf(m)); e != nil {
					return
				}
			}
			_ = sc.Conn.SetReadDeadline(time.Now().Add(300 * time.Millisecond))
			_, _ = io.Copy(io.Discard, sc.Conn)
		}(p)
	}
	// user-side garbage on the shared ports
	for u := 0; u < c.Users; u++ {
		wg.Add(1)
		go func(u int) {
			defer wg.Done()
			slot := []int{fx.SlotVhostHTTP, fx.SlotVhostHTTPS, fx.SlotTCPMux, fx.SlotBind}[u%4]
			cn, e := net.DialTimeout("tcp", fmt.Sprintf("127.0.0.1:%d", blk.Port(slot)), time.Second)
			if e != nil {
				return
			}
			defer cn.Close()
			garbage := [][]byte{[]byte("GET / HTTP/1.1\r\nHost: \xff\xfe\r\n\r\n"), {0x16, 0x03, 0x01, 0xff, 0xff, 1, 2, 3}, []byte("CONNECT :0 HTTP/1.1\r\n\r\n"), []byte("PRI * HTTP/2.0\r\n\r\nSM\r\n\r\n"), bytes.Repeat([]byte{0}, 64)}
			_, _ = cn.Write(garbage[u%len(garbage)])
			_ = cn.SetReadDeadline(time.Now().Add(200 * time.Millisecond))
			_, _ = io.Copy(io.Discard, cn)
		}(u)
	}
	for _, ur := range c.UserReqs {
		wg.Add(1)
		go func(ur UserReq) {
			defer wg.Done()
			slot := []int{fx.SlotVhostHTTP, fx.SlotVhostHTTPS, fx.SlotTCPMux, fx.SlotBind}[ur.Slot%4]
			cn, e := net.DialTimeout("tcp", fmt.Sprintf("127.0.0.1:%d", blk.Port(slot)), time.Second)
			if e != nil {
				return
			}
			defer cn.Close()
			_, _ = cn.Write(ur.Raw)
			_ = cn.SetReadDeadline(time.Now().Add(200 * time.Millisecond))
			_, _ = io.Copy(io.Discard, cn)
		}(ur)
	}
	wg.Wait()
	time.Sleep(50 * time.Millisecond)

	// ---- oracle
	if !ch.alive() {
		return fmt.Errorf("frps terminated during the barrage:\n%s", tail(ch.stderr.String()))
	}
	if t := ch.crashText(); t != "" {
		return fmt.Errorf("frps reported a fatal condition:\n%s", t)
	}
	// the surviving legitimate session is not wedged
	if _, e := by.Ping(&msg.Ping{}, 4*time.Second); e != nil {
		if !ch.alive() {
			return fmt.Errorf("frps terminated:\n%s", tail(ch.stderr.String()))
		}
		return fmt.Errorf("the bystander session no longer gets a Pong for its Ping (%v): message handling is stalled", e)
	}
	cn, e := net.DialTimeout("tcp", fmt.Sprintf("127.0.0.1:%d", blk.Port(fx.SlotAllow)), 2*time.Second)
	if e != nil {
		return fmt.Errorf("bystander's tunnel port is gone after the barrage: %v", e)
	}
	line, e := fx.ReadLine(cn, 5*time.Second)
	cn.Close()
	if e != nil || line != "BY:by-tcp" {
		return fmt.Errorf("bystander's tunnel answers %q (%v) after the barrage", line, e)
	}
	// a fresh login + tunnel works
	fresh, e := fx.ConnectCommon(common(), "fresh", "", 0, fx.TagWork("F"))
	if e != nil {
		return fmt.Errorf("fresh login after the barrage failed: %v\n%s", e, tail(ch.stderr.String()))
	}
	defer fresh.Close()
	if r, e := fresh.NewProxy(&msg.NewProxy{ProxyName: "fresh-tcp", ProxyType: "tcp", RemotePort: blk.Port(fx.SlotAllow + 1)}, 5*time.Second); e != nil || r.Error != "" {
		return fmt.Errorf("fresh registration after the barrage failed: %v %+v", e, r)
	}
	if t := ch.crashText(); t != "" || !ch.alive() {
		return fmt.Errorf("frps reported a fatal condition:\n%s", tail(ch.stderr.String()))
	}
	return nil
}

func tail(s string) string {
	if i := strings.Index(s, "panic: "); i >= 0 {
		s = s[i:]
	} else if i := strings.Index(s, "fatal error: "); i >= 0 {
		s = s[i:]
	}
	if len(s) > 1800 {
		s = s[:1800]
	}
	return s
}

func classS(c SCase) fx.Class {
	n, authed := 0, 0
	for _, p := range c.Peers {
		n += len(p.Msgs)
		if p.Auth {
			authed++
		}
	}
	b, _ := json.Marshal(c)
	return fx.Class{NonTrivial: authed >= 1 && n >= 3, Fingerprint: string(b), Labels: []string{fmt.Sprintf("peers=%d", len(c.Peers))}}
}

func TestFrpsBarrage(t *testing.T) {
	fx.Prelease(2)
	fx.Run(t, fx.Spec[SCase]{Prop: "C16", Name: "frps_barrage", Journal: true, Quick: 240, Thorough: 4000, Gen: genS, Run: runS, Class: classS, ShrinkTime: "60s"})
}

// ---- frpc against a hostile server ------------------------------------------------------------------

type CCase struct {
	LoginResp string `json:"login_resp"` // JSON body of the LoginResp
	Msgs      []HMsg `json:"msgs"`       // sent on the control channel after login
	Flood     int    `json:"flood"`      // number of ReqWorkConn sent in a burst
	Starts    []HMsg `json:"starts"`     // sent on the work connections the client opens
}

var toClientTypes = []byte{'2', '2', 'r', 'm', 'm', '4', '4', 's', '1', '5', 'p', 'h', 'u', 'o'}

func genCC(t *rapid.T) CCase {
	c := CCase{LoginResp: rapid.SampledFrom([]string{`{"version":"0.62.0","run_id":"abc"}`, `{"run_id":""}`, `{}`, `{"run_id":"` + strings.Repeat("r", 5000) + `"}`, `{"version":"\u0000","run_id":"x\u0000y"}`, `{"run_id":"ok","error":""}`}).Draw(t, "loginresp"),
		Flood: rapid.SampledFrom([]int{0, 1, 5, 50, 300}).Draw(t, "flood")}
	n := rapid.IntRange(0, 14).Draw(t, "n")
	for i := 0; i < n; i++ {
		c.Msgs = append(c.Msgs, genHMsg(t, fmt.Sprintf("m%d", i), toClientTypes))
	}
	k := rapid.IntRange(0, 4).Draw(t, "nstarts")
	for i := 0; i < k; i++ {
		c.Starts = append(c.Starts, genHMsg(t, fmt.Sprintf("s%d", i), []byte{'s', 's', 's', 'u', '5', 'h'}))
	}
	return c
}

func runCC(c CCase) error {
	if buildErr != nil {
		return fx.Inconclusive("%v", buildErr)
	}
	blk, err := fx.Lease()
	if err != nil {
		return fx.Inconclusive("%v", err)
	}
	defer blk.Release()
	ln, err := net.Listen("tcp", fmt.Sprintf("127.0.0.1:%d", blk.Port(0)))
	if err != nil {
		return fx.Inconclusive("%v", err)
	}
	defer ln.Close()
	var mu sync.Mutex
	logins := 0
	hostileDone := false
	var workConns []net.Conn
	defer func() {
		mu.Lock()
		for _, w := range workConns {
			w.Close()
		}
		mu.Unlock()
	}()
	go func() {
		for {
			cn, e := ln.Accept()
			if e != nil {
				return
			}
			go func(cn net.Conn) {
				_ = cn.SetReadDeadline(time.Now().Add(5 * time.Second))
				m, e := msg.ReadMsg(cn)
				if e != nil {
					cn.Close()
					return
				}
				_ = cn.SetReadDeadline(time.Time{})
				switch m.(type) {
				case *msg.Login:
					mu.Lock()
					logins++
					first := logins == 1
					mu.Unlock()
					body := `{"version":"0.62.0","run_id":"good"}`
					if first {
						body = c.LoginResp
					}
					_, _ = cn.Write(frameOf(HMsg{Type: '1', Body: body}))
					rw, e := netpkg.NewCryptoReadWriter(cn, []byte(fx.Token))
					if e != nil {
						cn.Close()
						return
					}
					var wmu sync.Mutex // the encrypted stream has one writer at a time
					go func() {
						// answer registrations and pings like a normal server
						for {
							m, e := msg.ReadMsg(rw)
							if e != nil {
								return
							}
							switch v := m.(type) {
							case *msg.NewProxy:
								wmu.Lock()
								_ = msg.WriteMsg(rw, &msg.NewProxyResp{ProxyName: v.ProxyName, RemoteAddr: ":1"})
								wmu.Unlock()
							case *msg.Ping:
								wmu.Lock()
								_ = msg.WriteMsg(rw, &msg.Pong{})
								wmu.Unlock()
							}
						}
					}()
					if first {
						time.Sleep(50 * time.Millisecond)
						for _, hm := range c.Msgs {
							wmu.Lock()
							_, _ = rw.Write(frameOf(hm))
							wmu.Unlock()
						}
						for i := 0; i < c.Flood; i++ {
							wmu.Lock()
							_, _ = rw.Write(frameOf(HMsg{Type: 'r', Body: "{}"}))
							wmu.Unlock()
						}
						mu.Lock()
						hostileDone = true
						mu.Unlock()
					}
				case *msg.NewWorkConn:
					mu.Lock()
					idx := len(workConns)
					workConns = append(workConns, cn)
					mu.Unlock()
					if idx < len(c.Starts) {
						_, _ = cn.Write(frameOf(c.Starts[idx]))
					}
				default:
					cn.Close()
				}
			}(cn)
		}
	}()
	conf := fmt.Sprintf(`serverAddr = "127.0.0.1"
serverPort = %d
auth.token = %q
loginFailExit = false
transport.tcpMux = false
transport.tls.enable = false
transport.poolCount = 1
log.level = "error"
webServer.addr = "127.0.0.1"
webServer.port = %d

[[proxies]]
name = "t1"
type = "tcp"
localIP = "127.0.0.1"
localPort = 9
remotePort = 6000

[[proxies]]
name = "x1"
type = "xtcp"
secretKey = "k"
localIP = "127.0.0.1"
localPort = 9

[[proxies]]
name = "u1"
type = "udp"
localIP = "127.0.0.1"
localPort = 9
remotePort = 6001

[[proxies]]
name = "pp1"
type = "tcp"
localIP = "127.0.0.1"
localPort = %d
remotePort = 6002
transport.proxyProtocolVersion = "v2"
`, blk.Port(0), fx.Token, blk.Port(fx.SlotAdmin), blk.Port(fx.SlotExtra))
	// the local service of pp1 accepts and discards
	if lsvc, e := net.Listen("tcp", fmt.Sprintf("127.0.0.1:%d", blk.Port(fx.SlotExtra))); e == nil {
		defer lsvc.Close()
		go func() {
			for {
				c2, e := lsvc.Accept()
				if e != nil {
					return
				}
				go func() { _, _ = io.Copy(io.Discard, c2); c2.Close() }()
			}
		}()
	}
	ch, err := startChild(frpcBin, conf)
	if err != nil {
		return fx.Inconclusive("start frpc: %v", err)
	}
	defer ch.stop()
	deadline := time.Now().Add(6 * time.Second)
	for {
		mu.Lock()
		d := hostileDone
		mu.Unlock()
		if d || time.Now().After(deadline) || !ch.alive() {
			break
		}
		time.Sleep(10 * time.Millisecond)
	}
	time.Sleep(400 * time.Millisecond)
	if !ch.alive() {
		return fmt.Errorf("frpc terminated after hostile server messages:\n%s", tail(ch.stderr.String()))
	}
	if t := ch.crashText(); t != "" {
		return fmt.Errorf("frpc reported a fatal condition:\n%s", t)
	}
	// still serving: its admin API answers
	adm := fmt.Sprintf("127.0.0.1:%d", blk.Port(fx.SlotAdmin))
	st, _, e := fx.HTTPGet(adm, "x", "/api/status", nil, 4*time.Second)
	if e != nil || st != 200 {
		if !ch.alive() {
			return fmt.Errorf("frpc terminated:\n%s", tail(ch.stderr.String()))
		}
		return fmt.Errorf("frpc's admin API no longer answers (%d, %v) after hostile server messages", st, e)
	}
	return nil
}

func TestFrpcHostileServer(t *testing.T) {
	fx.Run(t, fx.Spec[CCase]{Prop: "C16", Name: "frpc_hostile_server", Journal: true, Quick: 120, Thorough: 2000, Gen: genCC, Run: runCC, ShrinkTime: "60s",
		Class: func(c CCase) fx.Class {
			b, _ := json.Marshal(c)
			return fx.Class{NonTrivial: len(c.Msgs)+len(c.Starts)+c.Flood >= 2, Fingerprint: string(b)}
		}})
}
