package c04

import (
	"errors"
	"fmt"
	"net"
	"testing"
	"time"

	"github.com/samber/lo"

	v1 "github.com/fatedier/frp/pkg/config/v1"
	"github.com/fatedier/frp/pkg/msg"
	"pgregory.net/rapid"

	"verifharness/fx"
)

// oidc_token_expiry: a credential that WAS valid - the very token the session logged in with - stops being one when it
// expires. With the per-message scopes on, heartbeats carrying it no longer keep the session alive and a work connection
// carrying it is refused and closed, however often the server has accepted that token before.

type ExpCase struct {
	Scopes   []string `json:"scopes"`   // non-empty subset of HeartBeats, NewWorkConns
	Lifetime int      `json:"lifetime"` // seconds the login token stays valid
	UsesPre  int      `json:"uses_pre"` // how often the token is presented (and accepted) before it expires
	TCPMux   bool     `json:"tcpmux"`
}

func genExp(t *rapid.T) ExpCase {
	c := ExpCase{Lifetime: rapid.IntRange(2, 3).Draw(t, "lifetime"), UsesPre: rapid.IntRange(0, 3).Draw(t, "uses"), TCPMux: rapid.Bool().Draw(t, "tcpmux")}
	c.Scopes = rapid.SampledFrom([][]string{{"HeartBeats"}, {"NewWorkConns"}, {"HeartBeats", "NewWorkConns"}}).Draw(t, "scopes")
	return c
}

func runExp(c ExpCase) error {
	const hbTimeout = 2
	s, err := fx.StartServer(fx.WithServerTCPMux(c.TCPMux), fx.WithCfg(func(sc *v1.ServerConfig, b *fx.Block) {
		for _, x := range c.Scopes {
			sc.Auth.AdditionalScopes = append(sc.Auth.AdditionalScopes, v1.AuthScope(x))
		}
		sc.Transport.HeartbeatTimeout = hbTimeout
		sc.Auth.Method = v1.AuthMethodOIDC
		sc.Auth.OIDC.Issuer = fx.GetIssuer().Srv.URL
		sc.Auth.OIDC.Audience = audience
	}))
	if err != nil {
		return err
	}
	defer s.Close()
	is := fx.GetIssuer()
	hb, wk := lo.Contains(c.Scopes, "HeartBeats"), lo.Contains(c.Scopes, "NewWorkConns")
	sc, err := fx.Dial(fx.ScriptedCommon(s, func(x *v1.ClientCommonConfig) { x.Transport.TCPMux = lo.ToPtr(c.TCPMux) }))
	if err != nil {
		return fx.Inconclusive("dial: %v", err)
	}
	defer sc.Close()
	short := is.Token(fx.JWTOpts{Sub: "frpc", Aud: audience, ExpIn: time.Duration(c.Lifetime) * time.Second})
	expiresAt := time.Unix(time.Now().Add(time.Duration(c.Lifetime)*time.Second).Unix()+1, 0) // certainly expired from here on
	fresh := func() string { return is.Token(fx.JWTOpts{Sub: "frpc", Aud: audience}) }
	if e := sc.SendLogin(&msg.Login{Version: "0.62.0", User: "u", Timestamp: time.Now().Unix(), PrivilegeKey: short}); e != nil {
		return fx.Inconclusive("login with a token that is valid for %d s refused: %v", c.Lifetime, e)
	}
	// the client keeps the session alive with fresh tokens, as frpc does
	stop, stopped := make(chan struct{}), make(chan struct{})
	go func() {
		defer close(stopped)
		for {
			select {
			case <-stop:
				return
			case <-time.After(300 * time.Millisecond):
				_ = sc.Send(&msg.Ping{PrivilegeKey: fresh(), Timestamp: time.Now().Unix()})
			}
		}
	}()
	stopKeepalive := func() {
		select {
		case <-stop:
		default:
			close(stop)
		}
		<-stopped
	}
	defer stopKeepalive()
	var held []interface{ Close() error }
	defer func() {
		for _, h := range held {
			h.Close()
		}
	}()
	// while it is valid the token is accepted (that is what makes a server remember it)
	for i := 0; i < c.UsesPre && time.Now().Before(expiresAt.Add(-1500*time.Millisecond)); i++ {
		if hb {
			_ = sc.Send(&msg.Ping{PrivilegeKey: short, Timestamp: time.Now().Unix()})
		}
		if wk {
			wc, e := sc.OpenWorkConnMsg(&msg.NewWorkConn{RunID: sc.RunID, PrivilegeKey: short, Timestamp: time.Now().Unix()})
			if e == nil {
				held = append(held, wc)
			}
		}
		time.Sleep(100 * time.Millisecond)
	}
	if d := time.Until(expiresAt); d > 0 {
		time.Sleep(d)
	}
	if !sc.ControlAlive() {
		return fx.Inconclusive("session fed fresh tokens died before the test proper")
	}
	if wk {
		wc, e := sc.OpenWorkConnMsg(&msg.NewWorkConn{RunID: sc.RunID, PrivilegeKey: short, Timestamp: time.Now().Unix()})
		if e != nil {
			return fx.Inconclusive("open work conn: %v", e)
		}
		_ = wc.SetReadDeadline(time.Now().Add(3 * time.Second))
		var st msg.StartWorkConn
		e = msg.ReadMsgInto(wc, &st)
		switch {
		case e == nil && st.Error == "":
			wc.Close()
			return fmt.Errorf("a work connection carrying the login token after its expiry got a StartWorkConn for %q", st.ProxyName)
		case e == nil:
			if ce := expectClosed(wc, 3*time.Second); ce != nil {
				wc.Close()
				return fmt.Errorf("work connection carrying the expired login token: %v", ce)
			}
		case isNetTimeout(e):
			wc.Close()
			return fmt.Errorf("NewWorkConns scope on: a work connection carrying the login token %v after its expiry (presented %d times while valid) was neither refused nor closed within 3 s - it is pooled", time.Since(expiresAt).Round(time.Millisecond), c.UsesPre)
		}
		wc.Close()
	}
	if hb {
		stopKeepalive()
		start := time.Now()
		observe := 3*hbTimeout*time.Second + time.Second
		for time.Since(start) < observe && sc.ControlAlive() {
			time.Sleep(300 * time.Millisecond)
			_ = sc.Send(&msg.Ping{PrivilegeKey: short, Timestamp: time.Now().Unix()})
		}
		if sc.ControlAlive() {
			return fmt.Errorf("HeartBeats scope on: %v of heartbeats carrying the login token after its expiry (presented %d times while valid) kept the session alive (heartbeatTimeout %d s)", observe, c.UsesPre, hbTimeout)
		}
	}
	return nil
}

func isNetTimeout(err error) bool {
	var ne net.Error
	return errors.As(err, &ne) && ne.Timeout()
}

func TestOIDCTokenExpiry(t *testing.T) {
	fx.Run(t, fx.Spec[ExpCase]{Prop: "C04", Name: "oidc_token_expiry", Journal: true, Quick: 16, Thorough: 200, Gen: genExp, Run: runExp, Retry: true, ShrinkTime: "40s",
		Class: func(c ExpCase) fx.Class {
			return fx.Class{NonTrivial: true, Fingerprint: fmt.Sprintf("%+v", c), Labels: []string{"scopes=" + fmt.Sprint(c.Scopes)}}
		}})
}
