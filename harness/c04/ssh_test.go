package c04

import (
	"crypto/ed25519"
	"crypto/rand"
	"fmt"
	"net"
	"os"
	"path/filepath"
	"strings"
	"sync"
	"time"

	"golang.org/x/crypto/ssh"
)

// ---- the ssh tunnel gateway: an authorized ssh user gets a session through the gateway's internal listener (the
// only place where client_spec.always_auth_pass is honoured); nothing of that exemption may leak to other logins

type sshMaterial struct {
	dir            string
	authorizedFile string
	good, stranger ssh.Signer
}

var (
	sshOnce sync.Once
	sshMat  *sshMaterial
)

func sshKeys() *sshMaterial {
	sshOnce.Do(func() {
		dir, err := os.MkdirTemp("", "frp-verif-ssh")
		if err != nil {
			return
		}
		mk := func() ssh.Signer {
			_, priv, _ := ed25519.GenerateKey(rand.Reader)
			s, _ := ssh.NewSignerFromKey(priv)
			return s
		}
		m := &sshMaterial{dir: dir, good: mk(), stranger: mk()}
		m.authorizedFile = filepath.Join(dir, "authorized_keys")
		line := strings.TrimSpace(string(ssh.MarshalAuthorizedKey(m.good.PublicKey()))) + " tunneluser\n"
		if os.WriteFile(m.authorizedFile, []byte(line), 0o600) != nil {
			return
		}
		sshMat = m
	})
	return sshMat
}

// openSSHTunnel: `ssh -R :80:127.0.0.1:8080 v0@gateway tcp --proxy_name <name> --remote_port <port>`.
// up reports whether the tunnel's proxy started listening; authErr is the ssh-level refusal, if any.
func openSSHTunnel(gwAddr string, signer ssh.Signer, name string, remotePort int, extraArgs ...string) (closeFn func(), up bool, authErr error) {
	wait := 8 * time.Second
	if len(extraArgs) > 0 && extraArgs[0] == "--expect-refusal" { // harness marker, not part of the command
		wait, extraArgs = 1500*time.Millisecond, extraArgs[1:]
	}
	var auth []ssh.AuthMethod // nil signer: the ssh "none" method only (a gateway without authorized_keys accepts it)
	if signer != nil {
		auth = []ssh.AuthMethod{ssh.PublicKeys(signer)}
	}
	cc, err := ssh.Dial("tcp", gwAddr, &ssh.ClientConfig{User: "v0", Auth: auth,
		HostKeyCallback: ssh.InsecureIgnoreHostKey(), Timeout: 10 * time.Second})
	if err != nil {
		return func() {}, false, err
	}
	closeFn = func() { cc.Close() }
	fwd := struct {
		Host string
		Port uint32
	}{"", 80}
	if _, _, err = cc.SendRequest("tcpip-forward", true, ssh.Marshal(&fwd)); err != nil {
		return closeFn, false, nil
	}
	if chans := cc.HandleChannelOpen("forwarded-tcpip"); chans != nil {
		go func() {
			for nc := range chans {
				_ = nc.Reject(ssh.Prohibited, "verif")
			}
		}()
	}
	sess, err := cc.NewSession()
	if err != nil {
		return closeFn, false, nil
	}
	if err = sess.Start(strings.TrimSpace(fmt.Sprintf("tcp --proxy_name %s --remote_port %d %s", name, remotePort, strings.Join(extraArgs, " ")))); err != nil {
		return closeFn, false, nil
	}
	deadline := time.Now().Add(wait)
	for time.Now().Before(deadline) {
		if c, err := net.DialTimeout("tcp", fmt.Sprintf("127.0.0.1:%d", remotePort), time.Second); err == nil {
			c.Close()
			return closeFn, true, nil
		}
		time.Sleep(30 * time.Millisecond)
	}
	return closeFn, false, nil
}
