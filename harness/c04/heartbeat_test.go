package c04

import (
	"fmt"
	"testing"
	"time"

	"github.com/samber/lo"

	v1 "github.com/fatedier/frp/pkg/config/v1"
	"github.com/fatedier/frp/pkg/msg"
	"pgregory.net/rapid"

	"verifharness/fx"
)

// With the HeartBeats scope, heartbeats without a valid key must not keep a session alive
// (and heartbeats with a valid key must).

type HBCase struct {
	Method  string `json:"method"`
	Key     string `json:"key"`     // key kind of the pings sent after login: valid or one of the bad kinds
	EveryMs int    `json:"every_ms"`
	TCPMux  bool   `json:"tcpmux"`
	Timeout int    `json:"timeout"`
	Busy    bool   `json:"busy"` // the session also sends a CloseProxy for a name it does not own with every heartbeat: other traffic is no heartbeat
}

func genHB(t *rapid.T) HBCase {
	c := HBCase{Method: rapid.SampledFrom([]string{"token", "token", "oidc"}).Draw(t, "method"), EveryMs: rapid.SampledFrom([]int{200, 500, 900}).Draw(t, "every"),
		TCPMux: rapid.Bool().Draw(t, "tcpmux"), Timeout: 2}
	bad := tokenBadKeys
	if c.Method == "oidc" {
		bad = append(oidcBadKeys, "othersubject")
	}
	c.Key = rapid.SampledFrom(append([]string{"valid"}, bad...)).Draw(t, "key")
	c.Busy = rapid.Bool().Draw(t, "busy")
	return c
}

func runHB(c HBCase) error {
	cc := Case{Method: c.Method, Scopes: []string{"HeartBeats"}, Transport: "tcp", TCPMux: c.TCPMux}
	s, err := fx.StartServer(fx.WithServerTCPMux(c.TCPMux), fx.WithCfg(func(sc *v1.ServerConfig, b *fx.Block) {
		sc.Auth.AdditionalScopes = []v1.AuthScope{v1.AuthScopeHeartBeats}
		sc.Transport.HeartbeatTimeout = int64(c.Timeout)
		if c.Method == "oidc" {
			sc.Auth.Method = v1.AuthMethodOIDC
			sc.Auth.OIDC.Issuer = fx.GetIssuer().Srv.URL
			sc.Auth.OIDC.Audience = audience
		}
	}))
	if err != nil {
		return err
	}
	defer s.Close()
	sc, err := fx.Dial(fx.ScriptedCommon(s, func(x *v1.ClientCommonConfig) { x.Transport.TCPMux = lo.ToPtr(c.TCPMux) }))
	if err != nil {
		return fx.Inconclusive("dial: %v", err)
	}
	defer sc.Close()
	k, ts := makeKey(cc, "valid")
	if e := sc.SendLogin(&msg.Login{Version: "0.62.0", User: "u", Timestamp: ts, PrivilegeKey: k}); e != nil {
		return fmt.Errorf("valid login refused: %v", e)
	}
	start := time.Now()
	T := time.Duration(c.Timeout) * time.Second
	valid := validKey(cc, c.Key, true)
	observe := 3*T + time.Second
	for time.Since(start) < observe {
		time.Sleep(time.Duration(c.EveryMs) * time.Millisecond)
		key, pts := makeKey(cc, c.Key)
		_ = sc.Send(&msg.Ping{PrivilegeKey: key, Timestamp: pts})
		if c.Busy {
			_ = sc.Send(&msg.CloseProxy{ProxyName: "not-mine"})
		}
		if !sc.ControlAlive() {
			break
		}
	}
	alive := sc.ControlAlive()
	died := time.Since(start)
	if valid && !alive {
		return fmt.Errorf("session fed valid heartbeats every %dms was torn down after %v (timeout %ds)", c.EveryMs, died, c.Timeout)
	}
	if !valid && alive {
		return fmt.Errorf("HeartBeats scope on: %v of heartbeats with %s key every %dms kept the session alive (heartbeatTimeout %ds, other control messages in between: %v)", observe, c.Key, c.EveryMs, c.Timeout, c.Busy)
	}
	return nil
}

func TestInvalidHeartbeats(t *testing.T) {
	fx.Run(t, fx.Spec[HBCase]{Prop: "C04", Name: "invalid_heartbeats", Journal: true, Quick: 16, Thorough: 300, Gen: genHB, Run: runHB, Retry: true, ShrinkTime: "40s",
		Class: func(c HBCase) fx.Class {
			return fx.Class{NonTrivial: true, Fingerprint: fmt.Sprintf("%+v", c), Labels: []string{"key=" + c.Key}}
		}})
}
