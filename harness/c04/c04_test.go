// Package c04: no session, proxy or work connection without valid client credentials.
package c04

import (
	"golang.org/x/crypto/ssh"
	"path/filepath"
	"errors"
	"fmt"
	"io"
	"net"
	"sort"
	"strings"
	"testing"
	"time"

	"github.com/samber/lo"

	v1 "github.com/fatedier/frp/pkg/config/v1"
	"github.com/fatedier/frp/pkg/msg"
	"github.com/fatedier/frp/pkg/util/util"
	"pgregory.net/rapid"

	"verifharness/fx"
)

func TestMain(m *testing.M) { fx.Main(m, "C04") }

type Op struct {
	Kind       string `json:"kind"` // badlogin goodlogin firstmsg ping workconn userconn sshtunnel sshstranger
	Key        string `json:"key,omitempty"`
	AlwaysPass bool   `json:"always_pass,omitempty"`
	SpecType   string `json:"spec_type,omitempty"`
	RunID      string `json:"run_id,omitempty"` // "", "bystander", "unknown"
	Pool       int    `json:"pool,omitempty"`
	MsgType    string `json:"msg_type,omitempty"`
	Repeat     int    `json:"repeat,omitempty"`
}

type Case struct {
	Method    string   `json:"method"` // token | oidc
	Scopes    []string `json:"scopes"`
	Transport string   `json:"transport"` // tcp tls websocket kcp quic
	TCPMux    bool     `json:"tcpmux"`
	SSHAnon   bool     `json:"ssh_anonymous"` // ... without authorized_keys: any ssh peer may connect, the token is the credential
	SSH       bool     `json:"ssh_gateway"` // frps runs the ssh tunnel gateway with an authorized_keys file
	Ops       []Op     `json:"ops"`
}

var tokenBadKeys = []string{"wrongtoken", "othertimestamp", "empty", "garbage", "prefix", "uppercase", "token-in-clear"}
var oidcBadKeys = []string{"expired", "wrongkey", "wrongissuer", "wrongaudience", "algnone", "garbage", "empty"}
var firstTypes = []string{"NewProxy", "CloseProxy", "Ping", "ReqWorkConn", "StartWorkConn", "NewProxyResp", "LoginResp", "Pong", "UDPPacket",
	"NatHoleVisitor", "NatHoleClient", "NatHoleResp", "NatHoleSid", "NatHoleReport", "NewVisitorConnResp"}

func gen(t *rapid.T) Case {
	c := Case{Method: rapid.SampledFrom([]string{"token", "token", "oidc"}).Draw(t, "method")}
	for _, s := range []string{"HeartBeats", "NewWorkConns"} {
		if rapid.Bool().Draw(t, "scope-"+s) {
			c.Scopes = append(c.Scopes, s)
		}
	}
	tr := []string{"tcp", "tcp", "tls", "websocket", "quic"}
	if fx.Thorough() {
		tr = append(tr, "kcp")
	}
	c.Transport = rapid.SampledFrom(tr).Draw(t, "transport")
	c.TCPMux = rapid.Bool().Draw(t, "tcpmux")
	bad := tokenBadKeys
	if c.Method == "oidc" {
		bad = oidcBadKeys
	}
	c.SSH = c.Method == "token" && rapid.IntRange(0, 3).Draw(t, "ssh") == 0
	c.SSHAnon = c.SSH && rapid.Bool().Draw(t, "sshanon")
	kinds := []string{"badlogin", "badlogin", "badlogin", "goodlogin", "firstmsg", "ping", "ping", "workconn", "workconn", "workconn", "userconn"}
	if c.SSH {
		kinds = append(kinds, "sshtunnel", "sshtunnel", "sshstranger")
	}
	n := rapid.IntRange(2, 12).Draw(t, "nops")
	for i := 0; i < n; i++ {
		k := rapid.SampledFrom(kinds).Draw(t, "kind")
		op := Op{Kind: k}
		switch k {
		case "badlogin":
			op.Key = rapid.SampledFrom(bad).Draw(t, "key")
			op.AlwaysPass = rapid.Bool().Draw(t, "alwayspass")
			op.SpecType = rapid.SampledFrom([]string{"", "ssh-tunnel", "x"}).Draw(t, "spectype")
			op.RunID = rapid.SampledFrom([]string{"", "bystander", "unknown"}).Draw(t, "runid")
			op.Pool = rapid.SampledFrom([]int{0, 1, 3, 50}).Draw(t, "pool")
			op.Repeat = rapid.SampledFrom([]int{1, 1, 1, 5, 20}).Draw(t, "repeat")
		case "goodlogin":
			op.AlwaysPass = rapid.Bool().Draw(t, "alwayspass")
		case "sshtunnel":
			op.Repeat = rapid.IntRange(0, 1).Draw(t, "keepopen") // 1: the tunnel stays up while the following operations run
		case "sshstranger":
			op.Key = rapid.SampledFrom([]string{"wrongtoken", "empty", "absent"}).Draw(t, "sshkey") // anonymous gateway: what the stranger passes as --token
		case "firstmsg":
			op.MsgType = rapid.SampledFrom(firstTypes).Draw(t, "msgtype")
		case "ping":
			op.Key = rapid.SampledFrom(append([]string{"valid", "valid"}, append(bad, "othersubject")...)).Draw(t, "key")
		case "workconn":
			op.Key = rapid.SampledFrom(append([]string{"valid", "valid"}, append(bad, "othersubject")...)).Draw(t, "key")
			op.RunID = rapid.SampledFrom([]string{"bystander", "bystander", "unknown", ""}).Draw(t, "runid")
		}
		c.Ops = append(c.Ops, op)
	}
	return c
}

const audience = "frps-aud"

// key material for a message under the case's method; returns key and timestamp
func makeKey(c Case, kind string) (string, int64) {
	ts := time.Now().Unix()
	if c.Method == "token" {
		valid := util.GetAuthKey(fx.Token, ts)
		switch kind {
		case "valid", "othersubject":
			return valid, ts
		case "wrongtoken":
			return util.GetAuthKey("not-the-token", ts), ts
		case "othertimestamp":
			return util.GetAuthKey(fx.Token, ts-1000), ts
		case "empty":
			return "", ts
		case "garbage":
			return "zzzz-not-hex-%%%", ts
		case "prefix":
			return valid[:16], ts
		case "uppercase":
			return strings.ToUpper(valid) + "", ts
		case "token-in-clear":
			return fx.Token, ts
		}
		return "", ts
	}
	is := fx.GetIssuer()
	switch kind {
	case "valid":
		return is.Token(fx.JWTOpts{Sub: "frpc", Aud: audience}), ts
	case "othersubject":
		return is.Token(fx.JWTOpts{Sub: "somebody-else", Aud: audience}), ts
	case "expired":
		return is.Token(fx.JWTOpts{Sub: "frpc", Aud: audience, Expired: true}), ts
	case "wrongkey":
		return is.Token(fx.JWTOpts{Sub: "frpc", Aud: audience, WrongKey: true}), ts
	case "wrongissuer":
		return is.Token(fx.JWTOpts{Sub: "frpc", Aud: audience, Iss: "http://evil.example"}), ts
	case "wrongaudience":
		return is.Token(fx.JWTOpts{Sub: "frpc", Aud: "other-aud"}), ts
	case "algnone":
		return is.Token(fx.JWTOpts{Sub: "frpc", Aud: audience, AlgNone: true}), ts
	case "garbage":
		return "a.b.c", ts
	}
	return "", ts
}

// validKey says whether the reference model accepts this key kind.
func validKey(c Case, kind string, postLogin bool) bool {
	if kind == "valid" {
		return true
	}
	if kind == "othersubject" {
		// token method: identical to valid. oidc: valid token but a subject that never logged in.
		if c.Method == "token" {
			return true
		}
		return !postLogin
	}
	if kind == "uppercase" && c.Method == "token" {
		k, _ := makeKey(c, "valid")
		return strings.ToUpper(k) == k // only if the digest has no letters
	}
	return false
}

func hasScope(c Case, s string) bool {
	for _, x := range c.Scopes {
		if x == s {
			return true
		}
	}
	return false
}

func clientOpts(c Case, s *fx.Server) fx.ClientOpt {
	return func(cc *v1.ClientCommonConfig) {
		cc.Transport.TCPMux = lo.ToPtr(c.TCPMux)
		switch c.Transport {
		case "tls":
			cc.Transport.TLS.Enable = lo.ToPtr(true)
		case "websocket":
			cc.Transport.Protocol = "websocket"
		case "kcp":
			cc.Transport.Protocol = "kcp"
			cc.ServerPort = s.Block.Port(fx.SlotKCP)
		case "quic":
			cc.Transport.Protocol = "quic"
			cc.ServerPort = s.Block.Port(fx.SlotQUIC)
		}
	}
}

func firstMsg(kind string) any {
	switch kind {
	case "NewProxy":
		return &msg.NewProxy{ProxyName: "intruder", ProxyType: "tcp", RemotePort: 0}
	case "CloseProxy":
		return &msg.CloseProxy{ProxyName: "bp"}
	case "Ping":
		return &msg.Ping{}
	case "ReqWorkConn":
		return &msg.ReqWorkConn{}
	case "StartWorkConn":
		return &msg.StartWorkConn{ProxyName: "bp"}
	case "NewProxyResp":
		return &msg.NewProxyResp{ProxyName: "bp"}
	case "LoginResp":
		return &msg.LoginResp{RunID: "x"}
	case "Pong":
		return &msg.Pong{}
	case "UDPPacket":
		return &msg.UDPPacket{Content: "aGk="}
	case "NatHoleVisitor":
		return &msg.NatHoleVisitor{ProxyName: "bp", TransactionID: "t"}
	case "NatHoleClient":
		return &msg.NatHoleClient{ProxyName: "bp", Sid: "s"}
	case "NatHoleResp":
		return &msg.NatHoleResp{Sid: "s"}
	case "NatHoleSid":
		return &msg.NatHoleSid{Sid: "s"}
	case "NatHoleReport":
		return &msg.NatHoleReport{Sid: "s", Success: true}
	default:
		return &msg.NewVisitorConnResp{ProxyName: "bp"}
	}
}

// expectClosed: the peer must close conn (EOF / reset) within the bound and must not send anything interpretable first (allowed: one message of type allow).
func expectClosed(conn net.Conn, bound time.Duration) error {
	_ = conn.SetReadDeadline(time.Now().Add(bound))
	buf := make([]byte, 4096)
	total := 0
	for {
		n, err := conn.Read(buf)
		total += n
		if err != nil {
			var ne net.Error
			if errors.As(err, &ne) && ne.Timeout() {
				return fmt.Errorf("connection still open after %v (received %d bytes)", bound, total)
			}
			return nil
		}
	}
}

func run(c Case) error {
	opts := []fx.ServerOpt{fx.WithServerTCPMux(c.TCPMux), fx.WithCfg(func(sc *v1.ServerConfig, b *fx.Block) {
		for _, s := range c.Scopes {
			sc.Auth.AdditionalScopes = append(sc.Auth.AdditionalScopes, v1.AuthScope(s))
		}
		if c.Method == "oidc" {
			sc.Auth.Method = v1.AuthMethodOIDC
			sc.Auth.OIDC.Issuer = fx.GetIssuer().Srv.URL
			sc.Auth.OIDC.Audience = audience
		}
		if c.SSH && sshKeys() != nil {
			sc.SSHTunnelGateway = v1.SSHTunnelGateway{BindPort: b.Port(fx.SlotSSH), AutoGenPrivateKeyPath: filepath.Join(sshKeys().dir, fmt.Sprintf("hostkey-%d", b.Port(fx.SlotSSH))),
				AuthorizedKeysFile: sshKeys().authorizedFile}
			if c.SSHAnon {
				sc.SSHTunnelGateway.AuthorizedKeysFile = ""
			}
		}
	})}
	if c.Transport == "kcp" {
		opts = append(opts, fx.WithKCP())
	}
	if c.Transport == "quic" {
		opts = append(opts, fx.WithQUIC())
	}
	s, err := fx.StartServer(opts...)
	if err != nil {
		return err
	}
	defer s.Close()
	copt := clientOpts(c, s)

	sign := func(kind string) func(m *msg.NewWorkConn) {
		return func(m *msg.NewWorkConn) { m.PrivilegeKey, m.Timestamp = makeKey(c, kind) }
	}
	login := func(key string, ts int64, user, runID string, pool int, always bool, spec string, tag string) (*fx.ScriptedClient, error) {
		sc, e := fx.Dial(fx.ScriptedCommon(s, copt))
		if e != nil {
			return nil, fx.Inconclusive("dial: %v", e)
		}
		if tag != "" {
			sc.AutoWork = fx.TagWork(tag)
			sc.SignWork = sign("valid")
		}
		if c.Transport == "kcp" && user == "intruder" {
			// a refusal over kcp may arrive as silence (the error response is not flushed before the close): do not
			// let twenty of them outlast the bystander's heartbeat timeout
			sc.LoginRespTimeout = 300 * time.Millisecond
		}
		l := &msg.Login{Version: "0.62.0", Os: "linux", Arch: "amd64", User: user, Timestamp: ts, RunID: runID, PrivilegeKey: key, PoolCount: pool}
		l.ClientSpec.AlwaysAuthPass = always
		l.ClientSpec.Type = spec
		if e := sc.SendLogin(l); e != nil {
			return sc, e
		}
		return sc, nil
	}

	// bystander: a legitimate session with a live tcp tunnel
	k, ts := makeKey(c, "valid")
	by, err := login(k, ts, "legit", "", 1, false, "", "B")
	if err != nil {
		if by != nil {
			by.Close()
		}
		if fx.IsInconclusive(err) {
			return err
		}
		if (c.Transport == "kcp" || c.Transport == "quic") && strings.Contains(err.Error(), "timeout") {
			return fx.Inconclusive("legitimate login over %s got no answer: %v", c.Transport, err)
		}
		return fmt.Errorf("legitimate login refused: %v", err)
	}
	defer by.Close()
	resp, err := by.NewProxy(&msg.NewProxy{ProxyName: "bp", ProxyType: "tcp", RemotePort: s.AllowPort(0)}, 5*time.Second)
	if err != nil || resp.Error != "" {
		return fmt.Errorf("bystander registration failed: %v %+v", err, resp)
	}
	baseline := s.Snapshot()
	userAddr := fmt.Sprintf("127.0.0.1:%d", s.AllowPort(0))
	tags := map[string]bool{"B": true}
	userConn := func(step int) error {
		var lastErr error
		for attempt := 0; attempt < 3; attempt++ {
			conn, e := net.DialTimeout("tcp", userAddr, 2*time.Second)
			if e != nil {
				return fmt.Errorf("step %d: bystander's port no longer accepts connections: %v", step, e)
			}
			line, e := fx.ReadLine(conn, 5*time.Second)
			conn.Close()
			if e == nil {
				parts := strings.SplitN(line, ":", 2)
				if len(parts) == 2 && parts[1] == "bp" && tags[parts[0]] {
					return nil
				}
				return fmt.Errorf("step %d: user connection to the bystander's proxy was answered by %q", step, line)
			}
			lastErr = e
		}
		return fmt.Errorf("step %d: existing session disturbed: user connection not served (%v)", step, lastErr)
	}

	var extra []*fx.ScriptedClient
	var sshClosers []func()
	sshUsed := false
	_ = sshUsed
	defer func() {
		for _, cl := range sshClosers {
			cl()
		}
	}()
	defer func() {
		for _, e := range extra {
			e.Close()
		}
	}()
	var held []net.Conn
	defer func() {
		for _, h := range held {
			h.Close()
		}
	}()

	for i, op := range c.Ops {
		switch op.Kind {
		case "badlogin":
			rep := max(1, op.Repeat)
			for r := 0; r < rep; r++ {
				key, ts := makeKey(c, op.Key)
				runID := ""
				switch op.RunID {
				case "bystander":
					runID = by.RunID
				case "unknown":
					runID = "0123456789abcdef"
				}
				sc, e := login(key, ts, "intruder", runID, op.Pool, op.AlwaysPass, op.SpecType, "")
				if fx.IsInconclusive(e) {
					return e
				}
				var refused *fx.LoginRefused
				if e == nil {
					if validKey(c, op.Key, false) {
						extra = append(extra, sc)
						continue
					}
					sc.Close()
					return fmt.Errorf("step %d: login with %s key (always_auth_pass=%v, type=%q, run id %s) was ACCEPTED", i, op.Key, op.AlwaysPass, op.SpecType, op.RunID)
				}
				if validKey(c, op.Key, false) {
					sc.Close()
					continue
				}
				if !errors.As(e, &refused) {
					// closed without a LoginResp: also a refusal, but the property says "refused"
					// = error response; tolerate EOF only for transports that may drop the frame
					sc.Close()
					if c.Transport == "kcp" {
						// closing a kcp session right after the error response does not flush it: the refusal is
						// then visible as "no session, nothing answered" (the state comparison below still applies)
						fx.AddLabel("sequences", "kcp-refusal-without-response", 1)
						continue
					}
					return fmt.Errorf("step %d: refused login got no LoginResp with an error (%v)", i, e)
				}
				if ce := expectClosed(sc.Conn, 3*time.Second); ce != nil {
					sc.Close()
					return fmt.Errorf("step %d: refused login: %v", i, ce)
				}
				sc.Close()
			}
			if op.RunID == "bystander" {
				// the bystander must still be the session for its run id
				if e := by.Sync(3 * time.Second); e != nil {
					return fmt.Errorf("step %d: refused login naming the bystander's run id disturbed the bystander: %v", i, e)
				}
			}
		case "goodlogin":
			key, ts := makeKey(c, "valid")
			tag := fmt.Sprintf("X%d", i)
			sc, e := login(key, ts, "legit2", "", 0, op.AlwaysPass, "", tag)
			if e != nil {
				if sc != nil {
					sc.Close()
				}
				if fx.IsInconclusive(e) {
					return e
				}
				if (c.Transport == "kcp" || c.Transport == "quic") && strings.Contains(e.Error(), "timeout") {
					// no answer at all over a datagram transport on a saturated machine is not a refusal (seen once in a
					// thorough run with three other thorough runs going on, never reproduced from the saved case)
					return fx.Inconclusive("step %d: valid login over %s got no answer: %v", i, c.Transport, e)
				}
				return fmt.Errorf("step %d: valid login refused: %v", i, e)
			}
			extra = append(extra, sc)
		case "sshtunnel", "sshstranger":
			if !c.SSH || sshKeys() == nil {
				continue
			}
			gw := s.Addr(fx.SlotSSH)
			if c.SSHAnon {
				// a gateway without authorized_keys lets any ssh peer in; the session behind it needs the token
				if op.Kind == "sshstranger" {
					args := []string{"--expect-refusal"}
					switch op.Key {
					case "wrongtoken":
						args = []string{"--token", "not-the-token"}
					case "empty":
						args = []string{"--token", "''"}
					}
					var signer ssh.Signer
					if i%2 == 0 {
						signer = sshKeys().stranger
					}
					if args[0] != "--expect-refusal" {
						args = append([]string{"--expect-refusal"}, args...)
					}
					cl, up, _ := openSSHTunnel(gw, signer, fmt.Sprintf("sshx%d", i), s.AllowPort(6), args...)
					cl()
					if up {
						return fmt.Errorf("step %d: ssh gateway without authorized_keys: a peer that passed ssh 'none' authentication and presented %s token got a session and a proxy (port %d listening)", i, op.Key, s.AllowPort(6))
					}
					fx.AddLabel("sequences", "ssh-anonymous-without-token-refused", 1)
					continue
				}
				cl, up, aerr := openSSHTunnel(gw, nil, fmt.Sprintf("ssh%d", i), s.AllowPort(5), "--token", fx.Token)
				if aerr != nil || !up {
					cl()
					return fx.Inconclusive("step %d: anonymous ssh tunnel with the right token did not come up (%v)", i, aerr)
				}
				fx.AddLabel("sequences", "ssh-anonymous-with-token-up", 1)
				if op.Repeat == 1 {
					sshClosers = append(sshClosers, cl)
				} else {
					cl()
				}
				continue
			}
			if op.Kind == "sshstranger" {
				// an ssh user whose key is not in authorized_keys gets nothing at all
				cl, up, aerr := openSSHTunnel(gw, sshKeys().stranger, fmt.Sprintf("sshx%d", i), s.AllowPort(6))
				cl()
				if aerr == nil || up {
					return fmt.Errorf("step %d: an ssh user whose key is not authorized was let in by the tunnel gateway (tunnel up: %v)", i, up)
				}
				fx.AddLabel("sequences", "ssh-stranger-refused", 1)
				continue
			}
			cl, up, aerr := openSSHTunnel(gw, sshKeys().good, fmt.Sprintf("ssh%d", i), s.AllowPort(5))
			if aerr != nil || !up {
				cl()
				return fx.Inconclusive("step %d: authorized ssh tunnel did not come up (%v)", i, aerr)
			}
			sshUsed = true
			fx.AddLabel("sequences", "ssh-tunnel-up", 1)
			if op.Repeat == 1 {
				sshClosers = append(sshClosers, cl)
			} else {
				cl()
			}
		case "firstmsg":
			conn, e := by.RawConn()
			if e != nil {
				return fx.Inconclusive("raw conn: %v", e)
			}
			if e := msg.WriteMsg(conn, firstMsg(op.MsgType)); e != nil {
				conn.Close()
				continue
			}
			if ce := expectClosed(conn, 4*time.Second); ce != nil {
				conn.Close()
				return fmt.Errorf("step %d: first message %s on a fresh connection: %v", i, op.MsgType, ce)
			}
			conn.Close()
		case "ping":
			key, ts := makeKey(c, op.Key)
			pong, e := by.Ping(&msg.Ping{PrivilegeKey: key, Timestamp: ts}, 5*time.Second)
			if e != nil {
				return fmt.Errorf("step %d: no pong for ping with %s key: %v", i, op.Key, e)
			}
			want := !hasScope(c, "HeartBeats") || validKey(c, op.Key, true)
			if want && pong.Error != "" {
				return fmt.Errorf("step %d: ping with %s key rejected: %s", i, op.Key, pong.Error)
			}
			if !want && pong.Error == "" {
				return fmt.Errorf("step %d: HeartBeats scope on, ping with %s key was accepted as valid", i, op.Key)
			}
		case "workconn":
			key, ts := makeKey(c, op.Key)
			runID := ""
			switch op.RunID {
			case "bystander":
				runID = by.RunID
			case "unknown":
				runID = "fedcba9876543210"
			}
			wc, e := by.OpenWorkConnMsg(&msg.NewWorkConn{RunID: runID, PrivilegeKey: key, Timestamp: ts})
			if e != nil {
				return fx.Inconclusive("open work conn: %v", e)
			}
			ok := op.RunID == "bystander" && (!hasScope(c, "NewWorkConns") || validKey(c, op.Key, true))
			if ok {
				// legitimate offer: serve it like the bystander would
				tag := fmt.Sprintf("W%d", i)
				tags[tag] = true
				held = append(held, wc)
				go func() {
					st, e := fx.ReadStart(wc, 0)
					if e != nil || st.Error != "" {
						wc.Close()
						return
					}
					fx.TagWork(tag)(nil, wc, st)
				}()
				continue
			}
			// must be refused: error StartWorkConn or nothing, then closed; never a clean StartWorkConn
			_ = wc.SetReadDeadline(time.Now().Add(4 * time.Second))
			var st msg.StartWorkConn
			e = msg.ReadMsgInto(wc, &st)
			if e == nil {
				if st.Error == "" {
					wc.Close()
					return fmt.Errorf("step %d: work connection with %s key for run id %q got a StartWorkConn for proxy %q", i, op.Key, op.RunID, st.ProxyName)
				}
				if ce := expectClosed(wc, 3*time.Second); ce != nil {
					wc.Close()
					return fmt.Errorf("step %d: refused work connection: %v", i, ce)
				}
			} else {
				var ne net.Error
				if errors.As(e, &ne) && ne.Timeout() {
					wc.Close()
					return fmt.Errorf("step %d: work connection with %s key for run id %q neither refused nor closed within 4s (parked)", i, op.Key, op.RunID)
				}
				if !errors.Is(e, io.EOF) && !strings.Contains(e.Error(), "closed") && !strings.Contains(e.Error(), "reset") && !strings.Contains(e.Error(), "EOF") {
					// other read errors are still a close
				}
			}
			wc.Close()
		case "userconn":
			if e := userConn(i); e != nil {
				return e
			}
		}
	}
	// quiesce: close the extra legitimate sessions, then state must equal the baseline
	for _, cl := range sshClosers {
		cl()
	}
	legit := map[string]bool{}
	for _, e := range extra {
		legit[e.RunID] = true
		e.Close()
	}
	extra = nil
	if e := userConn(len(c.Ops)); e != nil {
		return fmt.Errorf("final: %v", e)
	}
	if baseline != nil {
		deadline := time.Now().Add(5 * time.Second)
		for {
			now := s.Snapshot()
			d := ""
			if c.Transport == "kcp" {
				// closing a kcp connection is not signalled to the server: sessions that were opened with VALID
				// credentials during the case outlive the harness's close until the heartbeat timeout
				var keep []string
				for _, id := range now.Sessions {
					if !legit[id] {
						keep = append(keep, id)
					}
				}
				now.Sessions = keep
			}
			if !eq(baseline.Sessions, now.Sessions) {
				d += fmt.Sprintf(" sessions %v -> %v", baseline.Sessions, now.Sessions)
			}
			if !eq(baseline.Proxies, now.Proxies) {
				d += fmt.Sprintf(" proxies %v -> %v", baseline.Proxies, now.Proxies)
			}
			if fmt.Sprint(baseline.TCPUsed) != fmt.Sprint(now.TCPUsed) {
				d += fmt.Sprintf(" ports %v -> %v", baseline.TCPUsed, now.TCPUsed)
			}
			if d == "" {
				break
			}
			if time.Now().After(deadline) {
				return fmt.Errorf("server state after all refused attempts differs from before:%s", d)
			}
			time.Sleep(5 * time.Millisecond)
		}
	}
	return nil
}

func eq(a, b []string) bool {
	a, b = append([]string(nil), a...), append([]string(nil), b...)
	sort.Strings(a)
	sort.Strings(b)
	return fmt.Sprint(a) == fmt.Sprint(b)
}

func classify(c Case) fx.Class {
	refused, accepted, bypass, scoped := 0, 0, false, false
	var sig []string
	for _, op := range c.Ops {
		sig = append(sig, op.Kind+"/"+op.Key+"/"+op.RunID+"/"+op.MsgType+fmt.Sprint(op.AlwaysPass))
		switch op.Kind {
		case "badlogin":
			if !validKey(c, op.Key, false) {
				refused++
			}
			if op.AlwaysPass {
				bypass = true
			}
		case "goodlogin", "userconn":
			accepted++
		case "firstmsg":
			refused++
		case "ping":
			if hasScope(c, "HeartBeats") {
				scoped = true
			}
			accepted++
		case "workconn":
			if hasScope(c, "NewWorkConns") {
				scoped = true
			}
			if op.RunID != "bystander" {
				refused++
			}
		}
	}
	labels := []string{"method=" + c.Method, "transport=" + c.Transport, fmt.Sprintf("scopes=%d", len(c.Scopes))}
	if bypass {
		labels = append(labels, "claims-always-auth-pass")
	}
	if scoped {
		labels = append(labels, "scope-protected-message")
	}
	return fx.Class{NonTrivial: (refused > 0 && accepted > 0) || bypass || scoped,
		Fingerprint: fmt.Sprint(c.Method, c.Scopes, c.Transport, c.TCPMux, sig), Labels: labels}
}

func TestSequences(t *testing.T) {
	fx.Prelease(3)
	fx.Run(t, fx.Spec[Case]{Prop: "C04", Name: "sequences", Journal: true, Quick: 600, Thorough: 8000, Gen: gen, Run: run, Class: classify})
}
