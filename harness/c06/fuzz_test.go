package c06

import (
	"testing"

	"verifharness/fx"
)

// Native coverage-guided fuzzing (thorough tier): the fuzz bytes drive the same generator, the oracle (reference router) is unchanged.
func FuzzHTTPTable(f *testing.F) {
	fx.Fuzz(f, fx.Spec[TCase]{Prop: "C06", Name: "http_table", Gen: genT, Run: runT})
}
