// Package c06: virtual-host routing always picks the most specific matching route.
package c06

import (
	"fmt"
	"strings"

	"pgregory.net/rapid"
)

// Route is one registered (host, location, user) triple owned by Owner.
type Route struct {
	Host     string `json:"host"`
	Location string `json:"location"`
	User     string `json:"user"`
	Owner    int    `json:"owner"`
}

func (r Route) key() string { return strings.ToLower(r.Host) + "|" + r.Location + "|" + r.User }

// Reference specification, written from the property text:
// host level exact > wildcard with longer suffix > "*"; at each host level routes restricted to
// the request's user before unrestricted ones; then the longest location prefix.
// Wildcards keep at least two fixed labels.
func hostLevels(host string) []string {
	host = strings.ToLower(host)
	levels := []string{host}
	labels := strings.Split(host, ".")
	for len(labels) >= 3 {
		labels = labels[1:]
		levels = append(levels, "*."+strings.Join(labels, "."))
	}
	return append(levels, "*")
}

// canonical host for HTTP and CONNECT: case, port suffix and one trailing dot are ignored
func canonicalHost(h string) string {
	h = strings.ToLower(h)
	if i := strings.LastIndex(h, ":"); i >= 0 && !strings.Contains(h, "]") {
		h = h[:i]
	}
	return strings.TrimSuffix(h, ".")
}

func winner(table map[string]Route, host, path, user string) (Route, bool) {
	for _, lvl := range hostLevels(host) {
		users := []string{user}
		if user != "" {
			users = append(users, "")
		}
		for _, u := range users {
			best, found := Route{}, false
			for _, r := range table {
				if strings.ToLower(r.Host) != lvl || r.User != u || !strings.HasPrefix(path, r.Location) {
					continue
				}
				if !found || len(r.Location) > len(best.Location) {
					best, found = r, true
				}
			}
			if found {
				return best, true
			}
		}
	}
	return Route{}, false
}

// matchLevels counts at how many (host level, user) classes some route matches: >= 2 means
// the lookup had to choose by specificity.
func matchClasses(table map[string]Route, host, path, user string) int {
	seen := map[string]bool{}
	for _, lvl := range hostLevels(host) {
		for _, r := range table {
			if strings.ToLower(r.Host) == lvl && (r.User == user || r.User == "") && strings.HasPrefix(path, r.Location) {
				seen[lvl+"|"+r.User+"|"+r.Location] = true
			}
		}
	}
	return len(seen)
}

// ---- generators ------------------------------------------------------------------------------

var labels = []string{"a", "b", "c", "d"}

func genName(t *rapid.T, label string, n int) string {
	var parts []string
	for i := 0; i < n; i++ {
		parts = append(parts, rapid.SampledFrom(labels).Draw(t, fmt.Sprintf("%s/l%d", label, i)))
	}
	return strings.Join(parts, ".")
}

func randCase(t *rapid.T, s, label string) string {
	if !rapid.Bool().Draw(t, label+"/case") {
		return s
	}
	b := []byte(s)
	for i := range b {
		if b[i] >= 'a' && b[i] <= 'z' && rapid.Bool().Draw(t, fmt.Sprintf("%s/c%d", label, i)) {
			b[i] -= 32
		}
	}
	return string(b)
}

func genRouteHost(t *rapid.T, label string) string {
	switch rapid.IntRange(0, 9).Draw(t, label+"/kind") {
	case 0:
		return "*"
	case 1, 2, 3:
		return "*." + genName(t, label, rapid.IntRange(2, 3).Draw(t, label+"/n"))
	default:
		return randCase(t, genName(t, label, rapid.IntRange(1, 4).Draw(t, label+"/n")), label)
	}
}

var locations = []string{"", "", "/", "/a", "/ab", "/a/b", "/b"}
var paths = []string{"/", "/a", "/ab/x", "/a/b/c", "/abc", "/b", "/c", "/A"}
var usersPool = []string{"", "", "u1", "u2"}
