package c06

import (
	"bufio"
	"encoding/base64"
	"fmt"
	"net"
	"net/http"
	"net/http/httptest"
	"strconv"
	"strings"
	"sync"
	"testing"

	"github.com/fatedier/frp/pkg/util/vhost"
	"pgregory.net/rapid"

	"verifharness/fx"
)

func TestMain(m *testing.M) { fx.Main(m, "C06") }

// ---- (a) table layer through HTTPReverseProxy.ServeHTTP with in-memory backends -------------------

type TOp struct {
	Kind     string `json:"kind"` // reg unreg lookup
	Route    Route  `json:"route,omitempty"`
	Host     string `json:"host,omitempty"` // request Host header as sent
	Path     string `json:"path,omitempty"`
	User     string `json:"user,omitempty"`
}

type TCase struct {
	Ops []TOp `json:"ops"`
}

func genReqHost(t *rapid.T, routes []Route, label string) string {
	var h string
	if len(routes) > 0 && rapid.IntRange(0, 3).Draw(t, label+"/fromroute") != 0 {
		r := routes[rapid.IntRange(0, len(routes)-1).Draw(t, label+"/ri")]
		h = strings.ToLower(r.Host)
		if strings.HasPrefix(h, "*.") {
			// one or two extra labels in front of the wildcard's fixed part
			h = genName(t, label+"/pre", rapid.IntRange(1, 2).Draw(t, label+"/npre")) + h[1:]
		} else if h == "*" {
			h = genName(t, label+"/any", rapid.IntRange(1, 4).Draw(t, label+"/nany"))
		} else if rapid.IntRange(0, 3).Draw(t, label+"/sub") == 0 {
			h = rapid.SampledFrom(labels).Draw(t, label+"/sublabel") + "." + h
		}
	} else {
		h = genName(t, label, rapid.IntRange(1, 4).Draw(t, label+"/n"))
	}
	h = randCase(t, h, label)
	switch rapid.IntRange(0, 5).Draw(t, label+"/suffix") {
	case 0:
		h += ":8080"
	case 1:
		h += "."
	case 2:
		h += ".:80"
	}
	return h
}

func genT(t *rapid.T) TCase {
	var c TCase
	var routes []Route
	n := rapid.IntRange(3, 30).Draw(t, "nops")
	for i := 0; i < n; i++ {
		k := rapid.SampledFrom([]string{"reg", "reg", "reg", "unreg", "lookup", "lookup", "lookup", "lookup"}).Draw(t, "kind")
		switch {
		case k == "reg":
			var r Route
			if len(routes) > 0 && rapid.IntRange(0, 4).Draw(t, "dup") == 0 {
				r = routes[rapid.IntRange(0, len(routes)-1).Draw(t, "dupi")] // duplicate triple (maybe other owner, other case)
				r.Host = randCase(t, r.Host, "duphost")
			} else {
				r = Route{Host: genRouteHost(t, "rh"), Location: rapid.SampledFrom(locations).Draw(t, "loc"), User: rapid.SampledFrom(usersPool).Draw(t, "user")}
			}
			r.Owner = i
			routes = append(routes, r)
			c.Ops = append(c.Ops, TOp{Kind: "reg", Route: r})
		case k == "unreg" && len(routes) > 0:
			r := routes[rapid.IntRange(0, len(routes)-1).Draw(t, "ui")]
			c.Ops = append(c.Ops, TOp{Kind: "unreg", Route: r})
		default:
			c.Ops = append(c.Ops, TOp{Kind: "lookup", Host: genReqHost(t, routes, "q"), Path: rapid.SampledFrom(paths).Draw(t, "path"), User: rapid.SampledFrom([]string{"", "", "u1", "u2", "u3"}).Draw(t, "quser")})
		}
	}
	return c
}

// backend: answers every request on its connection with X-Owner: <id>
func backendConn(owner int, served *sync.Map) (net.Conn, error) {
	cli, srv := net.Pipe()
	go func() {
		defer srv.Close()
		br := bufio.NewReader(srv)
		for {
			req, err := http.ReadRequest(br)
			if err != nil {
				return
			}
			if req.Body != nil {
				req.Body.Close()
			}
			served.Store(owner, true)
			fmt.Fprintf(srv, "HTTP/1.1 200 OK\r\nX-Owner: %d\r\nContent-Length: 0\r\n\r\n", owner)
		}
	}()
	return cli, nil
}

func runT(c TCase) error {
	rp := vhost.NewHTTPReverseProxy(vhost.HTTPReverseProxyOptions{ResponseHeaderTimeoutS: 5}, vhost.NewRouters())
	table := map[string]Route{}
	var served sync.Map
	for i, op := range c.Ops {
		switch op.Kind {
		case "reg":
			owner := op.Route.Owner
			err := rp.Register(vhost.RouteConfig{Domain: op.Route.Host, Location: op.Route.Location, RouteByHTTPUser: op.Route.User,
				CreateConnFn: func(string) (net.Conn, error) { return backendConn(owner, &served) }})
			_, dup := table[op.Route.key()]
			if dup && err == nil {
				return fmt.Errorf("step %d: route %+v duplicates an existing (host, location, user) triple but was accepted", i, op.Route)
			}
			if !dup && err != nil {
				return fmt.Errorf("step %d: new route %+v refused: %v", i, op.Route, err)
			}
			if !dup {
				table[op.Route.key()] = op.Route
			}
		case "unreg":
			rp.UnRegister(vhost.RouteConfig{Domain: op.Route.Host, Location: op.Route.Location, RouteByHTTPUser: op.Route.User})
			delete(table, op.Route.key())
		case "lookup":
			req := httptest.NewRequest("GET", "http://placeholder"+op.Path, nil)
			req.Host = op.Host
			req.URL.Host = "" // origin-form
			req.URL.Scheme = ""
			req.RequestURI = op.Path
			if op.User != "" {
				req.Header.Set("Authorization", "Basic "+base64.StdEncoding.EncodeToString([]byte(op.User+":x")))
			}
			rec := httptest.NewRecorder()
			rp.ServeHTTP(rec, req)
			want, ok := winner(table, canonicalHost(op.Host), op.Path, op.User)
			got := rec.Header().Get("X-Owner")
			if !ok {
				if rec.Code != 404 || got != "" {
					return fmt.Errorf("step %d: request host %q path %q user %q matches no route but was answered %d by owner %q", i, op.Host, op.Path, op.User, rec.Code, got)
				}
				continue
			}
			if rec.Code != 200 || got != strconv.Itoa(want.Owner) {
				return fmt.Errorf("step %d: request host %q path %q user %q answered %d by owner %q; most specific route is %+v (table %v)", i, op.Host, op.Path, op.User, rec.Code, got, want, tableList(table))
			}
		}
	}
	return nil
}

func tableList(t map[string]Route) []string {
	var out []string
	for _, r := range t {
		out = append(out, fmt.Sprintf("%s%s@%s#%d", r.Host, r.Location, r.User, r.Owner))
	}
	return out
}

func classT(c TCase) fx.Class {
	table := map[string]Route{}
	nt := false
	var labelsOut []string
	removed := map[string]bool{}
	for _, op := range c.Ops {
		switch op.Kind {
		case "reg":
			if _, dup := table[op.Route.key()]; !dup {
				table[op.Route.key()] = op.Route
			} else {
				labelsOut = append(labelsOut, "duplicate-register")
			}
		case "unreg":
			if _, ok := table[op.Route.key()]; ok {
				removed[op.Route.key()] = true
			}
			delete(table, op.Route.key())
		case "lookup":
			h := canonicalHost(op.Host)
			if matchClasses(table, h, op.Path, op.User) >= 2 {
				nt = true
				labelsOut = append(labelsOut, "specificity-choice")
			}
			if _, ok := winner(table, h, op.Path, op.User); !ok && len(table) > 0 {
				nt = true
				labelsOut = append(labelsOut, "unmatched-on-nonempty")
			}
			if len(removed) > 0 {
				labelsOut = append(labelsOut, "after-unregister")
			}
		}
	}
	return fx.Class{NonTrivial: nt, Fingerprint: fmt.Sprintf("%+v", c), Labels: dedup(labelsOut)}
}

func dedup(l []string) []string {
	m := map[string]bool{}
	var out []string
	for _, s := range l {
		if !m[s] {
			m[s] = true
			out = append(out, s)
		}
	}
	return out
}

func TestHTTPTable(t *testing.T) {
	fx.Run(t, fx.Spec[TCase]{Prop: "C06", Name: "http_table", Quick: 4000, Thorough: 300000, Gen: genT, Run: runT, Class: classT})
}
