package c06

import (
	"bufio"
	"context"
	"crypto/tls"
	"encoding/base64"
	"fmt"
	"io"
	"net"
	"net/http"
	"strings"
	"testing"
	"time"

	"golang.org/x/net/http2"

	v1 "github.com/fatedier/frp/pkg/config/v1"
	"github.com/fatedier/frp/pkg/msg"
	"pgregory.net/rapid"

	"verifharness/fx"
)

// ---- (b) wire layer: real frps, scripted sessions, requests over new / keep-alive / h2c connections

type WOp struct {
	Kind  string `json:"kind"` // reg close takeover req
	Slot  int    `json:"slot"`
	Route Route  `json:"route,omitempty"`
	Host2 string `json:"host2,omitempty"` // reg: a second custom domain of the same proxy
	Loc2  string `json:"loc2,omitempty"`  // reg: a second location of the same proxy (routes = domains x locations)
	Host  string `json:"host,omitempty"`
	Path  string `json:"path,omitempty"`
	User  string `json:"user,omitempty"`
	Conn  string `json:"conn,omitempty"` // new | keepalive | h2c
}

type WCase struct {
	SharedPort bool  `json:"shared_port"` // vhost HTTP port == control (bind) port
	Ops        []WOp `json:"ops"`
}

func genW(t *rapid.T) WCase {
	c := WCase{SharedPort: rapid.Bool().Draw(t, "shared")}
	var routes []Route
	n := rapid.IntRange(4, 24).Draw(t, "nops")
	for i := 0; i < n; i++ {
		k := rapid.SampledFrom([]string{"reg", "reg", "reg", "close", "takeover", "takeover", "req", "req", "req", "req", "req"}).Draw(t, "kind")
		switch {
		case k == "reg" || len(routes) == 0:
			r := Route{Host: genRouteHost(t, "rh"), Location: rapid.SampledFrom(locations).Draw(t, "loc"), User: rapid.SampledFrom(usersPool).Draw(t, "user")}
			if len(routes) > 0 && rapid.IntRange(0, 5).Draw(t, "dup") == 0 {
				r = routes[rapid.IntRange(0, len(routes)-1).Draw(t, "dupi")]
			}
			routes = append(routes, r)
			op := WOp{Kind: "reg", Slot: rapid.IntRange(0, 1).Draw(t, "slot"), Route: r}
			// a proxy may own several routes: two custom domains and / or two locations
			if rapid.IntRange(0, 2).Draw(t, "multi-host") == 0 {
				if h2 := genRouteHost(t, "rh2"); !strings.EqualFold(h2, r.Host) {
					op.Host2 = h2
					routes = append(routes, Route{Host: h2, Location: r.Location, User: r.User})
				}
			}
			if r.Location != "" && rapid.IntRange(0, 2).Draw(t, "multi-loc") == 0 {
				if l2 := rapid.SampledFrom(locations).Draw(t, "loc2"); l2 != "" && l2 != r.Location {
					op.Loc2 = l2
					routes = append(routes, Route{Host: r.Host, Location: l2, User: r.User})
				}
			}
			c.Ops = append(c.Ops, op)
		case k == "close" || k == "takeover":
			c.Ops = append(c.Ops, WOp{Kind: k, Slot: rapid.IntRange(0, 1).Draw(t, "slot"), Route: routes[rapid.IntRange(0, len(routes)-1).Draw(t, "ci")]})
		default:
			c.Ops = append(c.Ops, WOp{Kind: "req", Host: genReqHost(t, routes, "q"), Path: rapid.SampledFrom(paths).Draw(t, "path"),
				User: rapid.SampledFrom([]string{"", "", "u1", "u2", "u3"}).Draw(t, "quser"),
				Conn: rapid.SampledFrom([]string{"new", "keepalive", "keepalive", "keepalive", "h2c"}).Draw(t, "conn")})
			if c.SharedPort && c.Ops[len(c.Ops)-1].Conn == "h2c" {
				// on a port shared with the control protocol the HTTP/2 preface ("PRI ...") is not
				// recognised as HTTP by the port multiplexer: prior-knowledge h2c is not offered there
				c.Ops[len(c.Ops)-1].Conn = "keepalive"
			}
		}
	}
	return c
}

// opRoutes lists the (host, location, user) triples a registration asks for.
func opRoutes(op WOp) []Route {
	hosts := []string{op.Route.Host}
	if op.Host2 != "" {
		hosts = append(hosts, op.Host2)
	}
	locs := []string{op.Route.Location}
	if op.Loc2 != "" {
		locs = append(locs, op.Loc2)
	}
	var out []Route
	for _, h := range hosts {
		for _, l := range locs {
			out = append(out, Route{Host: h, Location: l, User: op.Route.User})
		}
	}
	return out
}

func runW(c WCase) error {
	s, err := fx.StartServer(fx.WithCfg(func(sc *v1.ServerConfig, b *fx.Block) {
		if c.SharedPort {
			sc.VhostHTTPPort = sc.BindPort
		} else {
			sc.VhostHTTPPort = b.Port(fx.SlotVhostHTTP)
		}
	}))
	if err != nil {
		return err
	}
	defer s.Close()
	vaddr := fmt.Sprintf("127.0.0.1:%d", s.Cfg.VhostHTTPPort)
	var scs [2]*fx.ScriptedClient
	for i := range scs {
		sc, e := fx.ConnectCommon(fx.ScriptedCommon(s), "u", "", 0, fx.HTTPKeepAliveWork(fmt.Sprintf("S%d", i)))
		if e != nil {
			return fmt.Errorf("login: %v", e)
		}
		scs[i] = sc
		defer sc.Close()
	}
	table := map[string]Route{}   // live routes; Owner = registration number
	pname := map[string]string{}  // route key -> proxy name
	pslot := map[string]int{}     // route key -> slot
	nreg := 0
	register := func(step int, slot int, op WOp) error {
		nreg++
		name := fmt.Sprintf("h%d", nreg)
		rs := opRoutes(op)
		r := op.Route
		m := &msg.NewProxy{ProxyName: name, ProxyType: "http", CustomDomains: []string{r.Host}, RouteByHTTPUser: r.User}
		if op.Host2 != "" {
			m.CustomDomains = append(m.CustomDomains, op.Host2)
		}
		if r.Location != "" {
			m.Locations = []string{r.Location}
			if op.Loc2 != "" {
				m.Locations = append(m.Locations, op.Loc2)
			}
		}
		resp, e := scs[slot].NewProxy(m, 5*time.Second)
		if e != nil {
			return fmt.Errorf("step %d: no answer to registration: %v", step, e)
		}
		dup := false
		for _, x := range rs {
			if _, d := table[x.key()]; d {
				dup = true
			}
		}
		if dup && resp.Error == "" {
			return fmt.Errorf("step %d: registration %+v duplicates a live (host, location, user) triple but was accepted", step, rs)
		}
		if !dup && resp.Error != "" {
			return fmt.Errorf("step %d: new routes %+v refused: %s", step, rs, resp.Error)
		}
		if !dup {
			for _, x := range rs {
				x.Owner = nreg
				table[x.key()] = x
				pname[x.key()], pslot[x.key()] = name, slot
			}
		}
		return nil
	}
	closeRoute := func(step int, r Route) error {
		k := r.key()
		if _, ok := table[k]; !ok {
			return nil
		}
		sl := pslot[k]
		_ = scs[sl].CloseProxy(pname[k])
		if e := scs[sl].Sync(3 * time.Second); e != nil {
			return fmt.Errorf("step %d: session dead: %v", step, e)
		}
		// the proxy goes away with ALL its routes
		name := pname[k]
		for k2 := range table {
			if pname[k2] == name && pslot[k2] == sl {
				delete(table, k2)
			}
		}
		return nil
	}
	// one persistent HTTP/1.1 user connection and one h2c connection, opened lazily
	var ka net.Conn
	var kabr *bufio.Reader
	defer func() {
		if ka != nil {
			ka.Close()
		}
	}()
	h2 := &http2.Transport{AllowHTTP: true, DialTLSContext: func(ctx context.Context, network, addr string, _ *tls.Config) (net.Conn, error) {
		return net.DialTimeout("tcp", vaddr, 2*time.Second)
	}}
	defer h2.CloseIdleConnections()
	do := func(op WOp) (status int, owner string, err error) {
		hdr := ""
		if op.User != "" {
			hdr = "Authorization: Basic " + base64.StdEncoding.EncodeToString([]byte(op.User+":x")) + "\r\n"
		}
		switch op.Conn {
		case "h2c":
			req, _ := http.NewRequest("GET", "http://"+canonicalHostKeepCase(op.Host)+op.Path, nil)
			req.Host = op.Host
			if op.User != "" {
				req.SetBasicAuth(op.User, "x")
			}
			ctx, cancel := context.WithTimeout(context.Background(), 6*time.Second)
			defer cancel()
			resp, e := h2.RoundTrip(req.WithContext(ctx))
			if e != nil {
				return 0, "", e
			}
			defer resp.Body.Close()
			_, _ = io.Copy(io.Discard, resp.Body)
			return resp.StatusCode, resp.Header.Get("X-Owner"), nil
		case "keepalive":
			for attempt := 0; attempt < 2; attempt++ {
				if ka == nil {
					cn, e := net.DialTimeout("tcp", vaddr, 2*time.Second)
					if e != nil {
						return 0, "", e
					}
					ka, kabr = cn, bufio.NewReader(cn)
				}
				_ = ka.SetDeadline(time.Now().Add(6 * time.Second))
				_, e := fmt.Fprintf(ka, "GET %s HTTP/1.1\r\nHost: %s\r\n%s\r\n", op.Path, op.Host, hdr)
				var resp *http.Response
				if e == nil {
					resp, e = http.ReadResponse(kabr, nil)
				}
				if e != nil {
					ka.Close()
					ka = nil
					if attempt == 0 {
						continue // the server may have closed an idle keep-alive connection
					}
					return 0, "", e
				}
				_, _ = io.Copy(io.Discard, resp.Body)
				resp.Body.Close()
				if resp.Close {
					ka.Close()
					ka = nil
				}
				return resp.StatusCode, resp.Header.Get("X-Owner"), nil
			}
			return 0, "", fmt.Errorf("unreachable")
		default:
			st, body, e := fx.HTTPGet(vaddr, op.Host, op.Path, map[string]string{"Authorization": strings.TrimSuffix(strings.TrimPrefix(hdr, "Authorization: "), "\r\n")}, 6*time.Second)
			if op.User == "" {
				st, body, e = fx.HTTPGet(vaddr, op.Host, op.Path, nil, 6*time.Second)
			}
			if st == 200 {
				return st, body, e
			}
			return st, "", e
		}
	}
	for i, op := range c.Ops {
		switch op.Kind {
		case "reg":
			if e := register(i, op.Slot, op); e != nil {
				return e
			}
		case "close":
			if e := closeRoute(i, op.Route); e != nil {
				return e
			}
		case "takeover":
			if e := closeRoute(i, op.Route); e != nil {
				return e
			}
			if e := register(i, op.Slot, WOp{Route: op.Route}); e != nil {
				return e
			}
		case "req":
			st, owner, e := do(op)
			if e != nil {
				return fmt.Errorf("step %d: request %+v failed: %v", i, op, e)
			}
			want, ok := winner(table, canonicalHost(op.Host), op.Path, op.User)
			if !ok {
				if st != 404 || owner != "" {
					return fmt.Errorf("step %d: %s request host %q path %q user %q matches no live route but was answered %d by %q", i, op.Conn, op.Host, op.Path, op.User, st, owner)
				}
				continue
			}
			exp := fmt.Sprintf("S%d:%s", pslot[want.key()], pname[want.key()])
			if st != 200 || owner != exp {
				return fmt.Errorf("step %d: %s request host %q path %q user %q answered %d by %q; most specific live route is %+v served by %s (table %v)", i, op.Conn, op.Host, op.Path, op.User, st, owner, want, exp, tableList(table))
			}
		}
	}
	return nil
}

func canonicalHostKeepCase(h string) string {
	if i := strings.LastIndex(h, ":"); i >= 0 {
		h = h[:i]
	}
	h = strings.TrimSuffix(h, ".")
	if h == "" {
		return "x"
	}
	return h
}

func classW(c WCase) fx.Class {
	table := map[string]Route{}
	nt := false
	var lab []string
	changed := false
	for _, op := range c.Ops {
		switch op.Kind {
		case "reg":
			if _, dup := table[op.Route.key()]; !dup {
				table[op.Route.key()] = op.Route
			}
		case "close":
			if _, ok := table[op.Route.key()]; ok {
				changed = true
			}
			delete(table, op.Route.key())
		case "takeover":
			if _, ok := table[op.Route.key()]; ok {
				changed = true
				lab = append(lab, "takeover")
			}
			table[op.Route.key()] = op.Route
		case "req":
			h := canonicalHost(op.Host)
			if matchClasses(table, h, op.Path, op.User) >= 2 {
				nt = true
			}
			if _, ok := winner(table, h, op.Path, op.User); !ok && len(table) > 0 {
				nt = true
			}
			if changed {
				if _, ok := winner(table, h, op.Path, op.User); ok {
					nt = true
					lab = append(lab, "request-after-route-change")
				}
			}
			lab = append(lab, "conn="+op.Conn)
		}
	}
	if c.SharedPort {
		lab = append(lab, "shared-port")
	}
	return fx.Class{NonTrivial: nt, Fingerprint: fmt.Sprintf("%+v", c), Labels: dedup(lab)}
}

func TestWire(t *testing.T) {
	fx.Prelease(3)
	fx.Run(t, fx.Spec[WCase]{Prop: "C06", Name: "wire", Quick: 480, Thorough: 16000, Gen: genW, Run: runW, Class: classW, Journal: true})
}
