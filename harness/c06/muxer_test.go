package c06

import (
	"bufio"
	"context"
	"crypto/tls"
	"encoding/base64"
	"fmt"
	"net"
	"net/http"
	"strings"
	"sync"
	"testing"
	"time"

	"github.com/fatedier/frp/pkg/util/tcpmux"
	"github.com/fatedier/frp/pkg/util/vhost"
	"pgregory.net/rapid"

	"verifharness/fx"
)

// ---- (a') the same table semantics through vhost.Muxer: TLS ClientHello (https) and CONNECT (tcpmux)

type MCase struct {
	Proto string `json:"proto"` // https | tcpmux
	Ops   []TOp  `json:"ops"`
}

func genMux(t *rapid.T) MCase {
	c := MCase{Proto: rapid.SampledFrom([]string{"https", "tcpmux"}).Draw(t, "proto")}
	var routes []Route
	n := rapid.IntRange(3, 20).Draw(t, "nops")
	for i := 0; i < n; i++ {
		k := rapid.SampledFrom([]string{"reg", "reg", "reg", "unreg", "lookup", "lookup", "lookup"}).Draw(t, "kind")
		switch {
		case k == "reg":
			var r Route
			if len(routes) > 0 && rapid.IntRange(0, 4).Draw(t, "dup") == 0 {
				r = routes[rapid.IntRange(0, len(routes)-1).Draw(t, "dupi")]
				r.Host = randCase(t, r.Host, "duphost")
			} else {
				r = Route{Host: genRouteHost(t, "rh")}
				if c.Proto == "tcpmux" {
					r.User = rapid.SampledFrom(usersPool).Draw(t, "user")
				}
			}
			r.Owner = i
			routes = append(routes, r)
			c.Ops = append(c.Ops, TOp{Kind: "reg", Route: r})
		case k == "unreg" && len(routes) > 0:
			c.Ops = append(c.Ops, TOp{Kind: "unreg", Route: routes[rapid.IntRange(0, len(routes)-1).Draw(t, "ui")]})
		default:
			h := genReqHost(t, routes, "q")
			if c.Proto == "https" {
				h = canonicalHost(h) // SNI carries neither port nor trailing dot; letter case is still free
				h = randCase(t, h, "sni")
			}
			op := TOp{Kind: "lookup", Host: h}
			if c.Proto == "tcpmux" {
				op.User = rapid.SampledFrom([]string{"", "", "u1", "u2", "u3"}).Draw(t, "quser")
			}
			c.Ops = append(c.Ops, op)
		}
	}
	return c
}

type muxLn struct {
	l     *vhost.Listener
	owner int
}

func runMux(c MCase) error {
	ln, err := net.Listen("tcp", "127.0.0.1:0")
	if err != nil {
		return fx.Inconclusive("%v", err)
	}
	defer ln.Close()
	var mux *vhost.Muxer
	if c.Proto == "https" {
		m, e := vhost.NewHTTPSMuxer(ln, 5*time.Second)
		if e != nil {
			return fx.Inconclusive("%v", e)
		}
		mux = m.Muxer
	} else {
		m, e := tcpmux.NewHTTPConnectTCPMuxer(ln, false, 5*time.Second)
		if e != nil {
			return fx.Inconclusive("%v", e)
		}
		mux = m.Muxer
	}
	table := map[string]Route{}
	lns := map[string]*muxLn{}
	var mu sync.Mutex
	accepted := map[int]int{} // owner -> number of accepted connections
	defer func() {
		for _, l := range lns {
			l.l.Close()
		}
	}()
	for i, op := range c.Ops {
		switch op.Kind {
		case "reg":
			l, e := mux.Listen(context.Background(), &vhost.RouteConfig{Domain: op.Route.Host, RouteByHTTPUser: op.Route.User})
			_, dup := table[op.Route.key()]
			if dup && e == nil {
				return fmt.Errorf("step %d: duplicate route %+v accepted", i, op.Route)
			}
			if !dup && e != nil {
				return fmt.Errorf("step %d: new route %+v refused: %v", i, op.Route, e)
			}
			if !dup {
				table[op.Route.key()] = op.Route
				ml := &muxLn{l, op.Route.Owner}
				lns[op.Route.key()] = ml
				go func() {
					for {
						conn, e := ml.l.Accept()
						if e != nil {
							return
						}
						mu.Lock()
						accepted[ml.owner]++
						mu.Unlock()
						conn.Close()
					}
				}()
			}
		case "unreg":
			if ml := lns[op.Route.key()]; ml != nil {
				ml.l.Close()
				delete(lns, op.Route.key())
				delete(table, op.Route.key())
			}
		case "lookup":
			mu.Lock()
			before := map[int]int{}
			for k, v := range accepted {
				before[k] = v
			}
			mu.Unlock()
			refused := false
			if c.Proto == "https" {
				conn, e := net.DialTimeout("tcp", ln.Addr().String(), 2*time.Second)
				if e != nil {
					return fx.Inconclusive("%v", e)
				}
				_ = conn.SetDeadline(time.Now().Add(3 * time.Second))
				tc := tls.Client(conn, &tls.Config{ServerName: op.Host, InsecureSkipVerify: true})
				e = tc.Handshake() // fails either way (the accepting side closes); what matters is who accepted
				if e != nil && strings.Contains(e.Error(), "unrecognized name") {
					refused = true
				}
				conn.Close()
			} else {
				hdr := map[string]string{}
				if op.User != "" {
					hdr["Proxy-Authorization"] = "Basic " + base64.StdEncoding.EncodeToString([]byte(op.User+":x"))
				}
				st, conn, _, e := fx.HTTPConnect(ln.Addr().String(), op.Host, hdr, 3*time.Second)
				if e == nil && st == 200 {
					conn.Close()
				} else if st == 404 {
					refused = true
				}
			}
			time.Sleep(3 * time.Millisecond)
			var got []int
			deadline := time.Now().Add(time.Second)
			want, ok := winner(table, canonicalHost(op.Host), "", op.User)
			for {
				got = got[:0]
				mu.Lock()
				for k, v := range accepted {
					for j := before[k]; j < v; j++ {
						got = append(got, k)
					}
				}
				mu.Unlock()
				if len(got) > 0 || !ok || time.Now().After(deadline) {
					break
				}
				time.Sleep(2 * time.Millisecond)
			}
			if !ok {
				if len(got) != 0 {
					return fmt.Errorf("step %d: %s request for host %q user %q matches no route but was delivered to owner %v", i, c.Proto, op.Host, op.User, got)
				}
				if !refused && c.Proto == "tcpmux" {
					return fmt.Errorf("step %d: unmatched CONNECT for %q was not answered with not-found", i, op.Host)
				}
				continue
			}
			if len(got) != 1 || got[0] != want.Owner {
				return fmt.Errorf("step %d: %s request for host %q user %q delivered to %v; most specific route is %+v (table %v)", i, c.Proto, op.Host, op.User, got, want, tableList(table))
			}
		}
	}
	return nil
}

func classMux(c MCase) fx.Class {
	tc := classT(TCase{Ops: c.Ops})
	tc.Labels = append(tc.Labels, "proto="+c.Proto)
	tc.Fingerprint = c.Proto + tc.Fingerprint
	return tc
}

func TestMuxerTable(t *testing.T) {
	fx.Run(t, fx.Spec[MCase]{Prop: "C06", Name: "muxer_table", Journal: true, Quick: 1200, Thorough: 60000, Gen: genMux, Run: runMux, Class: classMux})
}

var _ = bufio.NewReader
var _ = http.MethodGet
