package c06

import (
	"crypto/tls"
	"errors"
	"fmt"
	"net"
	"strings"
	"sync"
	"testing"
	"time"

	"github.com/fatedier/frp/pkg/msg"
	"pgregory.net/rapid"

	"verifharness/fx"
)

// ---- (c) https proxies on a real frps: registrations (also refused duplicates), closures and TLS ClientHellos.
// The SNI decides; a refused registration must leave the table exactly as it was.

type HWOp struct {
	Kind  string `json:"kind"` // reg close req
	Slot  int    `json:"slot"`
	Host  string `json:"host"`
	Host2 string `json:"host2,omitempty"`
}

type HWCase struct {
	Ops []HWOp `json:"ops"`
}

var httpsHosts = []string{"a.tls.test", "b.tls.test", "x.a.tls.test", "*.a.tls.test", "*.tls.test", "A.TLS.test"}

func genHW(t *rapid.T) HWCase {
	var c HWCase
	var used []string
	n := rapid.IntRange(4, 18).Draw(t, "nops")
	for i := 0; i < n; i++ {
		k := rapid.SampledFrom([]string{"reg", "reg", "reg", "close", "req", "req", "req"}).Draw(t, "kind")
		switch {
		case k == "reg" || len(used) == 0:
			op := HWOp{Kind: "reg", Slot: rapid.IntRange(0, 1).Draw(t, "slot"), Host: rapid.SampledFrom(httpsHosts).Draw(t, "host")}
			if len(used) > 0 && rapid.IntRange(0, 2).Draw(t, "dup") == 0 {
				op.Host = used[rapid.IntRange(0, len(used)-1).Draw(t, "dupi")] // a duplicate: must be refused and change nothing
			}
			if rapid.IntRange(0, 3).Draw(t, "two") == 0 {
				if h2 := rapid.SampledFrom(httpsHosts).Draw(t, "host2"); !strings.EqualFold(h2, op.Host) {
					op.Host2 = h2
				}
			}
			used = append(used, op.Host)
			c.Ops = append(c.Ops, op)
		case k == "close":
			c.Ops = append(c.Ops, HWOp{Kind: "close", Host: used[rapid.IntRange(0, len(used)-1).Draw(t, "ci")]})
		default:
			c.Ops = append(c.Ops, HWOp{Kind: "req", Host: rapid.SampledFrom([]string{"a.tls.test", "b.tls.test", "x.a.tls.test", "y.a.tls.test", "A.tls.TEST", "q.r.tls.test", "other.test"}).Draw(t, "qhost")})
		}
	}
	return c
}

var (
	hwHelloMu sync.Mutex
	hwHellos  = map[string][]byte{}
)

func hwClientHello(sni string) []byte {
	hwHelloMu.Lock()
	defer hwHelloMu.Unlock()
	if b, ok := hwHellos[sni]; ok {
		return b
	}
	a, b := net.Pipe()
	go func() { _ = tls.Client(a, &tls.Config{ServerName: sni, InsecureSkipVerify: true}).Handshake() }()
	buf := make([]byte, 4096)
	_ = b.SetReadDeadline(time.Now().Add(2 * time.Second))
	n, _ := b.Read(buf)
	a.Close()
	b.Close()
	hwHellos[sni] = append([]byte(nil), buf[:n]...)
	return hwHellos[sni]
}

func runHW(c HWCase) error {
	s, err := fx.StartServer(fx.WithVhostHTTPS())
	if err != nil {
		return err
	}
	defer s.Close()
	vaddr := s.Addr(fx.SlotVhostHTTPS)
	var scs [2]*fx.ScriptedClient
	for i := range scs {
		sc, e := fx.ConnectCommon(fx.ScriptedCommon(s), "u", "", 0, fx.TagWork(fmt.Sprintf("S%d", i)))
		if e != nil {
			return fmt.Errorf("login: %v", e)
		}
		scs[i] = sc
		defer sc.Close()
	}
	table := map[string]Route{}
	pname, pslot := map[string]string{}, map[string]int{}
	nreg := 0
	for i, op := range c.Ops {
		switch op.Kind {
		case "reg":
			nreg++
			name := fmt.Sprintf("t%d", nreg)
			hosts := []string{op.Host}
			if op.Host2 != "" {
				hosts = append(hosts, op.Host2)
			}
			resp, e := scs[op.Slot].NewProxy(&msg.NewProxy{ProxyName: name, ProxyType: "https", CustomDomains: hosts}, 5*time.Second)
			if e != nil {
				return fmt.Errorf("step %d: no answer to registration: %v", i, e)
			}
			dup := false
			for _, h := range hosts {
				if _, d := table[Route{Host: h}.key()]; d {
					dup = true
				}
			}
			if dup && resp.Error == "" {
				return fmt.Errorf("step %d: https registration for %v duplicates a live host but was accepted (table %v)", i, hosts, tableList(table))
			}
			if !dup && resp.Error != "" {
				return fmt.Errorf("step %d: https registration for %v refused: %s (table %v)", i, hosts, resp.Error, tableList(table))
			}
			if !dup {
				for _, h := range hosts {
					r := Route{Host: h, Owner: nreg}
					table[r.key()] = r
					pname[r.key()], pslot[r.key()] = name, op.Slot
				}
			}
		case "close":
			k := Route{Host: op.Host}.key()
			if _, ok := table[k]; !ok {
				continue
			}
			sl, name := pslot[k], pname[k]
			_ = scs[sl].CloseProxy(name)
			if e := scs[sl].Sync(3 * time.Second); e != nil {
				return fmt.Errorf("step %d: session dead: %v", i, e)
			}
			for k2 := range table {
				if pname[k2] == name && pslot[k2] == sl {
					delete(table, k2)
				}
			}
		case "req":
			cn, e := net.DialTimeout("tcp", vaddr, 2*time.Second)
			if e != nil {
				return fx.Inconclusive("%v", e)
			}
			_, _ = cn.Write(hwClientHello(strings.ToLower(op.Host)))
			line, rerr := fx.ReadLine(cn, 3*time.Second)
			cn.Close()
			want, ok := winner(table, canonicalHost(op.Host), "", "")
			if !ok {
				if rerr == nil && line != "" {
					return fmt.Errorf("step %d: ClientHello for %q matches no live https route but was bridged to %q (table %v)", i, op.Host, line, tableList(table))
				}
				var ne net.Error
				if errors.As(rerr, &ne) && ne.Timeout() {
					return fmt.Errorf("step %d: ClientHello for %q matches no live https route; the connection was neither bridged nor closed within 3 s (table %v)", i, op.Host, tableList(table))
				}
				continue
			}
			exp := fmt.Sprintf("S%d:%s", pslot[want.key()], pname[want.key()])
			if rerr != nil || line != exp {
				return fmt.Errorf("step %d: ClientHello for %q answered %q (%v); the most specific live route is %+v served by %s (table %v)", i, op.Host, line, rerr, want, exp, tableList(table))
			}
		}
	}
	return nil
}

func TestHTTPSWire(t *testing.T) {
	fx.Prelease(2)
	fx.Run(t, fx.Spec[HWCase]{Prop: "C06", Name: "https_wire", Quick: 320, Thorough: 8000, Gen: genHW, Run: runHW, Journal: true,
		Class: func(c HWCase) fx.Class {
			regs, reqs := 0, 0
			for _, o := range c.Ops {
				if o.Kind == "reg" {
					regs++
				}
				if o.Kind == "req" {
					reqs++
				}
			}
			return fx.Class{NonTrivial: regs >= 2 && reqs >= 1, Fingerprint: fmt.Sprintf("%+v", c)}
		}})
}
