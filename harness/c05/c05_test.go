// Package c05: configured encryption really protects the wire; TLS identity rules are enforced.
package c05

import (
	"path/filepath"
	"os"
	"errors"
	"bytes"
	"crypto/sha256"
	"crypto/tls"
	"encoding/base64"
	"encoding/hex"
	"fmt"
	"io"
	"net"
	"strings"
	"testing"
	"time"

	"github.com/samber/lo"

	"github.com/fatedier/frp/pkg/config"
	v1 "github.com/fatedier/frp/pkg/config/v1"
	"github.com/fatedier/frp/pkg/msg"
	"github.com/fatedier/frp/pkg/util/util"
	"pgregory.net/rapid"

	"verifharness/fx"
)

func TestMain(m *testing.M) { fx.Main(m, "C05") }

// ---- (1) absence of secrets / payload / control content on the recorded path -----------------------

type WCase struct {
	Seed       uint64 `json:"seed"` // marker seed
	TLS        bool   `json:"tls"`
	CustomByte bool   `json:"custom_first_byte"` // disableCustomTLSFirstByte = !CustomByte
	Force      bool   `json:"force"`
	Enc        bool   `json:"enc"`
	Comp       bool   `json:"comp"`
	Transport  string `json:"transport"` // tcp websocket kcp quic
	LoseTLS    bool   `json:"lose_tls_files"` // fault: the client's trusted-CA file disappears after start-up, then every connection is cut
	TCPMux     bool   `json:"tcpmux"`
	KB         int    `json:"kb"` // payload size per direction
	Source     string `json:"source,omitempty"` // how frpc gets its configuration: "" = structures, "toml" / "ini" = a file of that format through the real loader
}

func genW(t *rapid.T) WCase {
	tr := []string{"tcp", "tcp", "websocket"}
	if fx.Thorough() {
		tr = append(tr, "kcp", "quic")
	}
	c := WCase{Seed: rapid.Uint64().Draw(t, "seed"), TLS: rapid.Bool().Draw(t, "tls"), CustomByte: rapid.Bool().Draw(t, "custombyte"), Enc: rapid.Bool().Draw(t, "enc"),
		Comp: rapid.Bool().Draw(t, "comp"), Transport: rapid.SampledFrom(tr).Draw(t, "transport"), TCPMux: rapid.Bool().Draw(t, "tcpmux"), KB: rapid.SampledFrom([]int{2, 8, 64}).Draw(t, "kb")}
	c.Force = c.TLS && rapid.Bool().Draw(t, "force")
	if c.Transport == "quic" {
		c.TLS = true // quic always runs over TLS
	}
	if c.TLS && (c.Transport == "tcp" || c.Transport == "websocket") {
		c.LoseTLS = rapid.IntRange(0, 3).Draw(t, "losetls") == 0
	}
	c.Source = rapid.SampledFrom([]string{"", "", "toml", "ini"}).Draw(t, "source")
	return c
}

func marker(seed uint64, name string) string {
	h := sha256.Sum256([]byte(fmt.Sprintf("%d/%s", seed, name)))
	return "MK" + strings.NewReplacer("+", "x", "/", "y", "=", "z").Replace(base64.StdEncoding.EncodeToString(h[:18]))
}

func forms(m string) map[string][]byte {
	return map[string][]byte{"raw": []byte(m), "base64": []byte(base64.StdEncoding.EncodeToString([]byte(m))), "hex": []byte(hex.EncodeToString([]byte(m)))}
}

func payload(seed uint64, dir string, kb int) []byte {
	mk := marker(seed, "payload-"+dir)
	// incompressible filler between marker repetitions, marker at several offsets
	var b bytes.Buffer
	h := sha256.Sum256([]byte(mk))
	for b.Len() < kb*1024 {
		b.WriteString(mk)
		for i := 0; i < 7; i++ {
			h = sha256.Sum256(h[:])
			b.Write(h[:])
		}
	}
	return b.Bytes()
}

func runW(c WCase) error {
	token := marker(c.Seed, "token")
	sk := marker(c.Seed, "sk")
	httpPw := marker(c.Seed, "httppw")
	muxPw := marker(c.Seed, "muxpw")
	pname := marker(c.Seed, "proxyname")
	domain := strings.ToLower(marker(c.Seed, "domain")) + ".test"
	metaVal := marker(c.Seed, "meta")
	s, err := fx.StartServer(fx.WithVhostHTTP(), fx.WithTCPMux(false), fx.WithKCP(), fx.WithQUIC(), fx.WithServerTCPMux(c.TCPMux), fx.WithCfg(func(sc *v1.ServerConfig, b *fx.Block) {
		sc.Auth.Token = token
		sc.Transport.TLS.Force = c.Force
	}))
	if err != nil {
		return err
	}
	defer s.Close()
	target := s.BindAddr()
	udpTarget := ""
	switch c.Transport {
	case "kcp":
		udpTarget = s.Addr(fx.SlotKCP)
	case "quic":
		udpTarget = s.Addr(fx.SlotQUIC)
	}
	relay, err := fx.NewRelay(s.Block.Port(fx.SlotExtra), target, udpTarget)
	if err != nil {
		return fx.Inconclusive("relay: %v", err)
	}
	defer relay.Close()
	// backend echoing a response payload after reading the request payload
	up, down := payload(c.Seed, "up", c.KB), payload(c.Seed, "down", c.KB)
	bl, err := net.Listen("tcp", "127.0.0.1:0")
	if err != nil {
		return fx.Inconclusive("%v", err)
	}
	defer bl.Close()
	go func() {
		for {
			cn, e := bl.Accept()
			if e != nil {
				return
			}
			go func() {
				defer cn.Close()
				buf := make([]byte, len(up))
				if _, e := io.ReadFull(cn, buf); e != nil {
					return
				}
				_, _ = cn.Write(down)
			}()
		}
	}()
	bport := bl.Addr().(*net.TCPAddr).Port
	common := fx.BaseClientConfig(s)
	common.Auth.Token = token
	common.ServerPort = relay.Port
	common.Transport.Protocol = c.Transport
	common.Transport.TCPMux = lo.ToPtr(c.TCPMux)
	common.Transport.TLS.Enable = lo.ToPtr(c.TLS)
	common.Transport.TLS.DisableCustomTLSFirstByte = lo.ToPtr(!c.CustomByte)
	common.Metadatas = map[string]string{"m": metaVal}
	caCopy := ""
	if c.LoseTLS {
		// the client verifies the server against a CA file of its own, which will disappear
		dir, e := os.MkdirTemp("", "frp-verif-c05")
		if e != nil {
			return fx.Inconclusive("%v", e)
		}
		defer os.RemoveAll(dir)
		b, e := os.ReadFile(fx.GetCerts().CA)
		if e != nil {
			return fx.Inconclusive("%v", e)
		}
		caCopy = filepath.Join(dir, "ca.crt")
		if e := os.WriteFile(caCopy, b, 0o600); e != nil {
			return fx.Inconclusive("%v", e)
		}
		common.Transport.TLS.TrustedCaFile, common.Transport.TLS.ServerName = caCopy, "frps.test"
	}
	tp := &v1.TCPProxyConfig{}
	tp.Name, tp.Type, tp.LocalIP, tp.LocalPort, tp.RemotePort = pname, "tcp", "127.0.0.1", bport, s.AllowPort(0)
	tp.Transport.UseEncryption, tp.Transport.UseCompression = c.Enc, c.Comp
	tp.Metadatas = map[string]string{"k": metaVal}
	hp := &v1.HTTPProxyConfig{}
	hp.Name, hp.Type, hp.LocalIP, hp.LocalPort = pname+"-http", "http", "127.0.0.1", bport
	hp.CustomDomains, hp.HTTPUser, hp.HTTPPassword = []string{domain}, "user", httpPw
	mp := &v1.TCPMuxProxyConfig{}
	mp.Name, mp.Type, mp.LocalIP, mp.LocalPort = pname+"-mux", "tcpmux", "127.0.0.1", bport
	mp.CustomDomains, mp.Multiplexer, mp.HTTPUser, mp.HTTPPassword = []string{"mux." + domain}, "httpconnect", "user", muxPw
	sp := &v1.STCPProxyConfig{}
	sp.Name, sp.Type, sp.LocalIP, sp.LocalPort, sp.Secretkey = pname+"-stcp", "stcp", "127.0.0.1", bport, sk
	sp.Transport.UseEncryption, sp.Transport.UseCompression = c.Enc, c.Comp
	vis := &v1.STCPVisitorConfig{}
	vis.Name, vis.Type, vis.ServerName, vis.SecretKey, vis.BindAddr, vis.BindPort = "vis", "stcp", pname+"-stcp", sk, "127.0.0.1", s.Block.Port(fx.SlotExtra+1)
	vis.Transport.UseEncryption, vis.Transport.UseCompression = c.Enc, c.Comp
	pxys, viss := []v1.ProxyConfigurer{tp, hp, mp, sp}, []v1.VisitorConfigurer{vis}
	if c.Source != "" {
		// the same configuration written down as a user would, and read back by frp's own loader
		dir, e := os.MkdirTemp("", "frp-verif-c05cfg")
		if e != nil {
			return fx.Inconclusive("%v", e)
		}
		defer os.RemoveAll(dir)
		path := filepath.Join(dir, "frpc."+c.Source)
		if e := os.WriteFile(path, []byte(renderClientFile(c.Source, common, tp, hp, mp, sp, vis)), 0o600); e != nil {
			return fx.Inconclusive("%v", e)
		}
		lc, lp, lv, _, e := config.LoadClientConfig(path, false)
		if e != nil {
			return fmt.Errorf("frp's loader refuses the %s rendering of the configuration: %v", c.Source, e)
		}
		if len(lp) != 4 || len(lv) != 1 {
			return fmt.Errorf("frp's loader found %d proxies and %d visitors in a %s file with 4 proxies and 1 visitor", len(lp), len(lv), c.Source)
		}
		common, pxys, viss = lc, lp, lv
	}
	cl, err := fx.StartClient(common, pxys, viss)
	if err != nil {
		return fx.Inconclusive("client: %v", err)
	}
	defer cl.Close()
	if e := cl.WaitRunning(8*time.Second, tp.Name, hp.Name, mp.Name, sp.Name); e != nil {
		return fx.Inconclusive("tunnels did not come up (%+v): %v", c, e)
	}
	// payload through the tcp proxy and through the stcp visitor
	xfer := func(addr string) error {
		cn, e := net.DialTimeout("tcp", addr, 3*time.Second)
		if e != nil {
			return e
		}
		defer cn.Close()
		_ = cn.SetDeadline(time.Now().Add(15 * time.Second))
		if _, e := cn.Write(up); e != nil {
			return e
		}
		got := make([]byte, len(down))
		if _, e := io.ReadFull(cn, got); e != nil {
			return e
		}
		if !bytes.Equal(got, down) {
			return fmt.Errorf("payload altered")
		}
		return nil
	}
	if e := xfer(fmt.Sprintf("127.0.0.1:%d", s.AllowPort(0))); e != nil {
		return fx.Inconclusive("transfer through the tcp proxy failed: %v", e)
	}
	if e := fx.WaitListen(fmt.Sprintf("127.0.0.1:%d", vis.BindPort), 3*time.Second); e == nil {
		if e := xfer(fmt.Sprintf("127.0.0.1:%d", vis.BindPort)); e != nil {
			return fx.Inconclusive("transfer through the stcp visitor failed: %v", e)
		}
	}
	if c.LoseTLS {
		// fault: the TLS material can no longer be loaded; every connection is cut, the client dials again and
		// users keep connecting. Whatever then crosses the path must still be TLS - or nothing at all.
		_ = os.Remove(caCopy)
		relay.Cut()
		deadline := time.Now().Add(2500 * time.Millisecond)
		for time.Now().Before(deadline) {
			_ = xfer(fmt.Sprintf("127.0.0.1:%d", s.AllowPort(0)))
			time.Sleep(150 * time.Millisecond)
		}
	}
	time.Sleep(30 * time.Millisecond)
	if relay.Total() < c.KB*1024 {
		return fx.Inconclusive("relay carried only %d bytes", relay.Total())
	}
	// ---- oracle
	for name, m := range map[string]string{"auth token": token, "stcp secret key": sk, "http password": httpPw, "tcpmux password": muxPw} {
		for form, b := range forms(m) {
			if relay.Contains(b) {
				return fmt.Errorf("the %s appears in clear (%s form) on the path between frpc and frps (%+v)", name, form, c)
			}
		}
	}
	payloadVisible := relay.Contains([]byte(marker(c.Seed, "payload-up"))) || relay.Contains([]byte(marker(c.Seed, "payload-down")))
	if (c.TLS || c.Enc) && payloadVisible {
		return fmt.Errorf("tunnelled payload appears in clear on the path although tls=%v / proxy encryption=%v (%+v)", c.TLS, c.Enc, c)
	}
	if !c.TLS && !c.Enc && !c.Comp && !payloadVisible {
		return fmt.Errorf("negative control failed: with TLS, encryption and compression off the payload marker must be visible to the observer (%+v)", c)
	}
	if c.TLS {
		for name, m := range map[string]string{"proxy name": pname, "custom domain": domain, "metadata value": metaVal} {
			if relay.Contains([]byte(m)) {
				return fmt.Errorf("control-message content (%s) appears in clear on the path although TLS is on (%+v)", name, c)
			}
		}
	}
	return nil
}

// renderClientFile writes the configuration of a wire case as a TOML document or as a legacy INI file.
func renderClientFile(format string, c *v1.ClientCommonConfig, tp *v1.TCPProxyConfig, hp *v1.HTTPProxyConfig, mp *v1.TCPMuxProxyConfig, sp *v1.STCPProxyConfig, vis *v1.STCPVisitorConfig) string {
	var b strings.Builder
	tls, first, mux := lo.FromPtr(c.Transport.TLS.Enable), lo.FromPtr(c.Transport.TLS.DisableCustomTLSFirstByte), lo.FromPtr(c.Transport.TCPMux)
	if format == "toml" {
		fmt.Fprintf(&b, "serverAddr = %q\nserverPort = %d\nloginFailExit = false\nauth.token = %q\nlog.level = \"error\"\n", c.ServerAddr, c.ServerPort, c.Auth.Token)
		fmt.Fprintf(&b, "transport.protocol = %q\ntransport.tcpMux = %v\ntransport.dialServerTimeout = 5\ntransport.tls.enable = %v\ntransport.tls.disableCustomTLSFirstByte = %v\n", c.Transport.Protocol, mux, tls, first)
		if c.Transport.TLS.TrustedCaFile != "" {
			fmt.Fprintf(&b, "transport.tls.trustedCaFile = %q\ntransport.tls.serverName = %q\n", c.Transport.TLS.TrustedCaFile, c.Transport.TLS.ServerName)
		}
		fmt.Fprintf(&b, "[metadatas]\nm = %q\n", c.Metadatas["m"])
		fmt.Fprintf(&b, "[[proxies]]\nname = %q\ntype = \"tcp\"\nlocalIP = \"127.0.0.1\"\nlocalPort = %d\nremotePort = %d\ntransport.useEncryption = %v\ntransport.useCompression = %v\nmetadatas.k = %q\n",
			tp.Name, tp.LocalPort, tp.RemotePort, tp.Transport.UseEncryption, tp.Transport.UseCompression, tp.Metadatas["k"])
		fmt.Fprintf(&b, "[[proxies]]\nname = %q\ntype = \"http\"\nlocalIP = \"127.0.0.1\"\nlocalPort = %d\ncustomDomains = [%q]\nhttpUser = %q\nhttpPassword = %q\n",
			hp.Name, hp.LocalPort, hp.CustomDomains[0], hp.HTTPUser, hp.HTTPPassword)
		fmt.Fprintf(&b, "[[proxies]]\nname = %q\ntype = \"tcpmux\"\nmultiplexer = \"httpconnect\"\nlocalIP = \"127.0.0.1\"\nlocalPort = %d\ncustomDomains = [%q]\nhttpUser = %q\nhttpPassword = %q\n",
			mp.Name, mp.LocalPort, mp.CustomDomains[0], mp.HTTPUser, mp.HTTPPassword)
		fmt.Fprintf(&b, "[[proxies]]\nname = %q\ntype = \"stcp\"\nlocalIP = \"127.0.0.1\"\nlocalPort = %d\nsecretKey = %q\ntransport.useEncryption = %v\ntransport.useCompression = %v\n",
			sp.Name, sp.LocalPort, sp.Secretkey, sp.Transport.UseEncryption, sp.Transport.UseCompression)
		fmt.Fprintf(&b, "[[visitors]]\nname = %q\ntype = \"stcp\"\nserverName = %q\nsecretKey = %q\nbindAddr = \"127.0.0.1\"\nbindPort = %d\ntransport.useEncryption = %v\ntransport.useCompression = %v\n",
			vis.Name, vis.ServerName, vis.SecretKey, vis.BindPort, vis.Transport.UseEncryption, vis.Transport.UseCompression)
		return b.String()
	}
	fmt.Fprintf(&b, "[common]\nserver_addr = %s\nserver_port = %d\nlogin_fail_exit = false\ntoken = %s\nlog_level = error\n", c.ServerAddr, c.ServerPort, c.Auth.Token)
	fmt.Fprintf(&b, "protocol = %s\ntcp_mux = %v\ndial_server_timeout = 5\ntls_enable = %v\ndisable_custom_tls_first_byte = %v\n", c.Transport.Protocol, mux, tls, first)
	if c.Transport.TLS.TrustedCaFile != "" {
		fmt.Fprintf(&b, "tls_trusted_ca_file = %s\ntls_server_name = %s\n", c.Transport.TLS.TrustedCaFile, c.Transport.TLS.ServerName)
	}
	fmt.Fprintf(&b, "meta_m = %s\n", c.Metadatas["m"])
	fmt.Fprintf(&b, "[%s]\ntype = tcp\nlocal_ip = 127.0.0.1\nlocal_port = %d\nremote_port = %d\nuse_encryption = %v\nuse_compression = %v\nmeta_k = %s\n",
		tp.Name, tp.LocalPort, tp.RemotePort, tp.Transport.UseEncryption, tp.Transport.UseCompression, tp.Metadatas["k"])
	fmt.Fprintf(&b, "[%s]\ntype = http\nlocal_ip = 127.0.0.1\nlocal_port = %d\ncustom_domains = %s\nhttp_user = %s\nhttp_pwd = %s\n", hp.Name, hp.LocalPort, hp.CustomDomains[0], hp.HTTPUser, hp.HTTPPassword)
	fmt.Fprintf(&b, "[%s]\ntype = tcpmux\nmultiplexer = httpconnect\nlocal_ip = 127.0.0.1\nlocal_port = %d\ncustom_domains = %s\nhttp_user = %s\nhttp_pwd = %s\n", mp.Name, mp.LocalPort, mp.CustomDomains[0], mp.HTTPUser, mp.HTTPPassword)
	fmt.Fprintf(&b, "[%s]\ntype = stcp\nlocal_ip = 127.0.0.1\nlocal_port = %d\nsk = %s\nuse_encryption = %v\nuse_compression = %v\n", sp.Name, sp.LocalPort, sp.Secretkey, sp.Transport.UseEncryption, sp.Transport.UseCompression)
	fmt.Fprintf(&b, "[%s]\nrole = visitor\ntype = stcp\nserver_name = %s\nsk = %s\nbind_addr = 127.0.0.1\nbind_port = %d\nuse_encryption = %v\nuse_compression = %v\n",
		vis.Name, vis.ServerName, vis.SecretKey, vis.BindPort, vis.Transport.UseEncryption, vis.Transport.UseCompression)
	return b.String()
}

func TestWireConfidentiality(t *testing.T) {
	fx.Prelease(3)
	fx.Run(t, fx.Spec[WCase]{Prop: "C05", Name: "wire_confidentiality", Journal: true, Quick: 160, Thorough: 5000, Gen: genW, Run: runW, ShrinkTime: "40s",
		Class: func(c WCase) fx.Class {
			cc := c
			cc.Seed = 0
			return fx.Class{NonTrivial: c.TLS || c.Enc, Fingerprint: fmt.Sprintf("%+v", cc), Labels: []string{fmt.Sprintf("tls=%v,enc=%v", c.TLS, c.Enc), "transport=" + c.Transport}}
		}})
}

// ---- (2) identity matrix -------------------------------------------------------------------------------

type ICase struct {
	Side       string `json:"side"`        // server | client
	Listener   string `json:"listener"`    // server side: tcp (hand-made peer) | websocket | kcp | quic (frp's own connector as the peer)
	Force      bool   `json:"force"`       // server forces TLS
	ServerCA   bool   `json:"server_ca"`   // server has a trusted CA (=> mutual TLS)
	GenCert    bool   `json:"gen_cert"`    // server has no certFile / keyFile of its own: it generates a certificate at start
	PeerTLS    bool   `json:"peer_tls"`    // the connecting peer uses TLS
	PeerCert   string `json:"peer_cert"`   // none | good | foreign | self
	FirstByte  int    `json:"first_byte"`  // non-TLS peer: first byte sent before a well-formed plaintext login (-1 = none extra)
	ClientCA   bool   `json:"client_ca"`   // client side: trustedCaFile configured
	ServerName string `json:"server_name"` // client side: expected server name
	ServerCert string `json:"server_cert"` // client side: what the server presents: good | foreign | self | wrongname
}

func genI(t *rapid.T) ICase {
	c := ICase{Side: rapid.SampledFrom([]string{"server", "server", "client"}).Draw(t, "side")}
	if c.Side == "server" {
		c.Force = rapid.Bool().Draw(t, "force")
		c.ServerCA = rapid.Bool().Draw(t, "serverca")
		c.GenCert = rapid.Bool().Draw(t, "gencert")
		c.PeerTLS = rapid.Bool().Draw(t, "peertls")
		c.PeerCert = rapid.SampledFrom([]string{"none", "good", "foreign", "self"}).Draw(t, "peercert")
		c.FirstByte = rapid.IntRange(-1, 255).Draw(t, "firstbyte")
		c.Listener = rapid.SampledFrom([]string{"tcp", "tcp", "websocket", "kcp", "quic"}).Draw(t, "listener")
		if c.Listener != "tcp" {
			c.FirstByte = -1
		}
		if c.Listener == "quic" {
			c.PeerTLS = true // quic always runs over TLS
		}
		return c
	}
	c.ClientCA = rapid.Bool().Draw(t, "clientca")
	c.ServerName = rapid.SampledFrom([]string{"frps.test", "other.test", ""}).Draw(t, "servername")
	c.ServerCert = rapid.SampledFrom([]string{"good", "foreign", "self", "wrongname"}).Draw(t, "servercert")
	return c
}

func judgeServer(c ICase, s *fx.Server, base *fx.Snapshot, mustRefuse, gotResp bool, resp msg.LoginResp) error {
	accepted := gotResp && resp.Error == "" && resp.RunID != ""
	desc := fmt.Sprintf("server force=%v trustedCA=%v generatedCert=%v; listener=%s peer tls=%v cert=%s firstByte=%d", c.Force, c.ServerCA, c.GenCert, c.Listener, c.PeerTLS, c.PeerCert, c.FirstByte)
	if mustRefuse {
		if gotResp {
			return fmt.Errorf("%s: the peer must not get any protocol message interpreted, but it received a LoginResp (error=%q run_id=%q)", desc, resp.Error, resp.RunID)
		}
		time.Sleep(20 * time.Millisecond)
		if d := fx.SnapshotDiff(base, s.Snapshot()); d != "" {
			return fmt.Errorf("%s: refused peer changed server state: %s", desc, d)
		}
		return nil
	}
	if !accepted {
		return fmt.Errorf("%s: an acceptable peer was not admitted (got response=%v error=%q)", desc, gotResp, resp.Error)
	}
	return nil
}

func runI(c ICase) error {
	certs := fx.GetCerts()
	if c.Side == "server" {
		s, err := fx.StartServer(fx.WithServerTCPMux(false), fx.WithKCP(), fx.WithQUIC(), fx.WithCfg(func(sc *v1.ServerConfig, b *fx.Block) {
			sc.Transport.TLS.Force = c.Force
			if c.ServerCA {
				sc.Transport.TLS.TrustedCaFile = certs.CA
			}
			if c.GenCert {
				sc.Transport.TLS.CertFile, sc.Transport.TLS.KeyFile = "", ""
			}
		}))
		if err != nil {
			return err
		}
		defer s.Close()
		base := s.Snapshot()
		login := func() *msg.Login {
			ts := time.Now().Unix()
			return &msg.Login{Version: "0.62.0", User: "u", Timestamp: ts, PrivilegeKey: util.GetAuthKey(fx.Token, ts)}
		}
		gotResp := false
		var resp msg.LoginResp
		mustRefuse := false
		if c.Listener != "" && c.Listener != "tcp" {
			// the same matrix on the other listeners, with frp's own connector as the connecting peer
			common := fx.ScriptedCommon(s)
			common.Transport.Protocol = c.Listener
			switch c.Listener {
			case "kcp":
				common.ServerPort = s.Block.Port(fx.SlotKCP)
			case "quic":
				common.ServerPort = s.Block.Port(fx.SlotQUIC)
			}
			common.Transport.TLS.Enable = lo.ToPtr(c.PeerTLS)
			if c.PeerTLS {
				switch c.PeerCert {
				case "good":
					common.Transport.TLS.CertFile, common.Transport.TLS.KeyFile = certs.ClientCert, certs.ClientKey
				case "foreign":
					common.Transport.TLS.CertFile, common.Transport.TLS.KeyFile = certs.OtherCert, certs.OtherKey
				case "self":
					common.Transport.TLS.CertFile, common.Transport.TLS.KeyFile = certs.SelfCert, certs.SelfKey
				}
				mustRefuse = c.ServerCA && c.PeerCert != "good"
			} else {
				mustRefuse = c.Force || c.ServerCA
			}
			common.Transport.DialServerTimeout = 3
			sc, e := fx.Dial(common)
			if e == nil {
				defer sc.Close()
				_ = sc.Conn.SetDeadline(time.Now().Add(4 * time.Second))
				e = sc.SendLogin(sc.LoginMsg("u", "", 0))
				var lr *fx.LoginRefused
				if e == nil || errors.As(e, &lr) {
					gotResp, resp = true, sc.LoginResp
				}
			}
			return judgeServer(c, s, base, mustRefuse, gotResp, resp)
		}
		conn, err := net.DialTimeout("tcp", s.BindAddr(), 2*time.Second)
		if err != nil {
			return fx.Inconclusive("%v", err)
		}
		defer conn.Close()
		_ = conn.SetDeadline(time.Now().Add(4 * time.Second))
		if c.PeerTLS {
			cfg := &tls.Config{InsecureSkipVerify: true}
			switch c.PeerCert {
			case "good":
				cert, _ := tls.LoadX509KeyPair(certs.ClientCert, certs.ClientKey)
				cfg.Certificates = []tls.Certificate{cert}
			case "foreign":
				cert, _ := tls.LoadX509KeyPair(certs.OtherCert, certs.OtherKey)
				cfg.Certificates = []tls.Certificate{cert}
			case "self":
				cert, _ := tls.LoadX509KeyPair(certs.SelfCert, certs.SelfKey)
				cfg.Certificates = []tls.Certificate{cert}
			}
			mustRefuse = c.ServerCA && c.PeerCert != "good"
			_, _ = conn.Write([]byte{0x17}) // frp's custom TLS head byte
			tc := tls.Client(conn, cfg)
			if e := tc.Handshake(); e == nil {
				if e := msg.WriteMsg(tc, login()); e == nil {
					if e := msg.ReadMsgInto(tc, &resp); e == nil {
						gotResp = true
					}
				}
			}
		} else {
			// a trusted CA implies forced TLS
			mustRefuse = c.Force || c.ServerCA
			if c.FirstByte >= 0 {
				if c.FirstByte == 0x16 || c.FirstByte == 0x17 {
					mustRefuse = true // announces TLS and then speaks plaintext: never a valid session either way
				} else if !mustRefuse {
					// an arbitrary extra byte in front of the login is simply a malformed first message
					mustRefuse = true
				}
				_, _ = conn.Write([]byte{byte(c.FirstByte)})
			}
			if e := msg.WriteMsg(conn, login()); e == nil {
				if e := msg.ReadMsgInto(conn, &resp); e == nil {
					gotResp = true
				}
			}
		}
		return judgeServer(c, s, base, mustRefuse, gotResp, resp)
	}
	// client side: a TLS server presenting some identity; did the client send a login?
	blk, err := fx.Lease()
	if err != nil {
		return fx.Inconclusive("%v", err)
	}
	defer blk.Release()
	var cert tls.Certificate
	switch c.ServerCert {
	case "good":
		cert, _ = tls.LoadX509KeyPair(certs.ServerCert, certs.ServerKey)
	case "foreign":
		cert, _ = tls.LoadX509KeyPair(certs.OtherCert, certs.OtherKey)
	case "self":
		cert, _ = tls.LoadX509KeyPair(certs.SelfCert, certs.SelfKey)
	case "wrongname":
		cert, _ = tls.LoadX509KeyPair(certs.WrongNameCert, certs.WrongNameKey)
	}
	ln, err := net.Listen("tcp", fmt.Sprintf("127.0.0.1:%d", blk.Port(0)))
	if err != nil {
		return fx.Inconclusive("%v", err)
	}
	defer ln.Close()
	gotLogin := make(chan bool, 8)
	go func() {
		for {
			cn, e := ln.Accept()
			if e != nil {
				return
			}
			go func() {
				defer cn.Close()
				_ = cn.SetDeadline(time.Now().Add(3 * time.Second))
				one := make([]byte, 1)
				if _, e := io.ReadFull(cn, one); e != nil {
					return
				}
				var rc net.Conn = cn
				if one[0] != 0x17 {
					rc = &prefixConn{Conn: cn, pre: one}
				}
				tc := tls.Server(rc, &tls.Config{Certificates: []tls.Certificate{cert}})
				if e := tc.Handshake(); e != nil {
					return
				}
				m, e := msg.ReadMsg(tc)
				if e != nil {
					return
				}
				if _, ok := m.(*msg.Login); ok {
					gotLogin <- true
				}
			}()
		}
	}()
	common := &v1.ClientCommonConfig{}
	common.ServerAddr, common.ServerPort = "127.0.0.1", blk.Port(0)
	common.Auth.Token = fx.Token
	common.LoginFailExit = lo.ToPtr(false)
	common.Transport.TCPMux = lo.ToPtr(false)
	common.Transport.TLS.Enable = lo.ToPtr(true)
	common.Transport.TLS.ServerName = c.ServerName
	if c.ClientCA {
		common.Transport.TLS.TrustedCaFile = certs.CA
	}
	common.Log.Level = "error"
	cl, err := fx.StartClient(common, nil, nil)
	if err != nil {
		return fx.Inconclusive("%v", err)
	}
	defer cl.Close()
	sent := false
	select {
	case <-gotLogin:
		sent = true
	case <-time.After(1500 * time.Millisecond):
	}
	// with a trusted CA the client verifies the chain and the name it expects (serverName, or the address when empty)
	expectName := c.ServerName
	acceptable := true
	if c.ClientCA {
		switch c.ServerCert {
		case "foreign", "self":
			acceptable = false
		case "wrongname":
			acceptable = false // valid for other.test only... unless that is the expected name
			if expectName == "other.test" {
				acceptable = true
			}
		case "good":
			acceptable = expectName == "frps.test" || expectName == "" // "" => 127.0.0.1, which the certificate carries as IP SAN
		}
	}
	desc := fmt.Sprintf("client trustedCA=%v serverName=%q; server presents %s", c.ClientCA, c.ServerName, c.ServerCert)
	if !acceptable && sent {
		return fmt.Errorf("%s: the client must refuse this server identity but it sent its login", desc)
	}
	if acceptable && !sent {
		return fmt.Errorf("%s: an acceptable server identity, yet the client did not log in within 1.5 s", desc)
	}
	return nil
}

type prefixConn struct {
	net.Conn
	pre []byte
}

func (p *prefixConn) Read(b []byte) (int, error) {
	if len(p.pre) > 0 {
		n := copy(b, p.pre)
		p.pre = p.pre[n:]
		return n, nil
	}
	return p.Conn.Read(b)
}

func TestIdentityMatrix(t *testing.T) {
	fx.Prelease(2)
	fx.Run(t, fx.Spec[ICase]{Prop: "C05", Name: "identity_matrix", Journal: true, Quick: 400, Thorough: 12000, Gen: genI, Run: runI, ShrinkTime: "40s",
		Class: func(c ICase) fx.Class {
			refuse := (c.Side == "server" && (c.Force || c.ServerCA)) || (c.Side == "client" && c.ClientCA)
			return fx.Class{NonTrivial: refuse, Fingerprint: fmt.Sprintf("%+v", c), Labels: []string{"side=" + c.Side}}
		}})
}
