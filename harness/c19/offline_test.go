package c19

import (
	"fmt"
	"sort"
	"sync"
	"testing"
	"time"

	"github.com/samber/lo"

	v1 "github.com/fatedier/frp/pkg/config/v1"
	"github.com/fatedier/frp/pkg/msg"
	"pgregory.net/rapid"

	"verifharness/fx"
)

// ---- reload while the client has no session: the configuration loaded while the client is busy logging in again is
// the one in force; after the next successful login exactly its proxies are registered.
type OffCase struct {
	Before []Entry `json:"before"`
	During []Entry `json:"during"`          // loaded while logins are refused
	Again  []Entry `json:"again,omitempty"` // optionally a second reload during the same outage (the last one counts)
	Fault  string  `json:"fault"`           // refuse (LoginResp with error) | drop (connection closed without answer)
}

func genOff(t *rapid.T) OffCase {
	c := OffCase{Fault: rapid.SampledFrom([]string{"refuse", "drop"}).Draw(t, "fault")}
	c.Before, _ = genSet(t, "before")
	c.During, _ = genSet(t, "during")
	if rapid.IntRange(0, 2).Draw(t, "twice") == 0 {
		c.Again, _ = genSet(t, "again")
		if len(c.Again) == 0 {
			c.Again = []Entry{{Name: 0, Variant: 1}}
		}
	}
	return c
}

func dedup(set []Entry) map[string]Entry {
	out := map[string]Entry{}
	for _, e := range set {
		out[pnames[e.Name]] = e
	}
	return out
}

func runOff(c OffCase) error {
	blk, err := fx.Lease()
	if err != nil {
		return fx.Inconclusive("%v", err)
	}
	defer blk.Release()
	ss, err := fx.NewScriptedServer(blk.Port(0))
	if err != nil {
		return fx.Inconclusive("%v", err)
	}
	defer ss.Close()
	var mu sync.Mutex
	refusing := false
	ss.LoginReply = func(n int, l *msg.Login) string {
		mu.Lock()
		defer mu.Unlock()
		if !refusing {
			return ""
		}
		if c.Fault == "drop" {
			return "drop"
		}
		return "scripted refusal"
	}
	common := &v1.ClientCommonConfig{}
	common.ServerAddr, common.ServerPort = "127.0.0.1", ss.Port()
	common.Auth.Token = fx.Token
	common.LoginFailExit = lo.ToPtr(false)
	common.Transport.TCPMux = lo.ToPtr(false)
	common.Transport.TLS.Enable = lo.ToPtr(false)
	common.Transport.HeartbeatInterval = -1
	common.Log.Level = "error"
	build := func(set []Entry) []v1.ProxyConfigurer {
		var ps []v1.ProxyConfigurer
		for _, e := range set {
			p := mkProxy(e, blk.Port(20))
			p.Complete("")
			ps = append(ps, p)
		}
		return ps
	}
	cl, err := fx.StartClient(common, build(c.Before), nil)
	if err != nil {
		return fx.Inconclusive("client: %v", err)
	}
	defer cl.Close()
	matches := func(want map[string]Entry) (bool, string) {
		reg, state := ss.Intent()
		var got, exp []string
		for n, m := range reg {
			got = append(got, fmt.Sprintf("%s@%d/%v/%s", n, m.RemotePort, m.UseEncryption, state[n]))
		}
		for n, e := range want {
			w := mkProxy(e, 0).(*v1.TCPProxyConfig)
			exp = append(exp, fmt.Sprintf("%s@%d/%v/ok", n, w.RemotePort, w.Transport.UseEncryption))
		}
		sort.Strings(got)
		sort.Strings(exp)
		return fmt.Sprint(got) == fmt.Sprint(exp), fmt.Sprintf("registered %v, configured %v", got, exp)
	}
	waitFor := func(want map[string]Entry, d time.Duration) (bool, string) {
		var desc string
		for dl := time.Now().Add(d); time.Now().Before(dl); time.Sleep(5 * time.Millisecond) {
			var ok bool
			if ok, desc = matches(want); ok {
				return true, desc
			}
		}
		return false, desc
	}
	if ok, desc := waitFor(dedup(c.Before), 6*time.Second); !ok {
		return fx.Inconclusive("initial registrations did not settle: %s", desc)
	}
	logins := func() int {
		n := 0
		for _, e := range ss.Events() {
			if e.Kind == "Login" {
				n++
			}
		}
		return n
	}
	// the outage: the session is cut and every login is turned away
	mu.Lock()
	refusing = true
	mu.Unlock()
	n0 := logins()
	ss.DropControls()
	for dl := time.Now().Add(8 * time.Second); logins() == n0 && time.Now().Before(dl); time.Sleep(2 * time.Millisecond) {
	}
	if logins() == n0 {
		return fx.Inconclusive("the client did not try to log in again within 8 s")
	}
	if e := cl.Svc.UpdateAllConfigurer(build(c.During), nil); e != nil {
		return fmt.Errorf("reload during the outage refused: %v", e)
	}
	want := dedup(c.During)
	if c.Again != nil {
		time.Sleep(30 * time.Millisecond)
		if e := cl.Svc.UpdateAllConfigurer(build(c.Again), nil); e != nil {
			return fmt.Errorf("second reload during the outage refused: %v", e)
		}
		want = dedup(c.Again)
	}
	mu.Lock()
	refusing = false
	mu.Unlock()
	// the next attempt may be a few seconds away (1, 2, 4 ... s between attempts)
	if ok, desc := waitFor(want, 14*time.Second); !ok {
		return fmt.Errorf("configuration loaded while the client had no session (%s, fault %q): 14 s after logins are accepted again: %s", fmt.Sprint(want), c.Fault, desc)
	}
	// and it stays that way
	time.Sleep(700 * time.Millisecond)
	if ok, desc := matches(want); !ok {
		return fmt.Errorf("registrations drifted after the reconnect: %s", desc)
	}
	return nil
}

func TestReloadWhileDisconnected(t *testing.T) {
	fx.Run(t, fx.Spec[OffCase]{Prop: "C19", Name: "reload_while_disconnected", Journal: true, Quick: 32, Thorough: 400, Gen: genOff, Run: runOff, Retry: true, ShrinkTime: "40s",
		Class: func(c OffCase) fx.Class {
			return fx.Class{NonTrivial: fmt.Sprint(dedup(c.Before)) != fmt.Sprint(dedup(c.During)) || c.Again != nil, Fingerprint: fmt.Sprintf("%+v", c), Labels: []string{"fault=" + c.Fault}}
		}})
}
