//go:build verif

package c19

import (
	"time"

	"github.com/fatedier/frp/client/proxy"
)

func setTimings(a, b, c time.Duration) func() { return proxy.VerifSetTimings(a, b, c) }
