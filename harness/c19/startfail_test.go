package c19

import (
	"fmt"
	"testing"
	"time"

	"github.com/samber/lo"

	v1 "github.com/fatedier/frp/pkg/config/v1"

	"verifharness/fx"
)

// Deterministic probe: the server accepts a registration, but the proxy cannot be started at the client (an https2http
// plugin whose certificate files do not exist). The proxy is then not running, so it must not stay registered: the
// client has to withdraw it at the server (and may try again after its back-off). A healthy neighbour is unaffected.
func localStartFailure() error {
	blk, err := fx.Lease()
	if err != nil {
		return fx.Inconclusive("%v", err)
	}
	defer blk.Release()
	ss, err := fx.NewScriptedServer(blk.Port(0))
	if err != nil {
		return fx.Inconclusive("%v", err)
	}
	defer ss.Close()
	common := &v1.ClientCommonConfig{}
	common.ServerAddr, common.ServerPort = "127.0.0.1", ss.Port()
	common.Auth.Token = fx.Token
	common.LoginFailExit = lo.ToPtr(false)
	common.Transport.TCPMux = lo.ToPtr(false)
	common.Transport.TLS.Enable = lo.ToPtr(false)
	common.Log.Level = "error"
	good := &v1.TCPProxyConfig{}
	good.Name, good.Type, good.LocalIP, good.LocalPort, good.RemotePort = "good", "tcp", "127.0.0.1", 9, blk.Port(fx.SlotAllow)
	bad := &v1.HTTPSProxyConfig{}
	bad.Name, bad.Type = "bad", "https"
	bad.CustomDomains = []string{"bad.test"}
	bad.Plugin = v1.TypedClientPluginOptions{Type: "https2http", ClientPluginOptions: &v1.HTTPS2HTTPPluginOptions{Type: "https2http", LocalAddr: "127.0.0.1:9",
		CrtPath: "/nonexistent/verif.crt", KeyPath: "/nonexistent/verif.key"}}
	cl, err := fx.StartClient(common, []v1.ProxyConfigurer{good, bad}, nil)
	if err != nil {
		return fx.Inconclusive("%v", err)
	}
	defer cl.Close()
	// wait for the registration of "bad" to be answered, then give the client 2 s to withdraw it
	deadline := time.Now().Add(6 * time.Second)
	answered := false
	for time.Now().Before(deadline) && !answered {
		for _, e := range ss.Events() {
			if e.Name == "bad" && e.Kind == "Resp:ok" {
				answered = true
			}
		}
		time.Sleep(20 * time.Millisecond)
	}
	if !answered {
		return fx.Inconclusive("the registration of the proxy with the broken plugin was never answered: %v", ss.Events())
	}
	time.Sleep(1500 * time.Millisecond)
	st, _ := cl.Svc.StatusExporter().GetProxyStatus("bad")
	phase := ""
	if st != nil {
		phase = st.Phase
	}
	if phase == "running" {
		return fx.Inconclusive("the proxy with nonexistent certificate files is running")
	}
	reg := ss.Registered()
	if _, still := reg["bad"]; still {
		var seq []string
		for _, e := range ss.Events() {
			if e.Name == "bad" {
				seq = append(seq, e.Kind)
			}
		}
		return fmt.Errorf("proxy bad could not be started at the client (phase %q) but 1.5 s after the server's answer it is still registered at the server (messages about it: %v): a proxy that is not running was not withdrawn", phase, seq)
	}
	if _, ok := reg["good"]; !ok {
		return fmt.Errorf("the healthy neighbour of a proxy that failed to start is not registered: %v", reg)
	}
	return nil
}

func TestLocalStartFailure(t *testing.T) {
	if fx.Shard() != 0 || fx.Replaying() {
		return
	}
	err := localStartFailure()
	if fx.IsInconclusive(err) {
		fx.Note("local_start_failure", "%v", err)
		return
	}
	if err != nil {
		fx.ReportViolation("C19", "local_start_failure", "https proxy with an https2http plugin whose certificate files do not exist, next to a healthy tcp proxy", err)
		t.Errorf("C19/local_start_failure: %v", err)
		return
	}
	fx.Record("local_start_failure", fx.Class{NonTrivial: true, Fingerprint: "probe"}, "https proxy with an https2http plugin whose certificate files do not exist, next to a healthy tcp proxy")
	fx.Record("local_start_failure", fx.Class{NonTrivial: true, Fingerprint: "probe-2"}, "deterministic history probe")
}
