package c19

import (
	"fmt"
	"net/http"
	"sync"
	"testing"
	"time"

	"github.com/samber/lo"

	v1 "github.com/fatedier/frp/pkg/config/v1"
	"github.com/fatedier/frp/pkg/msg"
	"pgregory.net/rapid"

	"verifharness/fx"
)

// health_flap_backoff: a health-checked proxy whose registration the server REFUSES, while its backend flaps.
// The refusal starts the start-error back-off; failing and recovering health probes inside that back-off must not
// shorten it, and must not produce a CloseProxy for a proxy the server never accepted.
type FlapCase struct {
	MaxFailed int      `json:"max_failed"`
	Script    []string `json:"script"` // probe outcomes after the first success: ok | 503
	BackoffMs int      `json:"backoff_ms"`
}

func genFlap(t *rapid.T) FlapCase {
	c := FlapCase{MaxFailed: rapid.IntRange(1, 2).Draw(t, "maxfailed"), BackoffMs: rapid.SampledFrom([]int{3500, 4500}).Draw(t, "backoff")}
	n := rapid.IntRange(2, 5).Draw(t, "n")
	for i := 0; i < n; i++ {
		c.Script = append(c.Script, rapid.SampledFrom([]string{"ok", "503", "503"}).Draw(t, fmt.Sprintf("s%d", i)))
	}
	return c
}

func runFlap(c FlapCase) error {
	blk, err := fx.Lease()
	if err != nil {
		return fx.Inconclusive("%v", err)
	}
	defer blk.Release()
	backoff := time.Duration(c.BackoffMs) * time.Millisecond
	restore := setTimings(statusCheck, waitResponse, backoff)
	defer restore()
	ss, err := fx.NewScriptedServer(blk.Port(0))
	if err != nil {
		return fx.Inconclusive("%v", err)
	}
	defer ss.Close()
	ss.Reply = func(name string, attempt int, _ *msg.NewProxy) (string, time.Duration) {
		if attempt == 1 {
			return "err", 0
		}
		return "ok", 0
	}
	var mu sync.Mutex
	idx := 0
	var outcomes []string
	srv := &http.Server{Addr: fmt.Sprintf("127.0.0.1:%d", blk.Port(20)), Handler: http.HandlerFunc(func(w http.ResponseWriter, r *http.Request) {
		mu.Lock()
		k := idx
		idx++
		out := "ok"
		if k >= 1 && k-1 < len(c.Script) {
			out = c.Script[k-1]
		}
		outcomes = append(outcomes, fmt.Sprintf("%s@%d", out, ss.Now().Milliseconds()))
		mu.Unlock()
		if out == "ok" {
			w.WriteHeader(200)
		} else {
			w.WriteHeader(503)
		}
	})}
	go func() { _ = srv.ListenAndServe() }()
	defer srv.Close()
	pc := &v1.TCPProxyConfig{}
	pc.Name, pc.Type, pc.LocalIP, pc.LocalPort, pc.RemotePort = "hf", "tcp", "127.0.0.1", blk.Port(20), 6200
	pc.HealthCheck = v1.HealthCheckConfig{Type: "http", TimeoutSeconds: 1, MaxFailed: c.MaxFailed, IntervalSeconds: 1, Path: "/health"}
	common := &v1.ClientCommonConfig{}
	common.ServerAddr, common.ServerPort = "127.0.0.1", ss.Port()
	common.Auth.Token = fx.Token
	common.LoginFailExit = lo.ToPtr(false)
	common.Transport.TCPMux = lo.ToPtr(false)
	common.Transport.TLS.Enable = lo.ToPtr(false)
	common.Transport.HeartbeatInterval = -1
	common.Log.Level = "error"
	cl, err := fx.StartClient(common, []v1.ProxyConfigurer{pc}, nil)
	if err != nil {
		return fx.Inconclusive("client: %v", err)
	}
	defer cl.Close()
	time.Sleep(time.Duration(len(c.Script)+2)*time.Second + backoff)
	mu.Lock()
	probes := fmt.Sprint(outcomes)
	mu.Unlock()
	var refusedAt time.Duration = -1
	accepted := false
	var seq []string
	for _, e := range ss.Events() {
		if e.Name != "hf" {
			continue
		}
		seq = append(seq, fmt.Sprintf("%s@%d", e.Kind, e.T.Milliseconds()))
		switch e.Kind {
		case "Resp:err":
			if refusedAt < 0 {
				refusedAt = e.T
			}
		case "Resp:ok":
			accepted = true
		case "NewProxy":
			if refusedAt >= 0 && e.T > refusedAt && e.T < refusedAt+backoff-100*time.Millisecond {
				return fmt.Errorf("registration refused at %dms was sent again at %dms, the start-error back-off is %v (maxFailed=%d, probes %s, messages %v)", refusedAt.Milliseconds(), e.T.Milliseconds(), backoff, c.MaxFailed, probes, seq)
			}
		case "CloseProxy":
			if !accepted {
				return fmt.Errorf("CloseProxy at %dms for a proxy whose registration the server never accepted (maxFailed=%d, probes %s, messages %v)", e.T.Milliseconds(), c.MaxFailed, probes, seq)
			}
		}
	}
	if refusedAt < 0 {
		return fx.Inconclusive("the proxy was never registered (probes %s)", probes)
	}
	return nil
}

func TestHealthFlapBackoff(t *testing.T) {
	if !fx.Hooked {
		fx.SkipSubcheck("health_flap_backoff", "needs the timing setter hook")
		return
	}
	fx.Run(t, fx.Spec[FlapCase]{Prop: "C19", Name: "health_flap_backoff", Journal: true, Quick: 16, Thorough: 200, Gen: genFlap, Run: runFlap, ShrinkTime: "60s",
		Class: func(c FlapCase) fx.Class {
			flap := false
			for i := 1; i < len(c.Script); i++ {
				if c.Script[i-1] == "503" && c.Script[i] == "ok" {
					flap = true
				}
			}
			return fx.Class{NonTrivial: flap, Fingerprint: fmt.Sprintf("%+v", c)}
		}})
}
