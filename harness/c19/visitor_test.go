package c19

import (
	"fmt"
	"net"
	"testing"
	"time"

	"github.com/samber/lo"

	v1 "github.com/fatedier/frp/pkg/config/v1"

	"verifharness/fx"
)

// Probe: visitors that are configured but could not start yet (their bind port is busy) are part of the
// configuration like any other: a reload that removes one must make it disappear for good, a reload that changes
// one must make the NEW version come up - also when the port becomes free later and the manager's 10 s retry runs.
func staleVisitorProbe() error {
	blk, err := fx.Lease()
	if err != nil {
		return fx.Inconclusive("%v", err)
	}
	defer blk.Release()
	ss, err := fx.NewScriptedServer(blk.Port(0))
	if err != nil {
		return fx.Inconclusive("%v", err)
	}
	defer ss.Close()
	pRemoved, pChangedOld, pChangedNew := blk.Port(21), blk.Port(22), blk.Port(23)
	var squat []net.Listener
	for _, p := range []int{pRemoved, pChangedOld} {
		l, e := net.Listen("tcp", fmt.Sprintf("127.0.0.1:%d", p))
		if e != nil {
			return fx.Inconclusive("%v", e)
		}
		squat = append(squat, l)
	}
	defer func() {
		for _, l := range squat {
			l.Close()
		}
	}()
	mk := func(name string, port int) v1.VisitorConfigurer {
		v := &v1.STCPVisitorConfig{}
		v.Name, v.Type, v.ServerName, v.SecretKey, v.BindAddr, v.BindPort = name, "stcp", "target", "sk", "127.0.0.1", port
		return v
	}
	common := &v1.ClientCommonConfig{}
	common.ServerAddr, common.ServerPort = "127.0.0.1", ss.Port()
	common.Auth.Token = fx.Token
	common.LoginFailExit = lo.ToPtr(false)
	common.Transport.TCPMux = lo.ToPtr(false)
	common.Transport.TLS.Enable = lo.ToPtr(false)
	common.Log.Level = "error"
	cl, err := fx.StartClient(common, nil, []v1.VisitorConfigurer{mk("gone", pRemoved), mk("moved", pChangedOld)})
	if err != nil {
		return fx.Inconclusive("%v", err)
	}
	defer cl.Close()
	time.Sleep(800 * time.Millisecond) // both visitors fail to bind: their ports are taken
	// reload: "gone" is removed, "moved" gets another port
	moved := mk("moved", pChangedNew)
	moved.Complete(common)
	if e := cl.Svc.UpdateAllConfigurer(nil, []v1.VisitorConfigurer{moved}); e != nil {
		return fx.Inconclusive("reload: %v", e)
	}
	for _, l := range squat {
		l.Close() // the ports become free: whatever the manager still wants to start can start now
	}
	squat = nil
	time.Sleep(12500 * time.Millisecond) // one retry period of the visitor manager (10 s) and a margin
	listening := func(p int) bool {
		c, e := net.DialTimeout("tcp", fmt.Sprintf("127.0.0.1:%d", p), 300*time.Millisecond)
		if e == nil {
			c.Close()
		}
		return e == nil
	}
	if listening(pRemoved) {
		return fmt.Errorf("visitor \"gone\" was removed by a reload while it had not been able to start; 12 s after its port became free it is listening on it")
	}
	if listening(pChangedOld) {
		return fmt.Errorf("visitor \"moved\" was re-configured to another port while it had not been able to start; its OLD configuration came up on the old port")
	}
	if !listening(pChangedNew) {
		return fmt.Errorf("visitor \"moved\" was re-configured to another port while it had not been able to start; the new configuration never came up")
	}
	return nil
}

func TestStaleVisitorConfig(t *testing.T) {
	if fx.Shard() != 1 || fx.Replaying() {
		return
	}
	err := staleVisitorProbe()
	if fx.IsInconclusive(err) {
		fx.Note("stale_visitor_config", "%v", err)
		return
	}
	if err != nil {
		fx.ReportViolation("C19", "stale_visitor_config", "two visitors that cannot bind at start; reload removes one and moves the other; ports freed", err)
		t.Errorf("C19/stale_visitor_config: %v", err)
		return
	}
	fx.Record("stale_visitor_config", fx.Class{NonTrivial: true, Fingerprint: "probe"}, "two visitors that cannot bind at start; reload removes one and moves the other; ports freed")
	fx.Record("stale_visitor_config", fx.Class{NonTrivial: true, Fingerprint: "probe-2"}, "deterministic history probe")
}
