package c19

import (
	"fmt"
	"testing"
	"time"

	"github.com/samber/lo"

	v1 "github.com/fatedier/frp/pkg/config/v1"

	"verifharness/fx"
)

// Deterministic probe (needs the gate hook): a reload removes a proxy while its registration is on its way out.
// The gate holds the registration message just before it is handed to the connection (a slow transport does the
// same). Whatever the interleaving, the server must not be left with a registration for a proxy that is no
// longer configured: a CloseProxy that overtakes its NewProxy is ignored by the server and the late NewProxy
// then registers the proxy for good.
func stopDuringSend() error {
	blk, err := fx.Lease()
	if err != nil {
		return fx.Inconclusive("%v", err)
	}
	defer blk.Release()
	ss, err := fx.NewScriptedServer(blk.Port(0))
	if err != nil {
		return fx.Inconclusive("%v", err)
	}
	defer ss.Close()
	defer fx.ClearGates()
	common := &v1.ClientCommonConfig{}
	common.ServerAddr, common.ServerPort = "127.0.0.1", ss.Port()
	common.Auth.Token = fx.Token
	common.LoginFailExit = lo.ToPtr(false)
	common.Transport.TCPMux = lo.ToPtr(false)
	common.Transport.TLS.Enable = lo.ToPtr(false)
	common.Log.Level = "error"
	p := &v1.TCPProxyConfig{}
	p.Name, p.Type, p.LocalIP, p.LocalPort, p.RemotePort = "pa", "tcp", "127.0.0.1", 9, blk.Port(fx.SlotAllow)
	g := fx.HoldGate("client.newproxy.send", 1, fx.KeyIs(0, "pa"))
	cl, err := fx.StartClient(common, []v1.ProxyConfigurer{p}, nil)
	if err != nil {
		return fx.Inconclusive("%v", err)
	}
	defer cl.Close()
	if !g.WaitArrived(5 * time.Second) {
		g.Release()
		return fx.Inconclusive("gate client.newproxy.send not reached (not placed?)")
	}
	// the registration of pa is on its way; meanwhile the configuration loses pa
	reloaded := make(chan error, 1)
	go func() { reloaded <- cl.Svc.UpdateAllConfigurer(nil, nil) }()
	finished := false
	select {
	case <-reloaded: // the stop did not wait for the send
		finished = true
	case <-time.After(400 * time.Millisecond): // the stop waits for the send (the wrapper's lock is held across it)
	}
	g.Release()
	if !finished {
		select {
		case <-reloaded:
		case <-time.After(5 * time.Second):
			return fmt.Errorf("reload did not finish within 5 s")
		}
	}
	time.Sleep(400 * time.Millisecond)
	if reg := ss.Registered(); len(reg) != 0 {
		var seq []string
		for _, e := range ss.Events() {
			if e.Name == "pa" {
				seq = append(seq, e.Kind)
			}
		}
		return fmt.Errorf("the configuration no longer has proxy pa, yet the server is left with a registration for %v (messages about pa in arrival order: %v): a removed proxy was not closed at the server", reg, seq)
	}
	return nil
}

func TestStopDuringSend(t *testing.T) {
	if !fx.Hooked || fx.Shard() != 0 || fx.Replaying() {
		return
	}
	err := stopDuringSend()
	if fx.IsInconclusive(err) {
		fx.Note("stop_during_send", "%v", err)
		return
	}
	if err != nil {
		fx.ReportViolation("C19", "stop_during_send", "gate client.newproxy.send held while the reload removes the proxy", err)
		t.Errorf("C19/stop_during_send: %v", err)
		return
	}
	fx.Record("stop_during_send", fx.Class{NonTrivial: true, Fingerprint: "probe"}, "gate client.newproxy.send held while the reload removes the proxy")
	fx.Record("stop_during_send", fx.Class{NonTrivial: true, Fingerprint: "probe-2"}, "deterministic schedule probe")
}
