package c19

import (
	"fmt"
	"sort"
	"testing"
	"time"

	"github.com/samber/lo"

	v1 "github.com/fatedier/frp/pkg/config/v1"

	"verifharness/fx"
)

// Deterministic probe (needs the gate hook): a configuration is loaded at the very moment a login completes - after
// the login has taken its copy of the configuration and before the new session is in place. Whatever the
// interleaving, what ends up registered must be the last loaded configuration.
func reloadAtLogin(visitorsToo bool) error {
	blk, err := fx.Lease()
	if err != nil {
		return fx.Inconclusive("%v", err)
	}
	defer blk.Release()
	ss, err := fx.NewScriptedServer(blk.Port(0))
	if err != nil {
		return fx.Inconclusive("%v", err)
	}
	defer ss.Close()
	defer fx.ClearGates()
	common := &v1.ClientCommonConfig{}
	common.ServerAddr, common.ServerPort = "127.0.0.1", ss.Port()
	common.Auth.Token = fx.Token
	common.LoginFailExit = lo.ToPtr(false)
	common.Transport.TCPMux = lo.ToPtr(false)
	common.Transport.TLS.Enable = lo.ToPtr(false)
	common.Log.Level = "error"
	mk := func(name string, slot int) v1.ProxyConfigurer {
		p := &v1.TCPProxyConfig{}
		p.Name, p.Type, p.LocalIP, p.LocalPort, p.RemotePort = name, "tcp", "127.0.0.1", 9, blk.Port(fx.SlotAllow+slot)
		return p
	}
	g := fx.HoldGate("client.login.before_run", 1, func([]string) bool { return true })
	cl, err := fx.StartClient(common, []v1.ProxyConfigurer{mk("pa", 0)}, nil)
	if err != nil {
		return fx.Inconclusive("%v", err)
	}
	defer cl.Close()
	if !g.WaitArrived(5 * time.Second) {
		g.Release()
		return fx.Inconclusive("gate client.login.before_run not reached (not placed?)")
	}
	// logged in, the session is about to start with {pa}; the operator loads {pb}
	pb := mk("pb", 1)
	pb.Complete("")
	reloaded := make(chan error, 1)
	go func() { reloaded <- cl.Svc.UpdateAllConfigurer([]v1.ProxyConfigurer{pb}, nil) }()
	select {
	case <-reloaded: // the reload did not wait for the login
	case <-time.After(300 * time.Millisecond): // the reload waits for the login to finish
	}
	g.Release()
	deadline := time.Now().Add(4 * time.Second)
	var names []string
	for {
		names = names[:0]
		for n := range ss.Registered() {
			names = append(names, n)
		}
		sort.Strings(names)
		if fmt.Sprint(names) == "[pb]" {
			return nil
		}
		if time.Now().After(deadline) {
			break
		}
		time.Sleep(20 * time.Millisecond)
	}
	return fmt.Errorf("configuration {pb} was loaded while the login that started with {pa} was completing; 4 s later the server has %v registered, want [pb]: the reload is lost", names)
}

func TestReloadAtLogin(t *testing.T) {
	if !fx.Hooked || fx.Shard() != 0 || fx.Replaying() {
		return
	}
	err := reloadAtLogin(false)
	if fx.IsInconclusive(err) {
		fx.Note("reload_at_login", "%v", err)
		return
	}
	if err != nil {
		fx.ReportViolation("C19", "reload_at_login", "gate client.login.before_run held while a configuration is loaded", err)
		t.Errorf("C19/reload_at_login: %v", err)
		return
	}
	fx.Record("reload_at_login", fx.Class{NonTrivial: true, Fingerprint: "probe"}, "gate client.login.before_run held while a configuration is loaded")
	fx.Record("reload_at_login", fx.Class{NonTrivial: true, Fingerprint: "probe-2"}, "deterministic schedule probe")
}
