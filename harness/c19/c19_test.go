// Package c19: the client keeps exactly the configured-and-healthy proxies registered.
package c19

import (
	"fmt"
	"net"
	"sort"
	"strings"
	"sync"
	"testing"
	"time"

	"github.com/samber/lo"

	v1 "github.com/fatedier/frp/pkg/config/v1"
	"github.com/fatedier/frp/pkg/msg"
	"pgregory.net/rapid"

	"verifharness/fx"
)

func TestMain(m *testing.M) { fx.Main(m, "C19") }

const (
	statusCheck  = 30 * time.Millisecond
	waitResponse = 400 * time.Millisecond
	startErrWait = 300 * time.Millisecond
)

// One entry of a configuration set: proxy name index + variant (a changed field), or absent.
type Entry struct {
	Name    int `json:"name"`
	Variant int `json:"variant"` // 0..3: remotePort / encryption + metadata / only the local port (nothing the server sees) differ
}

type Step struct {
	Kind   string  `json:"kind"` // reload | wait
	Set    []Entry `json:"set,omitempty"`
	Vis    []int   `json:"vis,omitempty"` // visitor indices configured
	WaitMs int     `json:"wait_ms,omitempty"`
}

type Case struct {
	Steps   []Step              `json:"steps"`
	Replies map[string][]string `json:"replies"` // proxy name -> reply kinds for successive registrations (then "ok" for ever)
}

var pnames = []string{"pa", "pb", "pc", "pd"}

func genSet(t *rapid.T, l string) ([]Entry, []int) {
	var set []Entry
	for i := range pnames {
		if rapid.IntRange(0, 2).Draw(t, fmt.Sprintf("%s/has%d", l, i)) > 0 {
			set = append(set, Entry{Name: i, Variant: rapid.IntRange(0, 3).Draw(t, fmt.Sprintf("%s/var%d", l, i))})
		}
	}
	// reorder and sometimes duplicate a name with identical content (duplicates of differing content have no defined meaning)
	if len(set) > 1 && rapid.Bool().Draw(t, l+"/reorder") {
		set[0], set[len(set)-1] = set[len(set)-1], set[0]
	}
	if len(set) > 0 && rapid.IntRange(0, 4).Draw(t, l+"/dup") == 0 {
		set = append(set, set[0])
	}
	var vis []int
	for i := 0; i < 2; i++ {
		if rapid.IntRange(0, 2).Draw(t, fmt.Sprintf("%s/vis%d", l, i)) == 0 {
			vis = append(vis, i)
		}
	}
	return set, vis
}

func gen(t *rapid.T) Case {
	c := Case{Replies: map[string][]string{}}
	n := rapid.IntRange(2, 7).Draw(t, "nsteps")
	for i := 0; i < n; i++ {
		if i > 0 && rapid.IntRange(0, 2).Draw(t, fmt.Sprintf("s%d/wait", i)) == 0 {
			c.Steps = append(c.Steps, Step{Kind: "wait", WaitMs: rapid.SampledFrom([]int{0, 5, 40, 150, 450}).Draw(t, fmt.Sprintf("s%d/ms", i))})
			continue
		}
		set, vis := genSet(t, fmt.Sprintf("s%d", i))
		c.Steps = append(c.Steps, Step{Kind: "reload", Set: set, Vis: vis})
	}
	for _, nme := range pnames {
		k := rapid.IntRange(0, 3).Draw(t, nme+"/nrep")
		var l []string
		for i := 0; i < k; i++ {
			l = append(l, rapid.SampledFrom([]string{"ok", "ok", "err", "late", "never"}).Draw(t, fmt.Sprintf("%s/rep%d", nme, i)))
		}
		c.Replies[nme] = l
	}
	return c
}

func mkProxy(e Entry, backendPort int) v1.ProxyConfigurer {
	p := &v1.TCPProxyConfig{}
	p.Name, p.Type = pnames[e.Name], "tcp"
	p.LocalIP, p.LocalPort = "127.0.0.1", backendPort
	p.RemotePort = 6000 + e.Name
	switch e.Variant {
	case 1:
		p.RemotePort += 100
	case 2:
		p.Transport.UseEncryption = true
		p.Metadatas = map[string]string{"k": "v"}
	case 3:
		p.LocalPort = backendPort + 1 // a change the server never sees: the entry changed all the same
	}
	return p
}

func mkVisitor(i int, port int) v1.VisitorConfigurer {
	v := &v1.STCPVisitorConfig{}
	v.Name, v.Type = fmt.Sprintf("vis%d", i), "stcp"
	v.ServerName, v.SecretKey = "target", "sk"
	v.BindAddr, v.BindPort = "127.0.0.1", port
	return v
}

var legalEdges = map[string]bool{
	"new>wait start": true, "wait start>running": true, "wait start>start error": true, "wait start>check failed": true,
	"start error>wait start": true, "running>check failed": true, "check failed>wait start": true,
}

func run(c Case) error {
	blk, err := fx.Lease()
	if err != nil {
		return fx.Inconclusive("%v", err)
	}
	defer blk.Release()
	restore := setTimings(statusCheck, waitResponse, startErrWait)
	defer restore()
	ss, err := fx.NewScriptedServer(blk.Port(0))
	if err != nil {
		return fx.Inconclusive("%v", err)
	}
	defer ss.Close()
	ss.Reply = func(name string, attempt int, _ *msg.NewProxy) (string, time.Duration) {
		l := c.Replies[name]
		k := "ok"
		if attempt-1 < len(l) {
			k = l[attempt-1]
		}
		if k == "late" {
			return k, 150 * time.Millisecond
		}
		return k, 0
	}
	// backend: counts contacts
	bl, err := net.Listen("tcp", "127.0.0.1:0")
	if err != nil {
		return fx.Inconclusive("%v", err)
	}
	defer bl.Close()
	var bmu sync.Mutex
	contacts := 0
	go func() {
		for {
			conn, e := bl.Accept()
			if e != nil {
				return
			}
			bmu.Lock()
			contacts++
			bmu.Unlock()
			go func() { defer conn.Close(); buf := make([]byte, 1024); for { n, e := conn.Read(buf); if n > 0 { _, _ = conn.Write(buf[:n]) }; if e != nil { return } } }()
		}
	}()
	bport := bl.Addr().(*net.TCPAddr).Port

	common := &v1.ClientCommonConfig{}
	common.ServerAddr, common.ServerPort = "127.0.0.1", ss.Port()
	common.Auth.Token = fx.Token
	common.LoginFailExit = lo.ToPtr(false)
	common.Transport.TCPMux = lo.ToPtr(false)
	common.Transport.TLS.Enable = lo.ToPtr(false)
	common.Transport.HeartbeatInterval = -1
	common.Log.Level = "error"

	build := func(st Step) ([]v1.ProxyConfigurer, []v1.VisitorConfigurer) {
		var ps []v1.ProxyConfigurer
		for _, e := range st.Set {
			p := mkProxy(e, bport)
			p.Complete("")
			ps = append(ps, p)
		}
		var vs []v1.VisitorConfigurer
		for _, i := range st.Vis {
			v := mkVisitor(i, blk.Port(10+i))
			v.Complete(common)
			vs = append(vs, v)
		}
		return ps, vs
	}
	var first Step
	for _, st := range c.Steps {
		if st.Kind == "reload" {
			first = st
			break
		}
	}
	ps, vs := build(first)
	cl, err := fx.StartClient(common, ps, vs)
	if err != nil {
		return fx.Inconclusive("client: %v", err)
	}
	defer cl.Close()
	// reloads before the first login only replace the stored configuration (no proxy objects exist
	// yet): the histories of this check start once the client is logged in
	for dl := time.Now().Add(5 * time.Second); time.Now().Before(dl); time.Sleep(time.Millisecond) {
		if _, ok := cl.Svc.StatusExporter().GetProxyStatus("none"); ok {
			break
		}
		logged := false
		for _, e := range ss.Events() {
			if e.Kind == "Login" {
				logged = true
			}
		}
		if logged {
			break
		}
	}
	time.Sleep(5 * time.Millisecond)
	// status poller: legal transitions only
	var smu sync.Mutex
	var illegal string
	stopPoll := make(chan struct{})
	var pwg sync.WaitGroup
	pwg.Add(1)
	go func() {
		defer pwg.Done()
		last := map[string]string{}
		lastCfg := map[string]any{}
		for {
			select {
			case <-stopPoll:
				return
			default:
			}
			for _, n := range pnames {
				st, ok := cl.Svc.StatusExporter().GetProxyStatus(n)
				if !ok {
					delete(last, n)
					continue
				}
				prev, had := last[n]
				// a new wrapper object (after a reload replaced the proxy) starts over
				if had && lastCfg[n] != st.Cfg {
					had = false
				}
				lastCfg[n] = st.Cfg
				if had && prev != st.Phase {
					edge := prev + ">" + st.Phase
					// the poller may miss intermediate phases; only edges that no legal PATH explains are reported
					if !reachable(prev, st.Phase) {
						smu.Lock()
						if illegal == "" {
							illegal = fmt.Sprintf("proxy %s went %s", n, edge)
						}
						smu.Unlock()
					}
				}
				last[n] = st.Phase
			}
			time.Sleep(500 * time.Microsecond)
		}
	}()
	defer func() { close(stopPoll); pwg.Wait() }()

	type reloadMark struct {
		at   time.Duration
		prev map[string]Entry
		next map[string]Entry
	}
	var marks []reloadMark
	cur := map[string]Entry{}
	for _, e := range first.Set {
		cur[pnames[e.Name]] = e
	}
	curVis := first.Vis
	firstDone := false
	for _, st := range c.Steps {
		switch st.Kind {
		case "wait":
			time.Sleep(time.Duration(st.WaitMs) * time.Millisecond)
		case "reload":
			if !firstDone {
				firstDone = true
				continue
			}
			ps, vs := build(st)
			next := map[string]Entry{}
			for _, e := range st.Set {
				next[pnames[e.Name]] = e
			}
			marks = append(marks, reloadMark{at: ss.Now(), prev: cur, next: next})
			if e := cl.Svc.UpdateAllConfigurer(ps, vs); e != nil {
				return fmt.Errorf("reload refused: %v", e)
			}
			cur, curVis = next, st.Vis
			// messages of this reload must have reached the server before the next reload is
			// time-stamped, otherwise effects cannot be attributed to the right reload
			time.Sleep(15 * time.Millisecond)
		}
	}
	// quiescence: long enough for every scripted refusal / silence to be retried until success
	maxRetries := 0
	for _, l := range c.Replies {
		maxRetries = max(maxRetries, len(l))
	}
	settle := time.Duration(maxRetries+1)*(waitResponse+startErrWait+150*time.Millisecond) + 600*time.Millisecond
	deadline := time.Now().Add(settle + 3*time.Second)
	var reg map[string]*msg.NewProxy
	var state map[string]string
	converged := func() bool {
		reg, state = ss.Intent()
		if len(reg) != len(cur) {
			return false
		}
		for n := range cur {
			if reg[n] == nil || state[n] != "ok" {
				return false
			}
		}
		return true
	}
	// quiescent = the server has processed everything (no new event for 600 ms: longer than a late
	// answer, the wait-response timeout and the start-error back-off) and the registrations agree
	lastN, lastChange := -1, time.Now()
	for time.Now().Before(deadline) {
		if n := len(ss.Events()); n != lastN {
			lastN, lastChange = n, time.Now()
		}
		if time.Since(lastChange) > 600*time.Millisecond && converged() {
			break
		}
		time.Sleep(10 * time.Millisecond)
	}
	converged()
	var got, want []string
	for n := range reg {
		got = append(got, n)
	}
	for n := range cur {
		want = append(want, n)
	}
	sort.Strings(got)
	sort.Strings(want)
	if fmt.Sprint(got) != fmt.Sprint(want) {
		return fmt.Errorf("after the last reload the client holds registrations %v at the server, the last configuration is %v\nevents: %s", got, want, evs(ss))
	}
	for n, e := range cur {
		wantCfg := mkProxy(e, bport)
		m := reg[n]
		if m.RemotePort != wantCfg.(*v1.TCPProxyConfig).RemotePort || m.UseEncryption != wantCfg.GetBaseConfig().Transport.UseEncryption || len(m.Metas) != len(wantCfg.GetBaseConfig().Metadatas) {
			return fmt.Errorf("proxy %s is registered with remote_port=%d enc=%v metas=%v, the last configuration says variant %d\nevents: %s", n, m.RemotePort, m.UseEncryption, m.Metas, e.Variant, evs(ss))
		}
		if state[n] != "ok" {
			// the server refused / never answered the registration in force and the client did not try again
			st, _ := cl.Svc.StatusExporter().GetProxyStatus(n)
			phase := ""
			if st != nil {
				phase = st.Phase
			}
			err := fmt.Errorf("proxy %s: the server's last word on the registration in force is %q, the client (status %q) stopped trying\nevents: %s", n, state[n], phase, evs(ss))
			if phase == "running" {
				// the client took the answer to an EARLIER registration of the same name (outstanding
				// when the reload replaced the proxy) for the answer to the new one
				if fx.Known("C19", "stale-newproxyresp") && !probeMode {
					fx.AddLabel("reload_convergence", "excluded-known-finding:stale-newproxyresp", 1)
					continue
				}
			}
			return err
		}
	}
	// Lifecycle by SEQUENCE (sound whatever the server's speed): for each name the configuration history
	// defines generations (maximal runs of consecutive sets with an identical entry). Every generation
	// that ends is stopped exactly once (one CloseProxy), an unchanged proxy is never stopped, and all
	// registrations sent between two stops carry the content of that generation.
	events := ss.Events()
	type gen struct {
		e     Entry
		ended bool
	}
	gens := map[string][]gen{}
	{
		prev := map[string]Entry{}
		first := true
		for _, st := range c.Steps {
			if st.Kind != "reload" {
				continue
			}
			next := map[string]Entry{}
			for _, e := range st.Set {
				next[pnames[e.Name]] = e
			}
			for n, pe := range prev {
				if ne, ok := next[n]; !ok || ne != pe {
					g := gens[n]
					g[len(g)-1].ended = true
				}
			}
			for n, ne := range next {
				if pe, ok := prev[n]; first || !ok || pe != ne {
					gens[n] = append(gens[n], gen{e: ne})
				}
			}
			prev, first = next, false
		}
	}
	for _, n := range pnames {
		var segs [][]*msg.NewProxy
		segs = append(segs, nil)
		closes := 0
		for _, e := range events {
			if e.Name != n {
				continue
			}
			switch e.Kind {
			case "NewProxy":
				segs[len(segs)-1] = append(segs[len(segs)-1], e.Msg.(*msg.NewProxy))
			case "CloseProxy":
				closes++
				segs = append(segs, nil)
			}
		}
		ended := 0
		for _, g := range gens[n] {
			if g.ended {
				ended++
			}
		}
		if closes != ended {
			return fmt.Errorf("proxy %s: the configuration history stops it %d times (changed or removed), the client sent %d CloseProxy: %s\nevents: %s", n, ended, closes,
				map[bool]string{true: "an unchanged proxy was restarted", false: "a changed or removed proxy was not closed at the server"}[closes > ended], evs(ss))
		}
		for gi, g := range gens[n] {
			if gi >= len(segs) {
				break
			}
			want := mkProxy(g.e, bport).(*v1.TCPProxyConfig)
			for _, m := range segs[gi] {
				if m.RemotePort != want.RemotePort || m.UseEncryption != want.Transport.UseEncryption {
					return fmt.Errorf("proxy %s, configuration generation %d (variant %d): a registration with remote_port=%d enc=%v was sent\nevents: %s", n, gi, g.e.Variant, m.RemotePort, m.UseEncryption, evs(ss))
				}
			}
		}
		if len(gens[n]) == 0 && (closes > 0 || len(segs[0]) > 0) {
			return fmt.Errorf("proxy %s was never configured but the client sent messages about it", n)
		}
	}
	_ = marks
	// start error is retried after the back-off, not sooner, and is retried
	respSeen := map[string]int{} // answers are given in order: the k-th answer for a name belongs to its k-th registration
	for i, e := range events {
		if !strings.HasPrefix(e.Kind, "Resp:") {
			continue
		}
		k := respSeen[e.Name]
		respSeen[e.Name]++
		if e.Kind != "Resp:err" {
			continue
		}
		// the refused registration is the k-th NewProxy of that name; if the proxy was stopped (CloseProxy) between
		// that registration and this answer, the generation it belonged to is over and what follows is no retry
		regIdx, seen := -1, 0
		for j, f := range events[:i] {
			if f.Name == e.Name && f.Kind == "NewProxy" {
				if seen == k {
					regIdx = j
					break
				}
				seen++
			}
		}
		stale := regIdx < 0
		for _, f := range events[max(regIdx, 0):i] {
			if f.Name == e.Name && f.Kind == "CloseProxy" {
				stale = true
			}
		}
		if stale {
			continue
		}
		// recorded finding "stale-newproxyresp": an answer to an EARLIER registration of this name that went out after
		// this registration had arrived is taken by the client for the answer to this one; its back-off clock then
		// starts at that earlier answer and the real answer is ignored - the timing below cannot be attributed
		adopted := false
		for _, r := range events[:i] { // (log order is answering order; arrival times decide)
			if r.Name == e.Name && strings.HasPrefix(r.Kind, "Resp:") && r.T > events[regIdx].T {
				adopted = true
			}
		}
		if adopted && fx.Known("C19", "stale-newproxyresp") && !probeMode {
			fx.AddLabel("reload_convergence", "excluded-known-finding:stale-newproxyresp", 1)
			continue
		}
		for _, f := range events[i+1:] {
			if f.Name != e.Name {
				continue
			}
			if f.Kind == "CloseProxy" {
				break // reconfigured meanwhile
			}
			if f.Kind == "NewProxy" {
				if f.T < e.T {
					continue // sent before the refusal went out (a resend after the response timeout): not caused by it
				}
				if d := f.T - e.T; d < startErrWait-20*time.Millisecond {
					return fmt.Errorf("proxy %s: registration refused by the server was retried after %v, the back-off is %v\nevents: %s", e.Name, d, startErrWait, evs(ss))
				}
				break
			}
		}
	}
	smu.Lock()
	ill := illegal
	smu.Unlock()
	if ill != "" {
		return fmt.Errorf("reported status made an illegal transition: %s", ill)
	}
	// visitors bound == configured visitors
	for i := 0; i < 2; i++ {
		wantBound := false
		for _, v := range curVis {
			if v == i {
				wantBound = true
			}
		}
		addr := fmt.Sprintf("127.0.0.1:%d", blk.Port(10+i))
		bound := fx.CanConnect(addr)
		if !wantBound && bound {
			return fmt.Errorf("visitor vis%d was removed from the configuration but its port still accepts connections", i)
		}
		if wantBound && !bound {
			// visitors are (re)started by a 10 s ticker: only the "removed => unbound" direction is decided quickly
			continue
		}
	}
	// a stopped proxy accepts no further work connection
	var removed string
	for _, n := range pnames {
		if _, ok := cur[n]; !ok {
			for _, e := range events {
				if e.Name == n && e.Kind == "NewProxy" {
					removed = n
				}
			}
		}
	}
	if removed != "" {
		bmu.Lock()
		before := contacts
		bmu.Unlock()
		ss.SendAll(&msg.ReqWorkConn{})
		if wc := ss.TakeWorkConn(2 * time.Second); wc != nil {
			_ = msg.WriteMsg(wc, &msg.StartWorkConn{ProxyName: removed})
			_ = wc.SetReadDeadline(time.Now().Add(2 * time.Second))
			buf := make([]byte, 16)
			_, _ = wc.Write([]byte("hello"))
			_, rerr := wc.Read(buf)
			wc.Close()
			time.Sleep(20 * time.Millisecond)
			bmu.Lock()
			after := contacts
			bmu.Unlock()
			if after != before {
				return fmt.Errorf("a work connection for the stopped proxy %s was bridged to the backend", removed)
			}
			if ne, ok := rerr.(net.Error); ok && ne.Timeout() {
				return fmt.Errorf("a work connection for the stopped proxy %s was neither served nor closed", removed)
			}
		}
	}
	return nil
}

// reachable: is there a path of legal edges from a to b (the poller samples, it may skip phases)
func reachable(a, b string) bool {
	if a == "closed" {
		return false
	}
	if b == "closed" {
		return true
	}
	seen := map[string]bool{a: true}
	q := []string{a}
	for len(q) > 0 {
		x := q[0]
		q = q[1:]
		for e := range legalEdges {
			p := strings.SplitN(e, ">", 2)
			if p[0] == x && !seen[p[1]] {
				if p[1] == b {
					return true
				}
				seen[p[1]] = true
				q = append(q, p[1])
			}
		}
	}
	return false
}

func evs(ss *fx.ScriptedServer) string {
	var out []string
	for _, e := range ss.Events() {
		if e.Kind == "Ping" {
			continue
		}
		out = append(out, fmt.Sprintf("%dms:%s:%s", e.T.Milliseconds(), e.Kind, e.Name))
	}
	if len(out) > 60 {
		out = append(out[:30], append([]string{"..."}, out[len(out)-30:]...)...)
	}
	return strings.Join(out, " ")
}

func classify(c Case) fx.Class {
	reloads, changesRunning := 0, false
	var prev map[int]int
	for _, st := range c.Steps {
		if st.Kind != "reload" {
			continue
		}
		reloads++
		cur := map[int]int{}
		for _, e := range st.Set {
			cur[e.Name] = e.Variant
		}
		if prev != nil {
			for n, v := range prev {
				if nv, ok := cur[n]; !ok || nv != v {
					changesRunning = true
				}
			}
		}
		prev = cur
	}
	hostile := false
	for _, l := range c.Replies {
		for _, k := range l {
			if k != "ok" {
				hostile = true
			}
		}
	}
	var lab []string
	if hostile {
		lab = append(lab, "hostile-replies")
	}
	return fx.Class{NonTrivial: reloads >= 2 && changesRunning, Fingerprint: fmt.Sprintf("%+v", c), Labels: lab}
}

func TestReloadConvergence(t *testing.T) {
	if !fx.Hooked {
		fx.SkipSubcheck("reload_convergence", "needs the timing setter hook")
		return
	}
	fx.Prelease(2)
	fx.Run(t, fx.Spec[Case]{Prop: "C19", Name: "reload_convergence", Journal: true, Quick: 240, Thorough: 4000, Gen: gen, Run: run, Class: classify, Retry: true, ShrinkTime: "40s"})
}

// Deterministic probe for the recorded finding "stale-newproxyresp": a registration is outstanding
// (slow server) when a reload replaces the proxy; the answer to the OLD registration is taken by the new
// proxy as its own; the server then refuses the new registration and the client never tries again.
func TestKnownStaleNewProxyResp(t *testing.T) {
	if !fx.Hooked || fx.Shard() != 0 {
		return
	}
	c := Case{Steps: []Step{{Kind: "reload", Set: []Entry{{Name: 3, Variant: 0}}}, {Kind: "wait", WaitMs: 40}, {Kind: "reload", Set: []Entry{{Name: 3, Variant: 1}}}},
		Replies: map[string][]string{"pd": {"late", "err"}}}
	probeMode = true
	err := run(c)
	probeMode = false
	fx.Record("known_stale_newproxyresp", fx.Class{NonTrivial: true, Fingerprint: "probe"}, c)
	fx.Record("known_stale_newproxyresp", fx.Class{NonTrivial: true, Fingerprint: "probe-2"}, "deterministic probe of the recorded finding")
	fx.KnownFinding(t, "C19", "reload_convergence", "stale-newproxyresp", c, err)
}

var probeMode bool
