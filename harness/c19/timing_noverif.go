//go:build !verif

package c19

import "time"

func setTimings(a, b, c time.Duration) func() { return func() {} }
