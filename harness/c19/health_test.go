package c19

import (
	"fmt"
	"net"
	"net/http"
	"strings"
	"sync"
	"testing"
	"time"

	"github.com/samber/lo"

	v1 "github.com/fatedier/frp/pkg/config/v1"
	"github.com/fatedier/frp/pkg/msg"
	"pgregory.net/rapid"

	"verifharness/fx"
)

// ---- health gating: registration follows the health verdict of the logged probe sequence ---------

type HProxy struct {
	Type      string   `json:"type"` // http | tcp
	MaxFailed int      `json:"max_failed"`
	Script    []string `json:"script"` // http: per probe ok|500|404|timeout|reset ; tcp: per second up|down
	TimeoutS  int      `json:"timeout_s,omitempty"` // http: probe timeout in seconds (0 = 1); with 3 the script may hold "slow": a 200 after 1.6 s, later than the interval, within the timeout
	LateMs    int      `json:"late_ms,omitempty"` // the server answers the first registration only after this long: the verdict may change while the answer is outstanding
}

type HCase struct {
	Proxies []HProxy `json:"proxies"`
}

func genH(t *rapid.T) HCase {
	var c HCase
	n := rapid.IntRange(2, 4).Draw(t, "n")
	for i := 0; i < n; i++ {
		p := HProxy{Type: rapid.SampledFrom([]string{"http", "http", "tcp"}).Draw(t, fmt.Sprintf("p%d/type", i)), MaxFailed: rapid.IntRange(1, 4).Draw(t, fmt.Sprintf("p%d/mf", i))}
		p.LateMs = rapid.SampledFrom([]int{0, 0, 1500, 2600}).Draw(t, fmt.Sprintf("p%d/late", i))
		k := rapid.IntRange(5, 9).Draw(t, fmt.Sprintf("p%d/len", i))
		for j := 0; j < k; j++ {
			if p.Type == "http" {
				if j == 0 && rapid.IntRange(0, 2).Draw(t, fmt.Sprintf("p%d/longtimeout", i)) == 0 {
					p.TimeoutS = 3
				}
				outcomes := []string{"ok", "ok", "ok", "500", "404", "timeout", "503"}
				if p.TimeoutS == 3 {
					outcomes = []string{"ok", "ok", "slow", "slow", "500", "404", "timeout", "503"}
				}
				p.Script = append(p.Script, rapid.SampledFrom(outcomes).Draw(t, fmt.Sprintf("p%d/s%d", i, j)))
			} else {
				p.Script = append(p.Script, rapid.SampledFrom([]string{"up", "up", "down"}).Draw(t, fmt.Sprintf("p%d/s%d", i, j)))
			}
		}
		c.Proxies = append(c.Proxies, p)
	}
	return c
}

type probe struct {
	start, end time.Duration
	ok         bool
}

func runH(c HCase) error {
	blk, err := fx.Lease()
	if err != nil {
		return fx.Inconclusive("%v", err)
	}
	defer blk.Release()
	restore := setTimings(statusCheck, waitResponse, startErrWait)
	defer restore()
	ss, err := fx.NewScriptedServer(blk.Port(0))
	if err != nil {
		return fx.Inconclusive("%v", err)
	}
	defer ss.Close()
	ss.Reply = func(name string, attempt int, _ *msg.NewProxy) (string, time.Duration) {
		var idx int
		if _, e := fmt.Sscanf(name, "h%d", &idx); e == nil && idx < len(c.Proxies) && attempt == 1 && c.Proxies[idx].LateMs > 0 {
			return "late", time.Duration(c.Proxies[idx].LateMs) * time.Millisecond
		}
		return "ok", 0
	}
	var mu sync.Mutex
	probes := make([][]probe, len(c.Proxies))
	type tcpWin struct {
		down bool
		at   time.Duration
	}
	tcpLog := make([][]tcpWin, len(c.Proxies))
	tcpAccepts := make([][]time.Duration, len(c.Proxies)) // when the harness accepted a probe connection (= an observed success)
	var closers []func()
	defer func() {
		for _, f := range closers {
			f()
		}
	}()
	var pcs []v1.ProxyConfigurer
	maxLen := 0
	for i, p := range c.Proxies {
		maxLen = max(maxLen, len(p.Script))
		port := blk.Port(20 + i)
		pc := &v1.TCPProxyConfig{}
		pc.Name, pc.Type = fmt.Sprintf("h%d", i), "tcp"
		pc.LocalIP, pc.LocalPort = "127.0.0.1", port
		pc.RemotePort = 6100 + i
		pc.HealthCheck = v1.HealthCheckConfig{Type: p.Type, TimeoutSeconds: max(1, p.TimeoutS), MaxFailed: p.MaxFailed, IntervalSeconds: 1, Path: "/health"}
		pc.Complete("")
		pcs = append(pcs, pc)
		if p.Type == "http" {
			i, p := i, p
			idx := 0
			srv := &http.Server{Handler: http.HandlerFunc(func(w http.ResponseWriter, r *http.Request) {
				mu.Lock()
				k := idx
				idx++
				mu.Unlock()
				st := ss.Now()
				out := "ok" // after the script: healthy for ever
				if k < len(p.Script) {
					out = p.Script[k]
				}
				rec := func(ok bool) {
					mu.Lock()
					probes[i] = append(probes[i], probe{st, ss.Now(), ok})
					mu.Unlock()
				}
				switch out {
				case "ok":
					rec(true)
					w.WriteHeader(200)
				case "500":
					rec(false)
					w.WriteHeader(500)
				case "404":
					rec(false)
					w.WriteHeader(404)
				case "slow":
					// later than the probe interval, well within the configured timeout: a success
					time.Sleep(1600 * time.Millisecond)
					rec(true)
					w.WriteHeader(200)
				case "timeout":
					// the client gives up after its timeout: that is when this probe counts as failed
					limit := time.Duration(max(1, p.TimeoutS)) * time.Second
					mu.Lock()
					probes[i] = append(probes[i], probe{st, st + limit, false})
					mu.Unlock()
					time.Sleep(limit + 300*time.Millisecond)
					w.WriteHeader(200)
				case "503":
					// (a connection reset is not used as an outcome: Go's HTTP client transparently
					// retries an idempotent request on a broken connection, so one probe would be logged twice)
					rec(false)
					w.WriteHeader(503)
				}
			})}
			ln, e := net.Listen("tcp", fmt.Sprintf("127.0.0.1:%d", port))
			if e != nil {
				return fx.Inconclusive("%v", e)
			}
			go func() { _ = srv.Serve(ln) }()
			closers = append(closers, func() { srv.Close() })
		} else {
			// tcp: the port is open or closed for whole seconds according to the script (time driven)
			i, p := i, p
			stop := make(chan struct{})
			closers = append(closers, func() { close(stop) })
			go func() {
				var ln net.Listener
				set := func(up bool) {
					if up && ln == nil {
						l, e := net.Listen("tcp", fmt.Sprintf("127.0.0.1:%d", port))
						if e == nil {
							ln = l
							go func() {
								for {
									cn, e := l.Accept()
									if e != nil {
										return
									}
									mu.Lock()
									tcpAccepts[i] = append(tcpAccepts[i], ss.Now())
									mu.Unlock()
									cn.Close()
								}
							}()
						}
					}
					if !up && ln != nil {
						ln.Close()
						ln = nil
					}
					mu.Lock()
					tcpLog[i] = append(tcpLog[i], tcpWin{!up, ss.Now()})
					mu.Unlock()
				}
				defer func() {
					if ln != nil {
						ln.Close()
					}
				}()
				for k := 0; ; k++ {
					up := true
					if k < len(p.Script) {
						up = p.Script[k] == "up"
					}
					set(up)
					select {
					case <-stop:
						return
					case <-time.After(time.Second):
					}
				}
			}()
		}
	}
	common := &v1.ClientCommonConfig{}
	common.ServerAddr, common.ServerPort = "127.0.0.1", ss.Port()
	common.Auth.Token = fx.Token
	common.LoginFailExit = lo.ToPtr(false)
	common.Transport.TCPMux = lo.ToPtr(false)
	common.Transport.TLS.Enable = lo.ToPtr(false)
	common.Transport.HeartbeatInterval = -1
	common.Log.Level = "error"
	cl, err := fx.StartClient(common, pcs, nil)
	if err != nil {
		return fx.Inconclusive("client: %v", err)
	}
	defer cl.Close()
	time.Sleep(time.Duration(maxLen+2)*time.Second + 1200*time.Millisecond)
	events := ss.Events()
	mu.Lock()
	defer mu.Unlock()
	const slack = 700 * time.Millisecond
	for i, p := range c.Proxies {
		name := fmt.Sprintf("h%d", i)
		var regs, closes []time.Duration
		for _, e := range events {
			if e.Name != name {
				continue
			}
			if e.Kind == "NewProxy" {
				regs = append(regs, e.T)
			}
			if e.Kind == "CloseProxy" {
				closes = append(closes, e.T)
			}
		}
		if p.Type == "http" {
			// reference verdict over the LOGGED probe sequence
			healthy := false
			fails := 0
			type change struct {
				at time.Duration
				up bool
			}
			var changes []change
			for _, pr := range probes[i] {
				if pr.ok {
					fails = 0
					if !healthy {
						healthy = true
						changes = append(changes, change{pr.end, true})
					}
				} else {
					fails++
					if healthy && fails >= p.MaxFailed {
						healthy = false
						changes = append(changes, change{pr.end, false})
					}
				}
			}
			desc := fmt.Sprintf("proxy %s (http check, maxFailed=%d, probes %s; NewProxy at %v, CloseProxy at %v)", name, p.MaxFailed, probeStr(probes[i]), ms(regs), ms(closes))
			// no registration before the first successful probe
			firstOK := time.Duration(-1)
			for _, pr := range probes[i] {
				if pr.ok {
					firstOK = pr.start
					break
				}
			}
			for _, r := range regs {
				if firstOK < 0 || r < firstOK {
					return fmt.Errorf("%s: registered before its first successful probe", desc)
				}
			}
			// every withdrawal is justified: the last maxFailed probes completed before it all failed
			for _, cl := range closes {
				var done []probe
				for _, pr := range probes[i] {
					if pr.end <= cl+20*time.Millisecond {
						done = append(done, pr)
					}
				}
				if len(done) < p.MaxFailed {
					return fmt.Errorf("%s: withdrawn at %dms after only %d probes", desc, cl.Milliseconds(), len(done))
				}
				for _, pr := range done[len(done)-p.MaxFailed:] {
					if pr.ok {
						return fmt.Errorf("%s: withdrawn at %dms although the last %d probes before it were not all failures (never fewer than maxFailed consecutive failures; a success restarts the count)", desc, cl.Milliseconds(), p.MaxFailed)
					}
				}
			}
			// every verdict change is followed by the matching message within a bound
			for _, ch := range changes {
				found := false
				list := regs
				if !ch.up {
					list = closes
				}
				for _, x := range list {
					if x >= ch.at-50*time.Millisecond && x <= ch.at+500*time.Millisecond+slack {
						found = true
					}
				}
				if !found && ch.at < ss.Now()-1500*time.Millisecond {
					what := "registered again"
					if !ch.up {
						what = "withdrawn"
					}
					return fmt.Errorf("%s: verdict changed at %dms but the proxy was not %s within %v", desc, ch.at.Milliseconds(), what, 500*time.Millisecond+slack)
				}
			}
			continue
		}
		// tcp: the port is open or closed for whole seconds; probes drift against those windows (a 1 s window can go
		// unprobed), so the oracle uses what the harness OBSERVED: every accepted connection is a successful probe.
		//  - a withdrawal comes no earlier than maxFailed probe intervals (1 s each) after the last observed success
		//  - a (re-)registration is preceded by an observed success since the start / since the last withdrawal
		desc := fmt.Sprintf("proxy %s (tcp check, maxFailed=%d, script %v; NewProxy at %v, CloseProxy at %v, probes accepted at %v)", name, p.MaxFailed, p.Script, ms(regs), ms(closes), ms(tcpAccepts[i]))
		const jitter = 350 * time.Millisecond // accept is stamped by a harness goroutine, CloseProxy / NewProxy on arrival
		for _, cl := range closes {
			var last time.Duration = -1
			for _, a := range tcpAccepts[i] {
				if a <= cl+jitter {
					last = a
				}
			}
			if last < 0 {
				continue // never healthy: covered by the registration rule below
			}
			if need := time.Duration(p.MaxFailed)*time.Second - jitter; cl-last < need {
				return fmt.Errorf("%s: withdrawn %dms after its last successful probe; %d consecutive failed probes, one per second after that success, need at least %v", desc, (cl - last).Milliseconds(), p.MaxFailed, need)
			}
		}
		for _, rg := range regs {
			var since time.Duration = 0
			for _, cl := range closes {
				if cl < rg {
					since = cl
				}
			}
			ok := false
			for _, a := range tcpAccepts[i] {
				if a >= since-jitter && a <= rg+jitter {
					ok = true
				}
			}
			// a probe that connected just before the port was closed succeeds for the client without ever being
			// accepted by the harness: if the port was open at some moment of the last probe interval, that explains it
			upWin := false
			for k, w := range tcpLog[i] {
				if w.down {
					continue
				}
				end := rg + time.Hour
				if k+1 < len(tcpLog[i]) {
					end = tcpLog[i][k+1].at
				}
				if w.at <= rg+jitter && end >= rg-1200*time.Millisecond && end >= since-jitter {
					upWin = true
				}
			}
			if !ok && upWin {
				ok = true
			}
			if !ok {
				return fmt.Errorf("%s: registered at %dms without a successful probe since %dms", desc, rg.Milliseconds(), since.Milliseconds())
			}
		}
	}
	return nil
}

func ms(l []time.Duration) []int64 {
	var out []int64
	for _, d := range l {
		out = append(out, d.Milliseconds())
	}
	return out
}

func probeStr(l []probe) string {
	var b strings.Builder
	for _, p := range l {
		if p.ok {
			b.WriteString(fmt.Sprintf("S@%d ", p.end.Milliseconds()))
		} else {
			b.WriteString(fmt.Sprintf("F@%d ", p.end.Milliseconds()))
		}
	}
	return b.String()
}

func classH(c HCase) fx.Class {
	nt := false
	for _, p := range c.Proxies {
		run := 0
		seenOK := false
		for _, s := range p.Script {
			ok := s == "ok" || s == "up"
			if ok {
				if seenOK && run > 0 && run < p.MaxFailed {
					nt = true // a failure run shorter than maxFailed followed by a success
				}
				run = 0
				seenOK = true
			} else {
				run++
			}
		}
	}
	return fx.Class{NonTrivial: nt, Fingerprint: fmt.Sprintf("%+v", c)}
}

func TestHealthGating(t *testing.T) {
	if !fx.Hooked {
		fx.SkipSubcheck("health_gating", "needs the timing setter hook")
		return
	}
	fx.Run(t, fx.Spec[HCase]{Prop: "C19", Name: "health_gating", Journal: true, Quick: 16, Thorough: 400, Gen: genH, Run: runH, Class: classH, ShrinkTime: "60s"})
}

var _ = msg.TypeLogin
