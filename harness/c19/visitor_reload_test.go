package c19

// visitor_reload: "... and its visitors to exactly the configured ones: entries that disappeared or changed are
// stopped, unchanged entries keep running without traffic interruption, new entries are started" - for stcp, sudp and
// xtcp visitors, against a real frps and a real owner, with users that are in the middle of using the visitors when
// the reload happens (tcp users holding connections, udp users that keep sending datagrams).

import (
	"fmt"
	"net"
	"sort"
	"sync"
	"testing"
	"time"

	"github.com/samber/lo"

	v1 "github.com/fatedier/frp/pkg/config/v1"
	"pgregory.net/rapid"

	"verifharness/fx"
)

type VisSpec struct {
	Kind string `json:"kind"` // stcp | sudp | xtcp
	Slot int    `json:"slot"` // bind port slot 0..3
}

type VRCase struct {
	TCPMux bool        `json:"tcpmux"`
	Steps  [][]VisSpec `json:"steps"` // step 0 = initial configuration; visitor names are "v-<kind>-<index in the step's list>"
	Flood  bool        `json:"flood"` // udp users keep sending while the reload runs
}

func genVR(t *rapid.T) VRCase {
	c := VRCase{TCPMux: rapid.Bool().Draw(t, "tcpmux"), Flood: rapid.Bool().Draw(t, "flood")}
	n := rapid.IntRange(2, 4).Draw(t, "nsteps")
	for i := 0; i < n; i++ {
		var st []VisSpec
		used := map[int]bool{}
		k := rapid.IntRange(0, 3).Draw(t, "nvis")
		for j := 0; j < k; j++ {
			v := VisSpec{Kind: rapid.SampledFrom([]string{"stcp", "sudp", "sudp", "xtcp"}).Draw(t, "kind"), Slot: rapid.IntRange(0, 3).Draw(t, "slot")}
			if used[v.Slot] {
				continue
			}
			used[v.Slot] = true
			st = append(st, v)
		}
		c.Steps = append(c.Steps, st)
	}
	return c
}

// the name carries kind and slot: an entry is "unchanged" between two steps iff the same name appears in both
func visName(v VisSpec) string { return fmt.Sprintf("v-%s-%d", v.Kind, v.Slot) }

func runVR(c VRCase) error {
	s, err := fx.StartServer(fx.WithServerTCPMux(c.TCPMux))
	if err != nil {
		return err
	}
	defer s.Close()
	// backends of the owner
	tcpBackend, err := net.Listen("tcp", "127.0.0.1:0")
	if err != nil {
		return fx.Inconclusive("%v", err)
	}
	defer tcpBackend.Close()
	go func() {
		for {
			conn, e := tcpBackend.Accept()
			if e != nil {
				return
			}
			go func() {
				defer conn.Close()
				buf := make([]byte, 4096)
				for {
					n, e := conn.Read(buf)
					if e != nil {
						return
					}
					if _, e := conn.Write(buf[:n]); e != nil {
						return
					}
				}
			}()
		}
	}()
	udpBackend, err := net.ListenUDP("udp", &net.UDPAddr{IP: net.ParseIP("127.0.0.1")})
	if err != nil {
		return fx.Inconclusive("%v", err)
	}
	defer udpBackend.Close()
	go func() {
		buf := make([]byte, 4096)
		for {
			n, a, e := udpBackend.ReadFromUDP(buf)
			if e != nil {
				return
			}
			_, _ = udpBackend.WriteToUDP(buf[:n], a)
		}
	}()
	oc := fx.BaseClientConfig(s)
	oc.Transport.TCPMux = lo.ToPtr(c.TCPMux)
	oc.User = "owner"
	ps := &v1.STCPProxyConfig{Secretkey: "sk", AllowUsers: []string{"*"}}
	ps.Name, ps.Type, ps.LocalIP, ps.LocalPort = "ps", "stcp", "127.0.0.1", tcpBackend.Addr().(*net.TCPAddr).Port
	pu := &v1.SUDPProxyConfig{Secretkey: "sk", AllowUsers: []string{"*"}}
	pu.Name, pu.Type, pu.LocalIP, pu.LocalPort = "pu", "sudp", "127.0.0.1", udpBackend.LocalAddr().(*net.UDPAddr).Port
	px := &v1.XTCPProxyConfig{Secretkey: "sk", AllowUsers: []string{"*"}}
	px.Name, px.Type, px.LocalIP, px.LocalPort = "px", "xtcp", "127.0.0.1", tcpBackend.Addr().(*net.TCPAddr).Port
	ocl, err := fx.StartClient(oc, []v1.ProxyConfigurer{ps, pu, px}, nil)
	if err != nil {
		return fx.Inconclusive("owner: %v", err)
	}
	defer ocl.Close()
	if e := ocl.WaitRunning(10*time.Second, "owner.ps", "owner.pu", "owner.px"); e != nil {
		return fx.Inconclusive("owner's proxies did not come up: %v", e)
	}
	vc := fx.BaseClientConfig(s)
	vc.Transport.TCPMux = lo.ToPtr(c.TCPMux)
	vc.User = "visitor"
	port := func(v VisSpec) int { return s.Block.Port(fx.SlotExtra + v.Slot) }
	build := func(st []VisSpec, complete bool) []v1.VisitorConfigurer {
		var out []v1.VisitorConfigurer
		for _, v := range st {
			switch v.Kind {
			case "stcp":
				x := &v1.STCPVisitorConfig{}
				x.Name, x.Type, x.ServerUser, x.ServerName, x.SecretKey, x.BindAddr, x.BindPort = visName(v), "stcp", "owner", "ps", "sk", "127.0.0.1", port(v)
				out = append(out, x)
			case "sudp":
				x := &v1.SUDPVisitorConfig{}
				x.Name, x.Type, x.ServerUser, x.ServerName, x.SecretKey, x.BindAddr, x.BindPort = visName(v), "sudp", "owner", "pu", "sk", "127.0.0.1", port(v)
				out = append(out, x)
			case "xtcp":
				x := &v1.XTCPVisitorConfig{}
				x.Name, x.Type, x.ServerUser, x.ServerName, x.SecretKey, x.BindAddr, x.BindPort = visName(v), "xtcp", "owner", "px", "sk", "127.0.0.1", port(v)
				out = append(out, x)
			}
		}
		for _, x := range out {
			if complete { // fx.StartClient completes the initial set itself; doing it twice would prefix the names twice
				x.Complete(vc)
			}
		}
		return out
	}
	vcl, err := fx.StartClient(vc, nil, build(c.Steps[0], false))
	if err != nil {
		return fx.Inconclusive("visitor client: %v", err)
	}
	defer vcl.Close()

	bound := func(v VisSpec) bool {
		if v.Kind == "sudp" {
			l, e := net.ListenUDP("udp", &net.UDPAddr{IP: net.ParseIP("127.0.0.1"), Port: port(v)})
			if e == nil {
				l.Close()
				return false
			}
			return true
		}
		return fx.CanConnect(fmt.Sprintf("127.0.0.1:%d", port(v)))
	}
	waitBound := func(v VisSpec, want bool, d time.Duration) bool {
		deadline := time.Now().Add(d)
		for time.Now().Before(deadline) {
			if bound(v) == want {
				return true
			}
			time.Sleep(20 * time.Millisecond)
		}
		return bound(v) == want
	}
	// users
	type tcpUser struct {
		v    VisSpec
		conn net.Conn
	}
	var tcpUsers []*tcpUser
	defer func() {
		for _, u := range tcpUsers {
			u.conn.Close()
		}
	}()
	echoTCP := func(conn net.Conn, tag string) error {
		_ = conn.SetDeadline(time.Now().Add(5 * time.Second))
		if _, e := conn.Write([]byte(tag + "\n")); e != nil {
			return e
		}
		got, e := fx.ReadLine(conn, 5*time.Second)
		if e != nil {
			return e
		}
		if got != tag {
			return fmt.Errorf("echo %q, want %q", got, tag)
		}
		return nil
	}
	echoUDP := func(v VisSpec, tag string) error {
		conn, e := net.DialUDP("udp", nil, &net.UDPAddr{IP: net.ParseIP("127.0.0.1"), Port: port(v)})
		if e != nil {
			return e
		}
		defer conn.Close()
		buf := make([]byte, 2048)
		for try := 0; try < 8; try++ { // datagrams may be dropped while a work connection is being set up
			_, _ = conn.Write([]byte(tag))
			_ = conn.SetReadDeadline(time.Now().Add(700 * time.Millisecond))
			n, e := conn.Read(buf)
			if e == nil && string(buf[:n]) == tag {
				return nil
			}
			if e == nil {
				continue // a late echo of the flood
			}
		}
		return fmt.Errorf("no echo of %q through the sudp visitor on port %d in 8 attempts", tag, port(v))
	}
	cur := c.Steps[0]
	for si := 0; si < len(c.Steps); si++ {
		when := fmt.Sprintf("configuration %d %v", si, lo.Map(c.Steps[si], func(v VisSpec, _ int) string { return visName(v) }))
		if si > 0 {
			next := c.Steps[si]
			stopFlood := make(chan struct{})
			var wg sync.WaitGroup
			if c.Flood {
				for _, v := range cur {
					if v.Kind != "sudp" {
						continue
					}
					conn, e := net.DialUDP("udp", nil, &net.UDPAddr{IP: net.ParseIP("127.0.0.1"), Port: port(v)})
					if e != nil {
						continue
					}
					wg.Add(1)
					go func() {
						defer wg.Done()
						defer conn.Close()
						for {
							select {
							case <-stopFlood:
								return
							default:
								_, _ = conn.Write([]byte("flood"))
							}
						}
					}()
				}
				time.Sleep(2 * time.Millisecond)
			}
			e := vcl.Svc.UpdateAllConfigurer(nil, build(next, true))
			time.Sleep(20 * time.Millisecond)
			close(stopFlood)
			wg.Wait()
			if e != nil {
				return fmt.Errorf("%s: reload refused: %v", when, e)
			}
			names := map[string]bool{}
			for _, v := range next {
				names[visName(v)] = true
			}
			// entries that disappeared are stopped: their bind port is free again
			for _, v := range cur {
				if names[visName(v)] {
					continue
				}
				slotReused := false
				for _, w := range next {
					if w.Slot == v.Slot {
						slotReused = true
					}
				}
				if slotReused {
					continue // another visitor now owns that port
				}
				if !waitBound(v, false, 3*time.Second) {
					return fmt.Errorf("%s: visitor %s was removed from the configuration but its port %d is still bound 3 s after the reload", when, visName(v), port(v))
				}
			}
			// tcp users of removed visitors are let go; users of unchanged visitors keep their connection
			var keep []*tcpUser
			for _, u := range tcpUsers {
				if names[visName(u.v)] {
					if e := echoTCP(u.conn, fmt.Sprintf("after-reload-%d", si)); e != nil {
						return fmt.Errorf("%s: the user connection through the unchanged visitor %s, open since before the reload, no longer works: %v", when, visName(u.v), e)
					}
					keep = append(keep, u)
				} else {
					u.conn.Close()
				}
			}
			tcpUsers = keep
			cur = next
		}
		// every configured visitor is (or comes) up and works; new entries are started (the manager retries every 10 s when
		// the port was still held by the visitor it replaces)
		for _, v := range cur {
			if !waitBound(v, true, 13*time.Second) {
				return fmt.Errorf("%s: visitor %s is configured but nothing listens on its port %d after 13 s", when, visName(v), port(v))
			}
			switch v.Kind {
			case "stcp":
				has := false
				for _, u := range tcpUsers {
					if u.v == v {
						has = true
					}
				}
				if !has {
					conn, e := net.DialTimeout("tcp", fmt.Sprintf("127.0.0.1:%d", port(v)), 2*time.Second)
					if e != nil {
						return fmt.Errorf("%s: stcp visitor %s: %v", when, visName(v), e)
					}
					if e := echoTCP(conn, fmt.Sprintf("hello-%d", si)); e != nil {
						conn.Close()
						return fmt.Errorf("%s: a user connection through stcp visitor %s does not reach the owner's backend: %v", when, visName(v), e)
					}
					tcpUsers = append(tcpUsers, &tcpUser{v: v, conn: conn})
				}
			case "sudp":
				if e := echoUDP(v, fmt.Sprintf("dgram-%d-%d", si, v.Slot)); e != nil {
					return fmt.Errorf("%s: %v", when, e)
				}
			}
		}
	}
	return nil
}

func classVR(c VRCase) fx.Class {
	removed, kept := 0, 0
	kinds := map[string]bool{}
	for i := 1; i < len(c.Steps); i++ {
		prev := map[string]bool{}
		for _, v := range c.Steps[i-1] {
			prev[visName(v)] = true
			kinds[v.Kind] = true
		}
		now := map[string]bool{}
		for _, v := range c.Steps[i] {
			now[visName(v)] = true
			kinds[v.Kind] = true
			if prev[visName(v)] {
				kept++
			}
		}
		for n := range prev {
			if !now[n] {
				removed++
			}
		}
	}
	var labels []string
	for k := range kinds {
		labels = append(labels, "kind="+k)
	}
	sort.Strings(labels)
	if removed > 0 {
		labels = append(labels, "visitor-removed")
	}
	if kept > 0 {
		labels = append(labels, "visitor-kept")
	}
	return fx.Class{NonTrivial: removed+kept > 0, Fingerprint: fmt.Sprintf("%+v", c), Labels: labels}
}

func TestVisitorReload(t *testing.T) {
	fx.Run(t, fx.Spec[VRCase]{Prop: "C19", Name: "visitor_reload", Journal: true, Quick: 64, Thorough: 1500, Gen: genVR, Run: runVR, Class: classVR, Retry: true, ShrinkTime: "40s"})
}
