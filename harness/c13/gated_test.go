package c13

import (
	"fmt"
	"testing"
	"time"

	"github.com/fatedier/frp/pkg/msg"
	"pgregory.net/rapid"

	"verifharness/fx"
)

// ---- gated schedule: a join held between the controller's lookup and the group's own
// lock while the last member leaves -------------------------------------------------

type GCase struct {
	GKind       string `json:"gkind"`
	Param       int    `json:"param"`        // tcp: 0 fixed port, 2 server-chosen
	SameSession bool   `json:"same_session"` // joiner and leaver share a session
	Members     int    `json:"members"`      // members before the join (all leave while the join is held)
	ThenLeave   bool   `json:"then_leave"`   // the joiner leaves afterwards
	Cycles      int    `json:"cycles"`
}

func genG(t *rapid.T) GCase {
	c := GCase{GKind: rapid.SampledFrom(gkinds).Draw(t, "gkind"), SameSession: rapid.Bool().Draw(t, "same"),
		Members: rapid.IntRange(1, 2).Draw(t, "members"), ThenLeave: rapid.Bool().Draw(t, "thenleave"), Cycles: rapid.IntRange(1, 2).Draw(t, "cycles")}
	if c.GKind == "tcp" {
		c.Param = rapid.SampledFrom([]int{0, 2}).Draw(t, "param")
	}
	return c
}

func runG(c GCase) error {
	if !fx.GatesAvailable {
		return fx.Inconclusive("no hooks")
	}
	defer fx.ClearGates()
	s, err := fx.StartServer(fx.WithVhostHTTP(), fx.WithTCPMux(false))
	if err != nil {
		return err
	}
	defer s.Close()
	a, err := fx.ConnectCommon(fx.ScriptedCommon(s), "u", "", 0, fx.KindWork("A"))
	if err != nil {
		return fmt.Errorf("login: %v", err)
	}
	defer a.Close()
	b := a
	btag := "A"
	if !c.SameSession {
		b, err = fx.ConnectCommon(fx.ScriptedCommon(s), "u", "", 0, fx.KindWork("B"))
		if err != nil {
			return fmt.Errorf("login: %v", err)
		}
		defer b.Close()
		btag = "B"
	}
	mk := func(member int) *msg.NewProxy {
		m := &msg.NewProxy{ProxyName: pname(c.GKind, 0, member), ProxyType: c.GKind, Group: "grp0", GroupKey: "key0"}
		switch c.GKind {
		case "tcp":
			if c.Param == 0 {
				m.RemotePort = s.AllowPort(0)
			}
		case "http":
			m.CustomDomains = []string{"http-g0.test"}
		default:
			m.CustomDomains = []string{"tcpmux-g0.test"}
			m.Multiplexer = "httpconnect"
		}
		return m
	}
	serve := func(port int) (string, error) {
		switch c.GKind {
		case "tcp":
			conn, e := dial(port)
			if e != nil {
				return "", fmt.Errorf("endpoint does not exist: %v", e)
			}
			defer conn.Close()
			line, e := fx.ReadLine(conn, 4*time.Second)
			if e != nil {
				return "", fmt.Errorf("connection accepted on the group's port but never served: %v", e)
			}
			return line, nil
		case "http":
			st, body, e := fx.HTTPGet(s.Addr(fx.SlotVhostHTTP), "http-g0.test", "/", nil, 4*time.Second)
			if e != nil || st != 200 {
				return "", fmt.Errorf("request answered %d (%v)", st, e)
			}
			return body, nil
		default:
			st, conn, br, e := fx.HTTPConnect(s.Addr(fx.SlotTCPMux), "tcpmux-g0.test", nil, 4*time.Second)
			if e != nil || st != 200 {
				return "", fmt.Errorf("CONNECT answered %d (%v)", st, e)
			}
			defer conn.Close()
			_ = conn.SetReadDeadline(time.Now().Add(4 * time.Second))
			line, e := br.ReadString('\n')
			if e != nil {
				return "", fmt.Errorf("CONNECT accepted but the tunnel was never served: %v", e)
			}
			return line[:len(line)-1], nil
		}
	}
	for cyc := 0; cyc < c.Cycles; cyc++ {
		for m := 0; m < c.Members; m++ {
			resp, e := a.NewProxy(mk(m), 5*time.Second)
			if e != nil || resp.Error != "" {
				return fmt.Errorf("cycle %d: member %d cannot join: %v %+v", cyc, m, e, resp)
			}
		}
		joiner := mk(3)
		gate := fx.HoldGate("group."+c.GKind+".lookup", 1, nil)
		type jr struct {
			resp *msg.NewProxyResp
			e    error
		}
		done := make(chan jr, 1)
		go func() {
			r, e := b.NewProxy(joiner, 10*time.Second)
			done <- jr{r, e}
		}()
		if !gate.WaitArrived(3 * time.Second) {
			gate.Release()
			<-done
			return fx.Inconclusive("gate group.%s.lookup not reached (not placed?)", c.GKind)
		}
		// all current members leave while the join is between lookup and mutation
		if c.SameSession {
			// the joiner's session is busy inside the held handler: the leave must come from
			// another session, so the members were registered by a (== b); use session drop instead
			gate.Release()
			r := <-done
			if r.e != nil || r.resp.Error != "" {
				return fmt.Errorf("cycle %d: plain join refused: %v %+v", cyc, r.e, r.resp)
			}
		} else {
			for m := 0; m < c.Members; m++ {
				_ = a.CloseProxy(pname(c.GKind, 0, m))
			}
			if e := a.Sync(3 * time.Second); e != nil {
				gate.Release()
				return fmt.Errorf("cycle %d: leaving session dead: %v", cyc, e)
			}
			gate.Release()
			r := <-done
			if r.e != nil {
				return fmt.Errorf("cycle %d: no answer to the join that raced the last leave: %v", cyc, r.e)
			}
			if r.resp.Error != "" {
				return fmt.Errorf("cycle %d: a join that raced the last leave was refused (%s): the group must be creatable again immediately", cyc, r.resp.Error)
			}
		}
		port := 0
		if c.GKind == "tcp" {
			port = s.AllowPort(0)
			if c.Param == 2 {
				if snap := s.Snapshot(); snap != nil && len(snap.TCPUsed) == 1 {
					port = snap.TCPUsed[0]
				} else {
					port = 0
				}
			}
		}
		if c.GKind != "tcp" || port != 0 {
			for k := 0; k < 2; k++ {
				who, e := serve(port)
				if e != nil {
					return fmt.Errorf("cycle %d: group has live member %s but: %v", cyc, joiner.ProxyName, e)
				}
				if c.SameSession {
					continue
				}
				if who != btag+":"+joiner.ProxyName {
					return fmt.Errorf("cycle %d: connection served by %q, the only live member is %s:%s", cyc, who, btag, joiner.ProxyName)
				}
			}
		}
		if c.ThenLeave || cyc < c.Cycles-1 {
			if c.SameSession {
				for m := 0; m < c.Members; m++ {
					_ = a.CloseProxy(pname(c.GKind, 0, m))
				}
			}
			_ = b.CloseProxy(joiner.ProxyName)
			if e := b.Sync(3 * time.Second); e != nil {
				return fmt.Errorf("cycle %d: session dead after the joiner left: %v", cyc, e)
			}
			if _, e := serve(port); e == nil && (c.GKind != "tcp" || port != 0) {
				return fmt.Errorf("cycle %d: every member left but the group's endpoint still serves connections", cyc)
			}
			if snap := s.Snapshot(); snap != nil {
				if len(snap.TCPGroups)+len(snap.HTTPGroups)+len(snap.TCPMuxGroups) != 0 || snap.HTTPRoutes != 0 || snap.TCPMuxRoutes != 0 || len(snap.TCPUsed) != 0 {
					return fmt.Errorf("cycle %d: every member left but the server still has groups tcp=%v http=%v tcpmux=%v routes http=%d tcpmux=%d ports=%v",
						cyc, snap.TCPGroups, snap.HTTPGroups, snap.TCPMuxGroups, snap.HTTPRoutes, snap.TCPMuxRoutes, snap.TCPUsed)
				}
			}
		} else {
			return nil
		}
	}
	return nil
}

func TestGatedJoinVsLastLeave(t *testing.T) {
	fx.Run(t, fx.Spec[GCase]{Prop: "C13", Name: "gated_join_vs_last_leave", Quick: 96, Thorough: 1200, Gen: genG, Run: runG, Journal: true,
		Class: func(c GCase) fx.Class {
			return fx.Class{NonTrivial: !c.SameSession, Fingerprint: fmt.Sprint(c), Labels: []string{"kind=" + c.GKind}}
		}})
}
