package c13

import (
	"fmt"
	"sync"
	"sync/atomic"
	"testing"
	"time"

	"github.com/fatedier/frp/pkg/msg"
	"pgregory.net/rapid"

	"verifharness/fx"
)

// ---- ungated concurrency: several sessions cycle join/leave of ONE group -------------

type STCase struct {
	GKind    string `json:"gkind"`
	Param    int    `json:"param"`
	Sessions int    `json:"sessions"`
	Iters    int    `json:"iters"`
	Users    bool   `json:"users"`
}

func genST(t *rapid.T) STCase {
	c := STCase{GKind: rapid.SampledFrom(gkinds).Draw(t, "gkind"), Sessions: rapid.IntRange(2, 4).Draw(t, "sessions"),
		Iters: rapid.IntRange(5, 40).Draw(t, "iters"), Users: rapid.Bool().Draw(t, "users")}
	if c.GKind == "tcp" {
		c.Param = rapid.SampledFrom([]int{0, 2}).Draw(t, "param")
	}
	return c
}

func runST(c STCase) error {
	s, err := fx.StartServer(fx.WithVhostHTTP(), fx.WithTCPMux(false))
	if err != nil {
		return err
	}
	defer s.Close()
	var scs []*fx.ScriptedClient
	defer func() {
		for _, sc := range scs {
			sc.Close()
		}
	}()
	for i := 0; i < c.Sessions; i++ {
		sc, e := fx.ConnectCommon(fx.ScriptedCommon(s), "u", "", 0, fx.KindWork(fmt.Sprintf("S%d", i)))
		if e != nil {
			return fmt.Errorf("login: %v", e)
		}
		scs = append(scs, sc)
	}
	mk := func(member int) *msg.NewProxy {
		m := &msg.NewProxy{ProxyName: pname(c.GKind, 0, member), ProxyType: c.GKind, Group: "grp0", GroupKey: "key0"}
		switch c.GKind {
		case "tcp":
			if c.Param == 0 {
				m.RemotePort = s.AllowPort(0)
			}
		case "http":
			m.CustomDomains = []string{"http-g0.test"}
		default:
			m.CustomDomains = []string{"tcpmux-g0.test"}
			m.Multiplexer = "httpconnect"
		}
		return m
	}
	var firstErr atomic.Value
	fail := func(e error) { firstErr.CompareAndSwap(nil, e) }
	var wg sync.WaitGroup
	stop := make(chan struct{})
	for i, sc := range scs {
		wg.Add(1)
		go func(i int, sc *fx.ScriptedClient) {
			defer wg.Done()
			for k := 0; k < c.Iters && firstErr.Load() == nil; k++ {
				resp, e := sc.NewProxy(mk(i), 8*time.Second)
				if e != nil {
					fail(fmt.Errorf("session %d iteration %d: no answer to join: %v", i, k, e))
					return
				}
				if resp.Error != "" {
					// tcp with a fixed port: the port manager probes the port by binding it, a
					// concurrent probe by another joiner can make that probe fail: tolerated
					if c.GKind == "tcp" && (resp.Error == "port unavailable" || resp.Error == "port already used") {
						continue
					}
					fail(fmt.Errorf("session %d iteration %d: join with the right key and parameters refused: %s", i, k, resp.Error))
					return
				}
				_ = sc.CloseProxy(mk(i).ProxyName)
				if e := sc.Sync(5 * time.Second); e != nil {
					fail(fmt.Errorf("session %d iteration %d: session dead after leave: %v", i, k, e))
					return
				}
			}
		}(i, sc)
	}
	var uwg sync.WaitGroup
	if c.Users && c.GKind != "tcp" {
		uwg.Add(1)
		go func() {
			defer uwg.Done()
			for {
				select {
				case <-stop:
					return
				default:
				}
				if c.GKind == "http" {
					_, _, _ = fx.HTTPGet(s.Addr(fx.SlotVhostHTTP), "http-g0.test", "/", nil, 2*time.Second)
				} else {
					st, conn, _, _ := fx.HTTPConnect(s.Addr(fx.SlotTCPMux), "tcpmux-g0.test", nil, 2*time.Second)
					if st == 200 {
						conn.Close()
					}
				}
			}
		}()
	}
	done := make(chan struct{})
	go func() {
		wg.Wait()
		close(done)
	}()
	select {
	case <-done:
	case <-time.After(120 * time.Second):
		close(stop)
		return fx.Inconclusive("stress did not finish in time")
	}
	close(stop)
	uwg.Wait()
	if e := firstErr.Load(); e != nil {
		return e.(error)
	}
	// quiesced: nothing may be left
	time.Sleep(20 * time.Millisecond)
	if snap := s.Snapshot(); snap != nil {
		if len(snap.TCPGroups)+len(snap.HTTPGroups)+len(snap.TCPMuxGroups) != 0 || snap.HTTPRoutes != 0 || snap.TCPMuxRoutes != 0 || len(snap.TCPUsed) != 0 {
			return fmt.Errorf("all members left but the server still has groups tcp=%v http=%v tcpmux=%v routes http=%d tcpmux=%d ports=%v",
				snap.TCPGroups, snap.HTTPGroups, snap.TCPMuxGroups, snap.HTTPRoutes, snap.TCPMuxRoutes, snap.TCPUsed)
		}
	}
	resp, e := scs[0].NewProxy(mk(0), 5*time.Second)
	if e != nil || resp.Error != "" {
		return fmt.Errorf("group cannot be created again after the stress: %v %+v", e, resp)
	}
	return nil
}

func TestStressJoinLeave(t *testing.T) {
	fx.Run(t, fx.Spec[STCase]{Prop: "C13", Name: "stress_join_leave", Quick: 160, Thorough: 4000, Gen: genST, Run: runST, Journal: true,
		Class: func(c STCase) fx.Class {
			return fx.Class{NonTrivial: c.Sessions >= 2, Fingerprint: fmt.Sprint(c), Labels: []string{"kind=" + c.GKind}}
		}})
}
