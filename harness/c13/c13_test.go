// Package c13: load-balancing groups — keyed membership, live members only, clean lifecycle.
package c13

import (
	"fmt"
	"net"
	"sort"
	"strings"
	"sync"
	"testing"
	"time"

	"github.com/fatedier/frp/pkg/msg"
	"pgregory.net/rapid"

	"verifharness/fx"
)

func TestMain(m *testing.M) { fx.Main(m, "C13") }

type Op struct {
	Kind   string `json:"kind"` // join leave drop login conn burst
	Slot   int    `json:"slot"`
	GKind  string `json:"gkind,omitempty"` // tcp http tcpmux
	Group  int    `json:"group,omitempty"` // 0..1
	Member int    `json:"member,omitempty"`
	Key    int    `json:"key,omitempty"`
	Param  int    `json:"param,omitempty"` // 0 = the usual endpoint, 1 = a different one, 2 = server-chosen port (tcp)
	N      int    `json:"n,omitempty"`
}

type Case struct {
	Ops []Op `json:"ops"`
}

var gkinds = []string{"tcp", "http", "tcpmux"}

func gen(t *rapid.T) Case {
	var c Case
	n := rapid.IntRange(4, 26).Draw(t, "nops")
	// focus most histories on one or two groups so that joins, refusals and last leaves interact
	focusKind := rapid.SampledFrom(gkinds).Draw(t, "focus")
	for i := 0; i < n; i++ {
		k := rapid.SampledFrom([]string{"join", "join", "join", "join", "leave", "leave", "leave", "drop", "login", "conn", "conn", "burst"}).Draw(t, "kind")
		op := Op{Kind: k, Slot: rapid.IntRange(0, 2).Draw(t, "slot")}
		op.GKind = focusKind
		if rapid.IntRange(0, 4).Draw(t, "otherkind") == 0 {
			op.GKind = rapid.SampledFrom(gkinds).Draw(t, "gkind")
		}
		op.Group = rapid.SampledFrom([]int{0, 0, 0, 1}).Draw(t, "group")
		op.Member = rapid.IntRange(0, 3).Draw(t, "member")
		switch k {
		case "join":
			op.Key = rapid.SampledFrom([]int{0, 0, 0, 0, 1}).Draw(t, "key")
			ps := []int{0, 0, 0, 0, 1}
			if op.GKind == "tcp" {
				ps = []int{0, 0, 0, 1, 2, 2}
			}
			op.Param = rapid.SampledFrom(ps).Draw(t, "param")
		case "burst":
			op.N = rapid.IntRange(2, 8).Draw(t, "n")
		}
		c.Ops = append(c.Ops, op)
	}
	return c
}

type member struct {
	slot int
}

type group struct {
	key, param int
	port       int // tcp
	members    map[string]*member
}

func mname(kind string, g, m int) string { return fmt.Sprintf("%s%d-%d", kind[:1], g, m) } // t0-1, h1-2, t… (tcpmux -> "t"? no)

func pname(kind string, g, m int) string {
	p := map[string]string{"tcp": "t", "http": "h", "tcpmux": "m"}[kind]
	return fmt.Sprintf("%sg%dm%d", p, g, m)
}

func run(c Case) error {
	s, err := fx.StartServer(fx.WithVhostHTTP(), fx.WithTCPMux(false))
	if err != nil {
		return err
	}
	defer s.Close()
	type sessT struct {
		sc  *fx.ScriptedClient
		tag string
	}
	slots := map[int]*sessT{}
	gens := map[int]int{}
	defer func() {
		for _, ss := range slots {
			ss.sc.Close()
		}
	}()
	connect := func(slot int) error {
		gens[slot]++
		tag := fmt.Sprintf("S%dG%d", slot, gens[slot])
		sc, e := fx.ConnectCommon(fx.ScriptedCommon(s), "u", "", 0, fx.KindWork(tag))
		if e != nil {
			return fmt.Errorf("login: %v", e)
		}
		slots[slot] = &sessT{sc, tag}
		return nil
	}
	for i := 0; i < 2; i++ {
		if e := connect(i); e != nil {
			return e
		}
	}
	groups := map[string]*group{} // kind/gid
	gkey := func(kind string, g int) string { return fmt.Sprintf("%s/%d", kind, g) }
	liveNames := map[string]string{} // proxy name -> group key
	domain := func(kind string, g, param int) string {
		// odd groups spell their domain with upper-case letters (host names are case-insensitive; every member of a
		// group uses the same spelling)
		if param == 1 {
			if g%2 == 1 {
				return fmt.Sprintf("Alt-%s-G%d.Test", strings.ToUpper(kind), g)
			}
			return fmt.Sprintf("alt-%s-g%d.test", kind, g)
		}
		if g%2 == 1 {
			return fmt.Sprintf("%s-G%d.Test", strings.ToUpper(kind), g)
		}
		return fmt.Sprintf("%s-g%d.test", kind, g)
	}
	tcpPort := func(g, param int) int {
		if param == 2 {
			return 0
		}
		return s.AllowPort(g*3 + param)
	}
	joinMsg := func(op Op) *msg.NewProxy {
		m := &msg.NewProxy{ProxyName: pname(op.GKind, op.Group, op.Member), ProxyType: op.GKind,
			Group: fmt.Sprintf("grp%d", op.Group), GroupKey: fmt.Sprintf("key%d", op.Key)}
		switch op.GKind {
		case "tcp":
			m.RemotePort = tcpPort(op.Group, op.Param)
		case "http":
			m.CustomDomains = []string{domain("http", op.Group, op.Param)}
		case "tcpmux":
			m.CustomDomains = []string{domain("tcpmux", op.Group, op.Param)}
			m.Multiplexer = "httpconnect"
		}
		return m
	}
	// one user connection / request to the group's endpoint; returns the serving proxy name and session tag
	hit := func(kind string, gid int, g *group, param int) (name, tag string, exists bool, err error) {
		switch kind {
		case "tcp":
			port := tcpPort(gid, param)
			if g != nil {
				port = g.port
			}
			if port == 0 {
				return "", "", false, nil
			}
			if g == nil {
				// a server-chosen port of another live group may coincide with this group's usual port
				for _, og := range groups {
					if og.port == port {
						return "", "", false, nil
					}
				}
			}
			conn, e := net.DialTimeout("tcp", fmt.Sprintf("127.0.0.1:%d", port), 2*time.Second)
			if e != nil {
				return "", "", false, nil
			}
			defer conn.Close()
			line, e := fx.ReadLine(conn, 6*time.Second)
			if e != nil {
				return "", "", true, fmt.Errorf("connection to tcp group port %d accepted but not served: %v", port, e)
			}
			p := strings.SplitN(line, ":", 2)
			if len(p) != 2 {
				return "", "", true, fmt.Errorf("odd answer %q", line)
			}
			return p[1], p[0], true, nil
		case "http":
			st, body, e := fx.HTTPGet(s.Addr(fx.SlotVhostHTTP), domain("http", gid, param), "/", nil, 6*time.Second)
			if e != nil {
				return "", "", true, fmt.Errorf("http request to group endpoint failed: %v", e)
			}
			if st == 404 {
				return "", "", false, nil
			}
			p := strings.SplitN(body, ":", 2)
			if st != 200 || len(p) != 2 {
				return "", "", true, fmt.Errorf("http request answered %d %q", st, body)
			}
			return p[1], p[0], true, nil
		default:
			st, conn, br, e := fx.HTTPConnect(s.Addr(fx.SlotTCPMux), domain("tcpmux", gid, param), nil, 6*time.Second)
			if e != nil {
				return "", "", true, fmt.Errorf("CONNECT to group endpoint failed: %v", e)
			}
			if st != 200 {
				return "", "", false, nil
			}
			defer conn.Close()
			_ = conn.SetReadDeadline(time.Now().Add(6 * time.Second))
			line, e := br.ReadString('\n')
			if e != nil {
				return "", "", true, fmt.Errorf("CONNECT accepted (200) but the tunnel was not served: %v", e)
			}
			p := strings.SplitN(strings.TrimSpace(line), ":", 2)
			if len(p) != 2 {
				return "", "", true, fmt.Errorf("odd answer %q", line)
			}
			return p[1], p[0], true, nil
		}
	}
	checkServed := func(step int, kind string, gid int, name, tag string) error {
		g := groups[gkey(kind, gid)]
		if g == nil {
			return fmt.Errorf("step %d: %s group %d has no members but its endpoint served a connection (by %s of %s)", step, kind, gid, name, tag)
		}
		m := g.members[name]
		if m == nil {
			return fmt.Errorf("step %d: connection to %s group %d handed to %q which is not a live member %v", step, kind, gid, name, keys(g.members))
		}
		if ss := slots[m.slot]; ss == nil || ss.tag != tag {
			return fmt.Errorf("step %d: member %s is owned by slot %d but session %s served it", step, name, m.slot, tag)
		}
		return nil
	}
	endpoint := func(step int, kind string, gid int) error {
		g := groups[gkey(kind, gid)]
		param := 0
		if g != nil {
			param = g.param
		}
		name, tag, exists, e := hit(kind, gid, g, param)
		if e != nil {
			if g == nil {
				return nil // no members: any failure mode is "refused"
			}
			return fmt.Errorf("step %d: %s group %d with live members %v: %v", step, kind, gid, keys(g.members), e)
		}
		if g == nil {
			if exists {
				return fmt.Errorf("step %d: %s group %d has no members but its endpoint still exists (served by %s)", step, kind, gid, name)
			}
			return nil
		}
		if !exists {
			return fmt.Errorf("step %d: %s group %d has live members %v but its endpoint does not exist", step, kind, gid, keys(g.members))
		}
		return checkServed(step, kind, gid, name, tag)
	}
	removeMember := func(name string) {
		gk, ok := liveNames[name]
		if !ok {
			return
		}
		delete(liveNames, name)
		g := groups[gk]
		delete(g.members, name)
		if len(g.members) == 0 {
			delete(groups, gk)
		}
	}

	for i, op := range c.Ops {
		ss := slots[op.Slot]
		gk := gkey(op.GKind, op.Group)
		switch op.Kind {
		case "login":
			if ss == nil {
				if e := connect(op.Slot); e != nil {
					return e
				}
			}
		case "drop":
			if ss == nil {
				continue
			}
			ss.sc.Close()
			delete(slots, op.Slot)
			for n, k := range liveNames {
				if groups[k].members[n].slot == op.Slot {
					removeMember(n)
				}
			}
			deadline := time.Now().Add(3 * time.Second)
			for time.Now().Before(deadline) {
				snap := s.Snapshot()
				if snap == nil {
					time.Sleep(150 * time.Millisecond)
					break
				}
				gone := true
				for _, id := range snap.Sessions {
					if id == ss.sc.RunID {
						gone = false
					}
				}
				if gone {
					break
				}
				time.Sleep(time.Millisecond)
			}
		case "join":
			if ss == nil {
				continue
			}
			m := joinMsg(op)
			resp, e := ss.sc.NewProxy(m, 5*time.Second)
			if e != nil {
				return fmt.Errorf("step %d: no response to join of %s: %v", i, m.ProxyName, e)
			}
			_, nameLive := liveNames[m.ProxyName]
			g := groups[gk]
			want := !nameLive && (g == nil || (g.key == op.Key && g.param == op.Param))
			if g == nil && op.GKind == "tcp" && op.Param != 2 {
				for _, og := range groups {
					if og.port == tcpPort(op.Group, op.Param) {
						want = false // another group's server-chosen port happens to be this fixed port
					}
				}
			}
			got := resp.Error == ""
			if got != want {
				return fmt.Errorf("step %d: join %s (group %s key %d param %d): accepted=%v (%q) but reference says %v (group=%+v)", i, m.ProxyName, gk, op.Key, op.Param, got, resp.Error, want, g)
			}
			if got {
				if g == nil {
					g = &group{key: op.Key, param: op.Param, members: map[string]*member{}}
					if op.GKind == "tcp" {
						var host string
						_, _ = fmt.Sscanf(resp.RemoteAddr, "%s", &host)
						_, ps, _ := net.SplitHostPort(resp.RemoteAddr)
						fmt.Sscanf(ps, "%d", &g.port)
					}
					groups[gk] = g
				} else if op.GKind == "tcp" {
					_, ps, _ := net.SplitHostPort(resp.RemoteAddr)
					var p int
					fmt.Sscanf(ps, "%d", &p)
					if p != g.port {
						return fmt.Errorf("step %d: member %s joined tcp group %s and was told port %d, the group's port is %d", i, m.ProxyName, gk, p, g.port)
					}
				}
				g.members[m.ProxyName] = &member{slot: op.Slot}
				liveNames[m.ProxyName] = gk
			}
			if e := endpoint(i, op.GKind, op.Group); e != nil {
				return fmt.Errorf("after join(accepted=%v): %v", got, e)
			}
		case "leave":
			if ss == nil {
				continue
			}
			n := pname(op.GKind, op.Group, op.Member)
			_ = ss.sc.CloseProxy(n)
			if e := ss.sc.Sync(3 * time.Second); e != nil {
				return fmt.Errorf("step %d: session dead after CloseProxy: %v", i, e)
			}
			if k, ok := liveNames[n]; ok && groups[k].members[n].slot == op.Slot {
				removeMember(n)
			}
			if e := endpoint(i, op.GKind, op.Group); e != nil {
				return fmt.Errorf("after leave: %v", e)
			}
		case "conn":
			if e := endpoint(i, op.GKind, op.Group); e != nil {
				return e
			}
		case "burst":
			g := groups[gk]
			if g == nil {
				continue
			}
			n := op.N
			if op.GKind == "http" {
				n = 3 * len(g.members)
			}
			type r struct {
				name, tag string
				ok        bool
				e         error
			}
			res := make([]r, n)
			if op.GKind == "http" {
				for k := 0; k < n; k++ { // sequential: rotation is about consecutive requests
					nm, tg, ex, e := hit(op.GKind, op.Group, g, g.param)
					res[k] = r{nm, tg, ex, e}
				}
			} else {
				var wg sync.WaitGroup
				for k := 0; k < n; k++ {
					wg.Add(1)
					go func(k int) {
						defer wg.Done()
						nm, tg, ex, e := hit(op.GKind, op.Group, g, g.param)
						res[k] = r{nm, tg, ex, e}
					}(k)
				}
				wg.Wait()
			}
			usedM := map[string]bool{}
			for _, x := range res {
				if x.e != nil || !x.ok {
					return fmt.Errorf("step %d: burst of %d to %s group %d with live members %v: a connection was lost or stranded (%v)", i, n, op.GKind, op.Group, keys(g.members), x.e)
				}
				if e := checkServed(i, op.GKind, op.Group, x.name, x.tag); e != nil {
					return e
				}
				usedM[x.name] = true
			}
			if op.GKind == "http" && len(usedM) != len(g.members) {
				return fmt.Errorf("step %d: %d consecutive http requests over %d members used only %v", i, n, len(g.members), keys2(usedM))
			}
		}
	}
	// final: every group endpoint exists iff members
	for _, kind := range gkinds {
		for gid := 0; gid < 2; gid++ {
			if e := endpoint(len(c.Ops), kind, gid); e != nil {
				return fmt.Errorf("final: %v", e)
			}
		}
	}
	// everything leaves: endpoints disappear and can be created again immediately
	for n, k := range liveNames {
		m := groups[k].members[n]
		if ss := slots[m.slot]; ss != nil {
			_ = ss.sc.CloseProxy(n)
		}
	}
	for _, ss := range slots {
		if e := ss.sc.Sync(3 * time.Second); e != nil {
			return fmt.Errorf("final: session dead: %v", e)
		}
	}
	groups = map[string]*group{}
	liveNames = map[string]string{}
	if snap := s.Snapshot(); snap != nil {
		if len(snap.TCPGroups)+len(snap.HTTPGroups)+len(snap.TCPMuxGroups) != 0 || snap.HTTPRoutes != 0 || snap.TCPMuxRoutes != 0 || len(snap.TCPUsed) != 0 {
			return fmt.Errorf("final: all members left but the server still has groups tcp=%v http=%v tcpmux=%v routes http=%d tcpmux=%d ports=%v",
				snap.TCPGroups, snap.HTTPGroups, snap.TCPMuxGroups, snap.HTTPRoutes, snap.TCPMuxRoutes, snap.TCPUsed)
		}
	}
	for _, kind := range gkinds {
		var any *sessT
		for _, ss := range slots {
			any = ss
		}
		if any == nil {
			break
		}
		resp, e := any.sc.NewProxy(joinMsg(Op{GKind: kind, Group: 0, Member: 0}), 5*time.Second)
		if e != nil || resp.Error != "" {
			return fmt.Errorf("final: %s group 0 cannot be created again right after its last member left: %v %+v", kind, e, resp)
		}
	}
	return nil
}

func keys(m map[string]*member) []string {
	var out []string
	for k := range m {
		out = append(out, k)
	}
	sort.Strings(out)
	return out
}

func keys2(m map[string]bool) []string {
	var out []string
	for k := range m {
		out = append(out, k)
	}
	sort.Strings(out)
	return out
}

func classify(c Case) fx.Class {
	type gs struct {
		key, param int
		members    map[string]int
	}
	groups := map[string]*gs{}
	sessions := map[int]bool{0: true, 1: true}
	refused, lastLeave, recreate := false, false, false
	emptied := map[string]bool{}
	var sig []string
	for _, op := range c.Ops {
		sig = append(sig, fmt.Sprintf("%s%d.%s%d.%d.k%dp%d", op.Kind[:2], op.Slot, op.GKind, op.Group, op.Member, op.Key, op.Param))
		gk := fmt.Sprint(op.GKind, op.Group)
		n := pname(op.GKind, op.Group, op.Member)
		switch op.Kind {
		case "login":
			sessions[op.Slot] = true
		case "drop":
			if sessions[op.Slot] {
				delete(sessions, op.Slot)
				for k, g := range groups {
					for m, sl := range g.members {
						if sl == op.Slot {
							delete(g.members, m)
						}
					}
					if len(g.members) == 0 {
						delete(groups, k)
						emptied[k] = true
						lastLeave = true
					}
				}
			}
		case "join":
			if !sessions[op.Slot] {
				continue
			}
			g := groups[gk]
			if g == nil {
				if emptied[gk] {
					recreate = true
				}
				groups[gk] = &gs{op.Key, op.Param, map[string]int{n: op.Slot}}
			} else if _, dup := g.members[n]; dup || g.key != op.Key || g.param != op.Param {
				refused = true
			} else {
				g.members[n] = op.Slot
			}
		case "leave":
			if g := groups[gk]; g != nil && sessions[op.Slot] {
				if sl, ok := g.members[n]; ok && sl == op.Slot {
					delete(g.members, n)
					if len(g.members) == 0 {
						delete(groups, gk)
						emptied[gk] = true
						lastLeave = true
					}
				}
			}
		}
	}
	var labels []string
	if refused {
		labels = append(labels, "refused-join")
	}
	if lastLeave {
		labels = append(labels, "last-leave")
	}
	if recreate {
		labels = append(labels, "recreate-after-empty")
	}
	return fx.Class{NonTrivial: refused && lastLeave, Fingerprint: fmt.Sprint(sig), Labels: labels}
}

func TestHistories(t *testing.T) {
	fx.Prelease(3)
	fx.Run(t, fx.Spec[Case]{Prop: "C13", Name: "histories", Quick: 1600, Thorough: 40000, Gen: gen, Run: run, Class: classify, Journal: true})
}

func dial(port int) (net.Conn, error) {
	return net.DialTimeout("tcp", fmt.Sprintf("127.0.0.1:%d", port), 2*time.Second)
}
