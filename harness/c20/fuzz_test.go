package c20

import (
	"testing"

	"verifharness/fx"
)

// Native coverage-guided fuzzing (thorough tier): the fuzz bytes drive the same generator, the oracle is unchanged.
func FuzzAnalyzerRoles(f *testing.F) {
	fx.Fuzz(f, fx.Spec[AnCase]{Prop: "C20", Name: "analyzer_roles", Gen: genAn, Run: runAn})
}
