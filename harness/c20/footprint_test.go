package c20

import (
	"fmt"
	"net"
	"sync"
	"testing"
	"time"

	v1 "github.com/fatedier/frp/pkg/config/v1"
	"github.com/fatedier/frp/pkg/msg"
	"github.com/fatedier/frp/pkg/util/util"
	"github.com/samber/lo"
	"pgregory.net/rapid"

	"verifharness/fx"
)

// ---------- sub-check 4: sessions on a real frps: created only for signed requests naming a
// live xtcp proxy, answered to exactly the two controls, removed after timeout / completion ----

type FPReq struct {
	Sign    string `json:"sign"`    // ok | bad
	Proxy   string `json:"proxy"`   // live | closed | never
	Answer  bool   `json:"answer"`  // the owner answers with NatHoleClient
	Deliver bool   `json:"deliver"` // the owner delivers the work connection that carries the sid
}

type FPCase struct {
	Reqs       []FPReq `json:"reqs"`
	CloseAfter int     `json:"close_after"` // the owner closes the xtcp proxy after this many requests (-1 = never)
	Concurrent bool    `json:"concurrent"`  // requests are sent without waiting for each other
	Linger     bool    `json:"linger"`      // wait out the 30 s post-completion linger (thorough)
	Allow      string  `json:"allow"`       // allowUsers of the xtcp proxy: "*" | "v" (the visitor's user) | "someone-else" (every request must be refused)
}

func genFP(t *rapid.T) FPCase {
	c := FPCase{CloseAfter: rapid.SampledFrom([]int{-1, -1, 0, 1, 2}).Draw(t, "closeafter"), Concurrent: rapid.Bool().Draw(t, "concurrent")}
	c.Allow = rapid.SampledFrom([]string{"*", "*", "v", "someone-else"}).Draw(t, "allow")
	n := rapid.IntRange(1, 5).Draw(t, "n")
	for i := 0; i < n; i++ {
		c.Reqs = append(c.Reqs, FPReq{Sign: rapid.SampledFrom([]string{"ok", "ok", "bad"}).Draw(t, "sign"),
			Proxy: rapid.SampledFrom([]string{"live", "live", "live", "never"}).Draw(t, "proxy"), Answer: rapid.Bool().Draw(t, "answer") && fx.Thorough(),
			Deliver: rapid.IntRange(0, 3).Draw(t, "deliver") != 0})
	}
	if rapid.IntRange(0, 2).Draw(t, "pending-shape") == 0 {
		// requests still queued behind a work connection that is never delivered when the proxy closes
		c.Concurrent = true
		c.Reqs[0] = FPReq{Sign: "ok", Proxy: "live", Deliver: false}
		k := rapid.IntRange(1, 3).Draw(t, "queued")
		for len(c.Reqs) < 1+k {
			c.Reqs = append(c.Reqs, FPReq{})
		}
		for i := 1; i <= k; i++ {
			c.Reqs[i] = FPReq{Sign: "ok", Proxy: "live", Deliver: rapid.Bool().Draw(t, "d")}
		}
		c.CloseAfter = 1 + k
		c.Reqs = c.Reqs[:1+k]
	}
	for _, r := range c.Reqs {
		if r.Answer {
			c.Linger = true
		}
	}
	return c
}

func runFP(c FPCase) error {
	s, err := fx.StartServer(fx.WithCfg(func(sc *v1.ServerConfig, b *fx.Block) { sc.UserConnTimeout = 1 }))
	if err != nil {
		return err
	}
	defer s.Close()
	var mu sync.Mutex
	deliverIdx := 0
	sids := []string{}
	var owner *fx.ScriptedClient
	owner, err = fx.ConnectCommon(fx.ScriptedCommon(s), "o", "", 0, nil)
	if err != nil {
		return fmt.Errorf("login: %v", err)
	}
	defer owner.Close()
	third, err := fx.ConnectCommon(fx.ScriptedCommon(s), "t", "", 0, nil)
	if err != nil {
		return fmt.Errorf("login: %v", err)
	}
	defer third.Close()
	vis, err := fx.ConnectCommon(fx.ScriptedCommon(s), "v", "", 0, nil)
	if err != nil {
		return fmt.Errorf("login: %v", err)
	}
	defer vis.Close()
	resp, err := owner.NewProxy(&msg.NewProxy{ProxyName: "x", ProxyType: "xtcp", Sk: "sk", AllowUsers: []string{lo.Ternary(c.Allow == "", "*", c.Allow)}}, 5*time.Second)
	if err != nil || resp.Error != "" {
		return fmt.Errorf("registration: %v %+v", err, resp)
	}
	// owner behaviour: per ReqWorkConn, deliver (or not) a work connection, read the sid, maybe answer
	stop := make(chan struct{})
	defer close(stop)
	go func() {
		handled := 0
		for {
			select {
			case <-stop:
				return
			default:
			}
			for handled < owner.ReqWorkCount() {
				mu.Lock()
				idx := deliverIdx
				deliverIdx++
				mu.Unlock()
				handled++
				var r FPReq
				if idx < len(c.Reqs) {
					r = c.Reqs[idx]
				}
				if !r.Deliver {
					continue
				}
				go func(r FPReq) {
					wc, e := owner.OpenWorkConn(owner.RunID)
					if e != nil {
						return
					}
					defer wc.Close()
					if _, e := fx.ReadStart(wc, 5*time.Second); e != nil {
						return
					}
					var sid msg.NatHoleSid
					_ = wc.SetReadDeadline(time.Now().Add(5 * time.Second))
					if e := msg.ReadMsgInto(wc, &sid); e != nil {
						return
					}
					mu.Lock()
					sids = append(sids, sid.Sid)
					mu.Unlock()
					if r.Answer {
						_ = owner.Send(&msg.NatHoleClient{TransactionID: "tc-" + sid.Sid, ProxyName: "x", Sid: sid.Sid, MappedAddrs: []string{"5.6.7.8:2000", "5.6.7.8:2000"}})
					}
				}(r)
			}
			time.Sleep(time.Millisecond)
		}
	}()
	base := s.Snapshot()
	send := func(i int, r FPReq) {
		name := "x"
		if r.Proxy == "never" {
			name = "nope"
		}
		key := util.GetAuthKey("sk", 5)
		if r.Sign == "bad" {
			key = util.GetAuthKey("other", 5)
		}
		_ = vis.Send(&msg.NatHoleVisitor{TransactionID: fmt.Sprintf("tv-%d", i), ProxyName: name, Protocol: "quic", SignKey: key, Timestamp: 5,
			MappedAddrs: []string{"1.2.3.4:1000", "1.2.3.4:1000"}})
	}
	closed := false
	for i, r := range c.Reqs {
		if c.CloseAfter == i {
			_ = owner.CloseProxy("x")
			_ = owner.Sync(3 * time.Second)
			closed = true
		}
		n0 := len(vis.NatHoleResps())
		send(i, r)
		mustRefuse := r.Sign == "bad" || r.Proxy == "never" || closed || c.Allow == "someone-else"
		if mustRefuse {
			if e := vis.WaitNatHole(n0+1, 4*time.Second); e != nil {
				return fmt.Errorf("request %d (sign %s, proxy %s, closed=%v, allowUsers=%q) must be refused with an error response: %v", i, r.Sign, r.Proxy, closed, c.Allow, e)
			}
			if rr := vis.NatHoleResps()[n0]; rr.Error == "" {
				return fmt.Errorf("request %d (sign %s, proxy %s, closed=%v, allowUsers=%q) answered without error: %+v", i, r.Sign, r.Proxy, closed, c.Allow, rr)
			}
		} else if !c.Concurrent {
			time.Sleep(30 * time.Millisecond)
		}
	}
	if c.CloseAfter >= len(c.Reqs) {
		_ = owner.CloseProxy("x")
	}
	// bounded state: all sessions vanish after the timeouts
	wait := 6 * time.Second // NatHoleTimeout 1 s + userConnTimeout 1 s per queued request + slack
	if c.Linger {
		wait = 80 * time.Second // completion + read timeout + 30 s linger
	}
	wait += time.Duration(len(c.Reqs)) * 1500 * time.Millisecond
	deadline := time.Now().Add(wait)
	for {
		snap := s.Snapshot()
		if snap == nil {
			break
		}
		if snap.NatSessions == 0 {
			break
		}
		if time.Now().After(deadline) {
			return fmt.Errorf("%d NAT-hole sessions still present %v after the last request (close_after=%d, concurrent=%v, allowUsers=%q, reqs=%+v)", snap.NatSessions, wait, c.CloseAfter, c.Concurrent, c.Allow, c.Reqs)
		}
		time.Sleep(50 * time.Millisecond)
	}
	if base != nil {
		if snap := s.Snapshot(); snap.NatClients != base.NatClients && c.CloseAfter < 0 {
			return fmt.Errorf("xtcp listener table changed: %d -> %d", base.NatClients, snap.NatClients)
		}
	}
	// responses went to exactly the two controls involved
	if n := len(third.NatHoleResps()); n != 0 {
		return fmt.Errorf("an uninvolved control received %d NAT-hole responses", n)
	}
	for _, r := range owner.NatHoleResps() {
		found := false
		mu.Lock()
		for _, sid := range sids {
			if r.Sid == sid {
				found = true
			}
		}
		mu.Unlock()
		if !found {
			return fmt.Errorf("owner received a response for a session it never answered: %+v", r)
		}
	}
	return nil
}

func TestSessionFootprint(t *testing.T) {
	fx.Prelease(2)
	fx.Run(t, fx.Spec[FPCase]{Prop: "C20", Name: "session_footprint", Journal: true, Quick: 48, Thorough: 600, Gen: genFP, Run: runFP, ShrinkTime: "40s",
		Class: func(c FPCase) fx.Class {
			return fx.Class{NonTrivial: len(c.Reqs) >= 2 || c.CloseAfter >= 0, Fingerprint: fmt.Sprintf("%+v", c), Labels: []string{fmt.Sprintf("closeafter=%d", c.CloseAfter)}}
		}})
}

var _ = net.Dial
