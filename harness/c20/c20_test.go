// Package c20: NAT hole punching — authenticated, complementary instructions, bounded state.
package c20

import (
	"context"
	"fmt"
	"net"
	"sort"
	"strconv"
	"strings"
	"sync"
	"testing"
	"time"

	"github.com/fatedier/frp/pkg/msg"
	"github.com/fatedier/frp/pkg/nathole"
	"github.com/fatedier/frp/pkg/util/util"
	"pgregory.net/rapid"

	"verifharness/fx"
)

func TestMain(m *testing.M) {
	nathole.NatHoleTimeout = 1
	fx.Main(m, "C20")
}

// ---------- independent re-implementation of the classification described in the comments ----

type feat struct {
	hard    bool
	regular bool // port-only change with 1 <= max-min <= 5
	public  bool
	diff    int
}

// parseAddr: valid = "ip:port" with a literal IP and 1 <= port <= 65535
func parseAddr(a string) (ip string, port int, ok bool) {
	h, p, err := net.SplitHostPort(a)
	if err != nil {
		return "", 0, false
	}
	n, err := strconv.Atoi(p)
	if err != nil || n < 1 || n > 65535 {
		return "", 0, false
	}
	if net.ParseIP(h) == nil {
		return "", 0, false
	}
	return h, n, true
}

func classify(mapped, assisted []string) (feat, bool) {
	var f feat
	if len(mapped) <= 1 {
		return f, false
	}
	local := map[string]bool{}
	for _, a := range assisted {
		if h, _, err := net.SplitHostPort(a); err == nil {
			local[h] = true
		}
	}
	ips, ports := map[string]bool{}, map[int]bool{}
	lo, hi := 1<<30, -1
	for _, a := range mapped {
		ip, port, ok := parseAddr(a)
		if !ok {
			return f, false
		}
		ips[ip], ports[port] = true, true
		lo, hi = min(lo, port), max(hi, port)
		if local[ip] {
			f.public = true
		}
	}
	f.hard = len(ips) > 1 || len(ports) > 1
	if len(ips) == 1 && len(ports) > 1 {
		f.diff = hi - lo
		f.regular = f.diff >= 1 && f.diff <= 5
	}
	return f, true
}

func clone(l []string) []string { return append([]string(nil), l...) }

func compact(l []string) []string {
	var out []string
	for i, s := range l {
		if i == 0 || s != l[i-1] {
			out = append(out, s)
		}
	}
	return out
}

// checkPair is the oracle over the two responses of one exchange.
func checkPair(vm *msg.NatHoleVisitor, cm *msg.NatHoleClient, vr, cr *msg.NatHoleResp) error {
	vf, vok := classify(vm.MappedAddrs, vm.AssistedAddrs)
	cf, cok := classify(cm.MappedAddrs, cm.AssistedAddrs)
	if !vok || !cok {
		for who, r := range map[string]*msg.NatHoleResp{"visitor": vr, "owner": cr} {
			if r.Error == "" {
				return fmt.Errorf("malformed or out-of-range addresses (visitor %v, owner %v): the %s got an instruction instead of an error: %+v", vm.MappedAddrs, cm.MappedAddrs, who, r.DetectBehavior)
			}
			if r.DetectBehavior.Role != "" || len(r.CandidateAddrs) > 0 {
				return fmt.Errorf("error response to the %s still carries an instruction: %+v", who, r)
			}
		}
		// each party finds its answer by the transaction id of its OWN request: an error response is a response
		if vr.TransactionID != vm.TransactionID || cr.TransactionID != cm.TransactionID {
			return fmt.Errorf("malformed addresses: error responses do not echo each party's own transaction id: visitor sent %q got %q, owner sent %q got %q (a party that cannot match the answer waits for its timeout)", vm.TransactionID, vr.TransactionID, cm.TransactionID, cr.TransactionID)
		}
		return nil
	}
	if vr.Error != "" || cr.Error != "" {
		return fmt.Errorf("well-formed observations (visitor %v, owner %v) answered with errors %q / %q", vm.MappedAddrs, cm.MappedAddrs, vr.Error, cr.Error)
	}
	if vr.Sid == "" || vr.Sid != cr.Sid {
		return fmt.Errorf("session ids differ: visitor %q owner %q", vr.Sid, cr.Sid)
	}
	if vr.TransactionID != vm.TransactionID || cr.TransactionID != cm.TransactionID {
		return fmt.Errorf("transaction ids not echoed: %q/%q vs %q/%q", vr.TransactionID, cr.TransactionID, vm.TransactionID, cm.TransactionID)
	}
	vb, cb := vr.DetectBehavior, cr.DetectBehavior
	if vb.Mode != cb.Mode {
		return fmt.Errorf("detection modes differ: visitor %d owner %d", vb.Mode, cb.Mode)
	}
	roles := []string{vb.Role, cb.Role}
	sort.Strings(roles)
	if roles[0] != "receiver" || roles[1] != "sender" {
		return fmt.Errorf("roles are not complementary: visitor %q owner %q (mode %d)", vb.Role, cb.Role, vb.Mode)
	}
	if fmt.Sprint(vr.CandidateAddrs) != fmt.Sprint(compact(cm.MappedAddrs)) || fmt.Sprint(vr.AssistedAddrs) != fmt.Sprint(compact(cm.AssistedAddrs)) {
		return fmt.Errorf("visitor did not get the owner's addresses: got %v / %v, owner reported %v / %v", vr.CandidateAddrs, vr.AssistedAddrs, cm.MappedAddrs, cm.AssistedAddrs)
	}
	if fmt.Sprint(cr.CandidateAddrs) != fmt.Sprint(compact(vm.MappedAddrs)) || fmt.Sprint(cr.AssistedAddrs) != fmt.Sprint(compact(vm.AssistedAddrs)) {
		return fmt.Errorf("owner did not get the visitor's addresses: got %v / %v, visitor reported %v / %v", cr.CandidateAddrs, cr.AssistedAddrs, vm.MappedAddrs, vm.AssistedAddrs)
	}
	for who, b := range map[string]msg.NatHoleDetectBehavior{"visitor": vb, "owner": cb} {
		for _, pr := range b.CandidatePorts {
			if pr.From < 1 || pr.To > 65535 || pr.From > pr.To {
				return fmt.Errorf("%s got candidate port range [%d,%d] (must be within 1..65535, start <= end)", who, pr.From, pr.To)
			}
		}
	}
	// "two honest peers that follow the instructions do find each other": the receiver must still be reading when the
	// sender is allowed to start (the sender's answer is held back 1 s by the server, then it waits its send delay)
	recv, send := vb, cb
	if vb.Role == "sender" {
		recv, send = cb, vb
	}
	if recv.ReadTimeoutMs <= send.SendDelayMs+1000 {
		return fmt.Errorf("mode %d: the receiver is told to read for %d ms, the sender to start after %d ms (+1 s head start): the receiver has given up before the sender begins", vb.Mode, recv.ReadTimeoutMs, send.SendDelayMs)
	}
	if vr.Protocol != vm.Protocol || cr.Protocol != vm.Protocol {
		return fmt.Errorf("protocol not the visitor's: %q/%q vs %q", vr.Protocol, cr.Protocol, vm.Protocol)
	}
	return roleRule(vb.Mode, vf, cf, vb.Role, cb.Role)
}

func roleRule(mode int, vf, cf feat, vRole, cRole string) error {
	switch mode {
	case 1: // the hard NAT sends
		if vf.hard != cf.hard {
			if (vf.hard && vRole != "sender") || (cf.hard && cRole != "sender") {
				return fmt.Errorf("mode 1: the hard NAT side must send (visitor hard=%v role %s, owner hard=%v role %s)", vf.hard, vRole, cf.hard, cRole)
			}
		}
	case 2: // the hard NAT listens
		if vf.hard != cf.hard {
			if (vf.hard && vRole != "receiver") || (cf.hard && cRole != "receiver") {
				return fmt.Errorf("mode 2: the hard NAT side must listen (visitor hard=%v role %s, owner hard=%v role %s)", vf.hard, vRole, cf.hard, cRole)
			}
		}
	case 4: // the side with regular port changes sends
		if vf.regular != cf.regular {
			if (vf.regular && vRole != "sender") || (cf.regular && cRole != "sender") {
				return fmt.Errorf("mode 4: the side with regular port changes must send (visitor regular=%v role %s, owner regular=%v role %s)", vf.regular, vRole, cf.regular, cRole)
			}
		}
	}
	return nil
}

// ---------- stub transporter ---------------------------------------------------------------

type stubTrans struct {
	mu   sync.Mutex
	msgs []msg.Message
	ch   chan struct{}
}

func newStub() *stubTrans { return &stubTrans{ch: make(chan struct{}, 64)} }
func (s *stubTrans) Send(m msg.Message) error {
	s.mu.Lock()
	s.msgs = append(s.msgs, m)
	s.mu.Unlock()
	select {
	case s.ch <- struct{}{}:
	default:
	}
	return nil
}
func (s *stubTrans) Do(context.Context, msg.Message, string, string) (msg.Message, error) {
	return nil, fmt.Errorf("not used")
}
func (s *stubTrans) Dispatch(msg.Message, string) bool                 { return false }
func (s *stubTrans) DispatchWithType(msg.Message, string, string) bool { return false }
func (s *stubTrans) resps() []*msg.NatHoleResp {
	s.mu.Lock()
	defer s.mu.Unlock()
	var out []*msg.NatHoleResp
	for _, m := range s.msgs {
		if r, ok := m.(*msg.NatHoleResp); ok {
			out = append(out, r)
		}
	}
	return out
}
func (s *stubTrans) wait(n int, d time.Duration) bool {
	deadline := time.After(d)
	for {
		if len(s.resps()) >= n {
			return true
		}
		select {
		case <-s.ch:
		case <-deadline:
			return len(s.resps()) >= n
		}
	}
}

// ---------- address list generator -------------------------------------------------------------

type Obs struct {
	Mapped   []string `json:"mapped"`
	Assisted []string `json:"assisted"`
}

var ipPool = []string{"1.2.3.4", "5.6.7.8", "9.9.9.9", "10.0.0.7", "192.168.1.5", "2001:db8::1"}

func join(ip string, port int) string { return net.JoinHostPort(ip, strconv.Itoa(port)) }

func genObs(t *rapid.T, label string, allowBad bool) Obs {
	var o Obs
	shape := rapid.SampledFrom([]string{"easy", "easy", "regular", "regular", "irregular", "ipchange", "both", "short", "bad"}).Draw(t, label+"/shape")
	if shape == "bad" && !allowBad {
		shape = "easy"
	}
	ip := rapid.SampledFrom(ipPool).Draw(t, label+"/ip")
	port := rapid.SampledFrom([]int{1, 5, 80, 1024, 30000, 65530, 65535}).Draw(t, label+"/port")
	n := rapid.IntRange(2, 5).Draw(t, label+"/n")
	switch shape {
	case "easy":
		for i := 0; i < n; i++ {
			o.Mapped = append(o.Mapped, join(ip, port))
		}
	case "regular":
		for i := 0; i < n; i++ {
			p := port + rapid.IntRange(0, 5).Draw(t, label+"/d")
			o.Mapped = append(o.Mapped, join(ip, min(p, 65535)))
		}
	case "irregular":
		for i := 0; i < n; i++ {
			o.Mapped = append(o.Mapped, join(ip, rapid.IntRange(1, 65535).Draw(t, label+"/p")))
		}
	case "ipchange":
		for i := 0; i < n; i++ {
			o.Mapped = append(o.Mapped, join(rapid.SampledFrom(ipPool).Draw(t, label+"/ip2"), port))
		}
	case "both":
		for i := 0; i < n; i++ {
			o.Mapped = append(o.Mapped, join(rapid.SampledFrom(ipPool).Draw(t, label+"/ip2"), rapid.IntRange(1, 65535).Draw(t, label+"/p")))
		}
	case "short":
		if rapid.Bool().Draw(t, label+"/one") {
			o.Mapped = []string{join(ip, port)}
		}
	case "bad":
		for i := 0; i < n; i++ {
			o.Mapped = append(o.Mapped, join(ip, port))
		}
		bad := rapid.SampledFrom([]string{"", "1.2.3.4", "1.2.3.4:", ":80", "1.2.3.4:http", "1.2.3.4:0", "1.2.3.4:-1", "1.2.3.4:65536", "1.2.3.4:70000",
			"1.2.3.4:99999999999999999999", "999.1.1.1:80", "host.example:80", "1.2.3.4:80:90", "[::1", "[::1]:80x"}).Draw(t, label+"/bad")
		o.Mapped[rapid.IntRange(0, n-1).Draw(t, label+"/pos")] = bad
	}
	na := rapid.IntRange(0, 3).Draw(t, label+"/na")
	for i := 0; i < na; i++ {
		aip := rapid.SampledFrom(append([]string{ip}, ipPool...)).Draw(t, label+"/aip")
		o.Assisted = append(o.Assisted, join(aip, rapid.IntRange(1024, 65535).Draw(t, label+"/aport")))
	}
	return o
}

// ---------- sub-check 1: one exchange through nathole.Controller ----------------------------------

type ExCase struct {
	Visitor  Obs    `json:"visitor"`
	Owner    Obs    `json:"owner"`
	Protocol string `json:"protocol"`
	Extra    string `json:"extra"` // none | dupclient | unknownreport | thirdparty
}

func genEx(t *rapid.T) ExCase {
	return ExCase{Visitor: genObs(t, "v", true), Owner: genObs(t, "c", true), Protocol: rapid.SampledFrom([]string{"quic", "kcp", ""}).Draw(t, "proto"),
		Extra: rapid.SampledFrom([]string{"none", "none", "dupclient", "unknownreport", "thirdparty"}).Draw(t, "extra")}
}

func safe(f func()) (p any) {
	defer func() { p = recover() }()
	f()
	return
}

func runEx(c ExCase) error {
	ctl, err := nathole.NewController(time.Hour)
	if err != nil {
		return fx.Inconclusive("%v", err)
	}
	sidCh, err := ctl.ListenClient("px", "sk", []string{"*"})
	if err != nil {
		return fx.Inconclusive("%v", err)
	}
	defer ctl.CloseClient("px")
	vt, ct, third := newStub(), newStub(), newStub()
	// the controller compacts the lists of the messages in place: hand it copies, keep the originals for the oracle
	vm := &msg.NatHoleVisitor{TransactionID: "tv", ProxyName: "px", Protocol: c.Protocol, Timestamp: 7, SignKey: util.GetAuthKey("sk", 7),
		MappedAddrs: clone(c.Visitor.Mapped), AssistedAddrs: clone(c.Visitor.Assisted)}
	cm := &msg.NatHoleClient{TransactionID: "tc", ProxyName: "px", MappedAddrs: clone(c.Owner.Mapped), AssistedAddrs: clone(c.Owner.Assisted)}
	vmO := &msg.NatHoleVisitor{TransactionID: "tv", Protocol: c.Protocol, MappedAddrs: c.Visitor.Mapped, AssistedAddrs: c.Visitor.Assisted}
	cmO := &msg.NatHoleClient{TransactionID: "tc", MappedAddrs: c.Owner.Mapped, AssistedAddrs: c.Owner.Assisted}
	panicCh := make(chan any, 4)
	go func() {
		if p := safe(func() { ctl.HandleVisitor(vm, vt, "u") }); p != nil {
			panicCh <- p
		}
	}()
	var sid string
	select {
	case sid = <-sidCh:
	case p := <-panicCh:
		return fmt.Errorf("HandleVisitor panicked: %v", p)
	case <-time.After(3 * time.Second):
		return fmt.Errorf("correctly signed request for a live proxy never notified the owner")
	}
	cm.Sid = sid
	if c.Extra == "unknownreport" {
		if p := safe(func() { ctl.HandleReport(&msg.NatHoleReport{Sid: "no-such-sid", Success: true}) }); p != nil {
			return fmt.Errorf("HandleReport(unknown sid) panicked: %v", p)
		}
	}
	if c.Extra == "thirdparty" {
		if p := safe(func() { ctl.HandleClient(&msg.NatHoleClient{TransactionID: "t3", ProxyName: "px", Sid: "other-sid", MappedAddrs: c.Owner.Mapped}, third) }); p != nil {
			return fmt.Errorf("HandleClient(unknown sid) panicked: %v", p)
		}
	}
	if p := safe(func() { ctl.HandleClient(cm, ct) }); p != nil {
		return fmt.Errorf("HandleClient panicked: %v", p)
	}
	if c.Extra == "dupclient" {
		if p := safe(func() { ctl.HandleClient(cm, ct) }); p != nil {
			return fmt.Errorf("duplicate HandleClient panicked: %v", p)
		}
	}
	okV, okC := vt.wait(1, 4*time.Second), ct.wait(1, 4*time.Second)
	select {
	case p := <-panicCh:
		return fmt.Errorf("HandleVisitor panicked: %v", p)
	default:
	}
	if !okV || !okC {
		return fmt.Errorf("no response to visitor (%v) / owner (%v) within 4s for observations %v / %v", okV, okC, c.Visitor.Mapped, c.Owner.Mapped)
	}
	if e := checkPair(vmO, cmO, vt.resps()[0], ct.resps()[0]); e != nil {
		return e
	}
	time.Sleep(20 * time.Millisecond)
	if n := len(vt.resps()); n != 1 {
		return fmt.Errorf("visitor got %d responses", n)
	}
	if n := len(ct.resps()); n != 1 {
		return fmt.Errorf("owner got %d responses", n)
	}
	if n := len(third.resps()); n != 0 {
		return fmt.Errorf("a third control got %d responses", n)
	}
	if p := safe(func() { ctl.HandleReport(&msg.NatHoleReport{Sid: sid, Success: true}) }); p != nil {
		return fmt.Errorf("HandleReport panicked: %v", p)
	}
	return nil
}

func classEx(c ExCase) fx.Class {
	vf, vok := classify(c.Visitor.Mapped, c.Visitor.Assisted)
	cf, cok := classify(c.Owner.Mapped, c.Owner.Assisted)
	var labels []string
	if !vok || !cok {
		labels = append(labels, "malformed")
	}
	if vf.hard || cf.hard {
		labels = append(labels, "hard-side")
	}
	return fx.Class{NonTrivial: !vok || !cok || vf.hard || cf.hard, Fingerprint: fmt.Sprintf("%+v", c), Labels: labels}
}

func TestControllerExchange(t *testing.T) {
	fx.Run(t, fx.Spec[ExCase]{Prop: "C20", Name: "controller_exchange", Journal: true, Quick: 160, Thorough: 6000, Gen: genEx, Run: runEx, Class: classEx})
}

// ---------- sub-check 2: analyzer roles under report histories -------------------------------------

type AnCase struct {
	Visitor Obs    `json:"visitor"`
	Owner   Obs    `json:"owner"`
	History []bool `json:"history"` // earlier recommendations, true = followed by a success report
}

func genAn(t *rapid.T) AnCase {
	c := AnCase{Visitor: genObs(t, "v", false), Owner: genObs(t, "c", false)}
	n := rapid.IntRange(0, 30).Draw(t, "nhist")
	for i := 0; i < n; i++ {
		c.History = append(c.History, rapid.Bool().Draw(t, "succ"))
	}
	return c
}

func toFeature(o Obs) (*nathole.NatFeature, feat, bool) {
	f, ok := classify(o.Mapped, o.Assisted)
	if !ok {
		return nil, f, false
	}
	var local []string
	for _, a := range o.Assisted {
		if h, _, err := net.SplitHostPort(a); err == nil {
			local = append(local, h)
		}
	}
	nf, err := nathole.ClassifyNATFeature(o.Mapped, local)
	if err != nil {
		return nil, f, false
	}
	return nf, f, true
}

func runAn(c AnCase) error {
	vn, vf, vok := toFeature(c.Visitor)
	cn, cf, cok := toFeature(c.Owner)
	if !vok || !cok {
		return nil // short lists: nothing to recommend
	}
	// the implementation's own classification must agree with the reference on what the role rules use
	if (vn.NatType == nathole.HardNAT) != vf.hard || vn.RegularPortsChange != vf.regular || (cn.NatType == nathole.HardNAT) != cf.hard || cn.RegularPortsChange != cf.regular {
		return fmt.Errorf("classification differs from the documented rule: visitor %+v vs %+v, owner %+v vs %+v", *vn, vf, *cn, cf)
	}
	a := nathole.NewAnalyzer(time.Hour)
	for i := 0; i <= len(c.History); i++ {
		mode, index, cb, vb := a.GetRecommandBehaviors("k", cn, vn)
		roles := []string{cb.Role, vb.Role}
		sort.Strings(roles)
		if roles[0] != "receiver" || roles[1] != "sender" {
			return fmt.Errorf("after %d earlier rounds (%v): roles not complementary: owner %q visitor %q (mode %d index %d)", i, c.History[:i], cb.Role, vb.Role, mode, index)
		}
		if e := roleRule(mode, vf, cf, vb.Role, cb.Role); e != nil {
			return fmt.Errorf("after %d earlier rounds (%v): %v", i, c.History[:i], e)
		}
		if i < len(c.History) && c.History[i] {
			a.ReportSuccess("k", mode, index)
		}
	}
	return nil
}

func classAn(c AnCase) fx.Class {
	vf, vok := classify(c.Visitor.Mapped, c.Visitor.Assisted)
	cf, cok := classify(c.Owner.Mapped, c.Owner.Assisted)
	return fx.Class{NonTrivial: vok && cok && (vf.hard || cf.hard || len(c.History) > 0),
		Fingerprint: fmt.Sprintf("%v|%v|%v|%v|%v", vf, cf, vok, cok, c.History), Labels: []string{fmt.Sprintf("vhard=%v,chard=%v", vf.hard, cf.hard)}}
}

func TestAnalyzerRoles(t *testing.T) {
	fx.Run(t, fx.Spec[AnCase]{Prop: "C20", Name: "analyzer_roles", Quick: 12000, Thorough: 400000, Gen: genAn, Run: runAn, Class: classAn})
}

// exhaustive: every feature pair x every report history up to length 7
func TestAnalyzerExhaustive(t *testing.T) {
	if fx.Shard() != 0 {
		return
	}
	shapes := map[string]Obs{
		"easy":      {Mapped: []string{"1.2.3.4:100", "1.2.3.4:100"}},
		"regular":   {Mapped: []string{"1.2.3.4:100", "1.2.3.4:103"}},
		"irregular": {Mapped: []string{"1.2.3.4:100", "1.2.3.4:900"}},
		"ipchange":  {Mapped: []string{"1.2.3.4:100", "5.6.7.8:100"}},
		"both":      {Mapped: []string{"1.2.3.4:100", "5.6.7.8:900"}},
	}
	names := []string{"easy", "regular", "irregular", "ipchange", "both"}
	n := 0
	depth := 7
	for _, vs := range names {
		for _, cs := range names {
			for _, vpub := range []bool{false, true} {
				for _, cpub := range []bool{false, true} {
					v, c := shapes[vs], shapes[cs]
					if vpub {
						v.Assisted = []string{"1.2.3.4:5"}
					}
					if cpub {
						c.Assisted = []string{"1.2.3.4:5"}
					}
					for h := 0; h < 1<<depth; h++ {
						hist := make([]bool, depth)
						for i := range hist {
							hist[i] = h>>i&1 == 1
						}
						cse := AnCase{Visitor: v, Owner: c, History: hist}
						if e := runAn(cse); e != nil {
							fx.ReportViolation("C20", "analyzer_roles", cse, e)
							t.Fatal(e)
						}
						n++
					}
					fx.Record("analyzer_exhaustive", fx.Class{NonTrivial: true, Fingerprint: fmt.Sprint(vs, cs, vpub, cpub)},
						map[string]any{"visitor": vs, "owner": cs, "visitor_public": vpub, "owner_public": cpub, "histories": 1 << depth})
				}
			}
		}
	}
	fx.AddLabel("analyzer_exhaustive", "walks", n)
}

// ---------- sub-check 3: the two instruction sets executed by MakeHole on loopback ---------------

type MHCase struct {
	VShape string `json:"vshape"`
	CShape string `json:"cshape"`
	Rounds int    `json:"rounds"` // earlier rounds (each reported successful) to move through the behaviour table
}

func genMH(t *rapid.T) MHCase {
	sh := []string{"easy", "easy", "regular", "irregular"}
	return MHCase{VShape: rapid.SampledFrom(sh).Draw(t, "v"), CShape: rapid.SampledFrom(sh).Draw(t, "c"), Rounds: rapid.IntRange(0, 4).Draw(t, "rounds")}
}

func obsFor(shape string, real *net.UDPAddr) Obs {
	a := real.String()
	switch shape {
	case "regular":
		return Obs{Mapped: []string{a, join("127.0.0.1", min(real.Port+2, 65535))}}
	case "irregular":
		return Obs{Mapped: []string{a, join("127.0.0.1", real.Port+2000)}}
	}
	return Obs{Mapped: []string{a, a}}
}

func runMH(c MHCase) error {
	// Both parties live on 127.0.0.1 here, so a party's port-range probes (aimed at the peer's IP)
	// could hit its own ephemeral sockets. The real sockets therefore use leased non-ephemeral
	// ports, far from each other and from the ephemeral range.
	blk, err := fx.Lease()
	if err != nil {
		return fx.Inconclusive("%v", err)
	}
	defer blk.Release()
	vConn, err := net.ListenUDP("udp4", &net.UDPAddr{IP: net.ParseIP("127.0.0.1"), Port: blk.Port(8)})
	if err != nil {
		return fx.Inconclusive("%v", err)
	}
	defer vConn.Close()
	cConn, err := net.ListenUDP("udp4", &net.UDPAddr{IP: net.ParseIP("127.0.0.1"), Port: blk.Port(30)})
	if err != nil {
		return fx.Inconclusive("%v", err)
	}
	defer cConn.Close()
	// a sender starts reading only after its send delay; meanwhile up to 257 probes of the peer
	// queue up in its socket: make room so that the kernel does not drop the one reply that matters
	_ = vConn.SetReadBuffer(4 << 20)
	_ = cConn.SetReadBuffer(4 << 20)
	vo, co := obsFor(c.VShape, vConn.LocalAddr().(*net.UDPAddr)), obsFor(c.CShape, cConn.LocalAddr().(*net.UDPAddr))
	ctl, _ := nathole.NewController(time.Hour)
	sidCh, err := ctl.ListenClient("px", "sk", []string{"*"})
	if err != nil {
		return fx.Inconclusive("%v", err)
	}
	defer ctl.CloseClient("px")
	var vr, cr *msg.NatHoleResp
	for round := 0; round <= c.Rounds; round++ {
		vt, ct := newStub(), newStub()
		vm := &msg.NatHoleVisitor{TransactionID: "tv", ProxyName: "px", Protocol: "quic", Timestamp: 7, SignKey: util.GetAuthKey("sk", 7), MappedAddrs: clone(vo.Mapped)}
		vmO := &msg.NatHoleVisitor{TransactionID: "tv", Protocol: "quic", MappedAddrs: vo.Mapped}
		go ctl.HandleVisitor(vm, vt, "u")
		var sid string
		select {
		case sid = <-sidCh:
		case <-time.After(3 * time.Second):
			return fmt.Errorf("owner never notified")
		}
		cm := &msg.NatHoleClient{TransactionID: "tc", ProxyName: "px", Sid: sid, MappedAddrs: clone(co.Mapped)}
		cmO := &msg.NatHoleClient{TransactionID: "tc", MappedAddrs: co.Mapped}
		ctl.HandleClient(cm, ct)
		if !vt.wait(1, 4*time.Second) || !ct.wait(1, 4*time.Second) {
			return fmt.Errorf("no responses in round %d", round)
		}
		vr, cr = vt.resps()[0], ct.resps()[0]
		if e := checkPair(vmO, cmO, vr, cr); e != nil {
			return e
		}
		if round < c.Rounds {
			ctl.HandleReport(&msg.NatHoleReport{Sid: sid, Success: true})
		}
	}
	// both peers follow their instructions
	type res struct {
		raddr *net.UDPAddr
		lconn *net.UDPConn
		err   error
	}
	ctx, cancel := context.WithTimeout(context.Background(), 60*time.Second)
	defer cancel()
	vch, cch := make(chan res, 1), make(chan res, 1)
	go func() { l, r, e := nathole.MakeHole(ctx, vConn, vr, []byte("sk")); vch <- res{r, l, e} }()
	go func() { l, r, e := nathole.MakeHole(ctx, cConn, cr, []byte("sk")); cch <- res{r, l, e} }()
	rv, rc := <-vch, <-cch
	desc := fmt.Sprintf("mode %d, visitor %s %+v, owner %s %+v", vr.DetectBehavior.Mode, vr.DetectBehavior.Role, vr.DetectBehavior, cr.DetectBehavior.Role, cr.DetectBehavior)
	if rv.err != nil || rc.err != nil {
		return fmt.Errorf("two honest peers on loopback did not find each other (visitor err %v, owner err %v): %s", rv.err, rc.err, desc)
	}
	for _, r := range []res{rv, rc} {
		if r.lconn != nil && r.lconn != vConn && r.lconn != cConn {
			defer r.lconn.Close()
		}
	}
	// each side must have found a socket of the other party. A party told to listen on many random
	// ports owns sockets the harness cannot enumerate: then only the loopback IP is checked.
	if cr.DetectBehavior.ListenRandomPorts == 0 && rv.raddr.Port != cConn.LocalAddr().(*net.UDPAddr).Port {
		return fmt.Errorf("visitor found %v, which is not the owner's socket %v: %s", rv.raddr, cConn.LocalAddr(), desc)
	}
	if vr.DetectBehavior.ListenRandomPorts == 0 && rc.raddr.Port != vConn.LocalAddr().(*net.UDPAddr).Port {
		return fmt.Errorf("owner found %v, which is not the visitor's socket %v: %s", rc.raddr, vConn.LocalAddr(), desc)
	}
	if !rv.raddr.IP.IsLoopback() || !rc.raddr.IP.IsLoopback() {
		return fmt.Errorf("found non-loopback peers %v / %v: %s", rv.raddr, rc.raddr, desc)
	}
	return nil
}

func TestMakeHoleLoopback(t *testing.T) {
	fx.Run(t, fx.Spec[MHCase]{Prop: "C20", Name: "makehole_loopback", Journal: true, Quick: 24, Thorough: 480, Gen: genMH, Run: runMH, ShrinkTime: "45s", Retry: true,
		Class: func(c MHCase) fx.Class {
			return fx.Class{NonTrivial: c.VShape != "easy" || c.CShape != "easy" || c.Rounds > 0, Fingerprint: fmt.Sprint(c), Labels: []string{c.VShape + "/" + c.CShape}}
		}})
}

var _ = strings.TrimSpace
