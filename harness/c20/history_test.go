package c20

import (
	"fmt"
	"testing"
	"time"

	"github.com/fatedier/frp/pkg/msg"
	"github.com/fatedier/frp/pkg/nathole"
	"github.com/fatedier/frp/pkg/util/util"
	"pgregory.net/rapid"

	"verifharness/fx"
)

// controller_history: the same pair of peers asks again and again without ever reporting success, so the controller
// walks through its whole list of behaviours for that pair of NAT features; every single answer pair must satisfy
// the exchange oracle (same sid and mode, complementary roles, the receiver still reading when the sender starts...).
type HistCase struct {
	Visitor Obs `json:"visitor"`
	Owner   Obs `json:"owner"`
	Rounds  int `json:"rounds"`
}

func genHist(t *rapid.T) HistCase {
	return HistCase{Visitor: genObs(t, "v", false), Owner: genObs(t, "c", false), Rounds: rapid.SampledFrom([]int{7, 9}).Draw(t, "rounds")}
}

func runHist(c HistCase) error {
	if _, ok := classify(c.Visitor.Mapped, c.Visitor.Assisted); !ok {
		return fx.Inconclusive("malformed observation")
	}
	if _, ok := classify(c.Owner.Mapped, c.Owner.Assisted); !ok {
		return fx.Inconclusive("malformed observation")
	}
	ctl, err := nathole.NewController(time.Hour)
	if err != nil {
		return fx.Inconclusive("%v", err)
	}
	sidCh, err := ctl.ListenClient("px", "sk", []string{"*"})
	if err != nil {
		return fx.Inconclusive("%v", err)
	}
	defer ctl.CloseClient("px")
	for r := 0; r < c.Rounds; r++ {
		vt, ct := newStub(), newStub()
		vm := &msg.NatHoleVisitor{TransactionID: fmt.Sprintf("tv%d", r), ProxyName: "px", Protocol: "quic", Timestamp: 7, SignKey: util.GetAuthKey("sk", 7),
			MappedAddrs: clone(c.Visitor.Mapped), AssistedAddrs: clone(c.Visitor.Assisted)}
		cm := &msg.NatHoleClient{TransactionID: fmt.Sprintf("tc%d", r), ProxyName: "px", MappedAddrs: clone(c.Owner.Mapped), AssistedAddrs: clone(c.Owner.Assisted)}
		vmO := &msg.NatHoleVisitor{TransactionID: vm.TransactionID, Protocol: "quic", MappedAddrs: c.Visitor.Mapped, AssistedAddrs: c.Visitor.Assisted}
		cmO := &msg.NatHoleClient{TransactionID: cm.TransactionID, MappedAddrs: c.Owner.Mapped, AssistedAddrs: c.Owner.Assisted}
		go func() { _ = safe(func() { ctl.HandleVisitor(vm, vt, "u") }) }()
		var sid string
		select {
		case sid = <-sidCh:
		case <-time.After(3 * time.Second):
			return fmt.Errorf("round %d: the owner was never notified", r)
		}
		cm.Sid = sid
		if p := safe(func() { ctl.HandleClient(cm, ct) }); p != nil {
			return fmt.Errorf("round %d: HandleClient panicked: %v", r, p)
		}
		if !vt.wait(1, 5*time.Second) || !ct.wait(1, 5*time.Second) {
			return fmt.Errorf("round %d: no response pair within 5 s", r)
		}
		if e := checkPair(vmO, cmO, vt.resps()[0], ct.resps()[0]); e != nil {
			return fmt.Errorf("request %d of the same pair without a success report in between: %v", r+1, e)
		}
	}
	return nil
}

func TestControllerHistory(t *testing.T) {
	fx.Run(t, fx.Spec[HistCase]{Prop: "C20", Name: "controller_history", Journal: true, Quick: 24, Thorough: 400, Gen: genHist, Run: runHist, ShrinkTime: "40s",
		Class: func(c HistCase) fx.Class { return fx.Class{NonTrivial: true, Fingerprint: fmt.Sprintf("%+v", c)} }})
}
