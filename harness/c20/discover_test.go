package c20

import (
	"fmt"
	"net"
	"testing"
	"time"

	"github.com/fatedier/frp/pkg/nathole"

	"verifharness/fx"
)

// Deterministic-enough probe: a STUN server whose answers arrive just as the 3 s response timeout of
// nathole.Discover expires (a slow server, a long path). Discover gives up and closes its socket while datagrams
// are still coming in; the process must survive that (the C01 thorough run met an unrecovered "send on closed
// channel" in the discover read loop when a stray datagram hit the socket at that moment).
func lateSTUN(burstStart, burstLen time.Duration) error {
	srv, err := net.ListenUDP("udp4", &net.UDPAddr{IP: net.ParseIP("127.0.0.1")})
	if err != nil {
		return fx.Inconclusive("%v", err)
	}
	defer srv.Close()
	go func() {
		buf := make([]byte, 2048)
		n, from, e := srv.ReadFromUDP(buf)
		if e != nil || n == 0 {
			return
		}
		t0 := time.Now()
		time.Sleep(burstStart)
		junk := []byte("not a stun message")
		if burstLen == 0 {
			// a burst of datagrams in answer to the one request (duplicated / amplified responses): more than the
			// reader's queue holds once the caller has taken the first one and left
			for k := 0; k < 64; k++ {
				_, _ = srv.WriteToUDP(junk, from)
			}
			return
		}
		for time.Since(t0) < burstStart+burstLen {
			_, _ = srv.WriteToUDP(junk, from)
			time.Sleep(20 * time.Microsecond)
		}
	}()
	done := make(chan error, 1)
	go func() {
		_, _, e := nathole.Discover([]string{srv.LocalAddr().String()}, "")
		done <- e
	}()
	select {
	case e := <-done:
		if e == nil && burstLen > 0 {
			return fmt.Errorf("Discover succeeded although the STUN server only sent junk after the timeout")
		}
	case <-time.After(10 * time.Second):
		return fmt.Errorf("Discover did not return within 10 s (response timeout is 3 s)")
	}
	if burstLen > 0 {
		time.Sleep(150 * time.Millisecond)
	} else {
		time.Sleep(2 * time.Millisecond)
	}
	return nil
}

type lateCase struct {
	StartMs int `json:"burst_start_ms"`
	LenMs   int `json:"burst_len_ms"`
}

func TestDiscoverLateResponse(t *testing.T) {
	if fx.Shard() > 3 || fx.Replaying() {
		return
	}
	c := lateCase{StartMs: 2900 + 30*fx.Shard(), LenMs: 300}
	fx.JournalCase("C20", "discover_late_response", c)
	err := lateSTUN(time.Duration(c.StartMs)*time.Millisecond, time.Duration(c.LenMs)*time.Millisecond)
	// and the burst variant, many times (each takes a millisecond)
	for k := 0; k < 300 && err == nil; k++ {
		b := lateCase{StartMs: k % 3, LenMs: 0}
		fx.JournalCase("C20", "discover_late_response", b)
		err = lateSTUN(time.Duration(b.StartMs)*time.Millisecond, 0)
	}
	if fx.IsInconclusive(err) {
		fx.Note("discover_late_response", "%v", err)
		return
	}
	if err != nil {
		fx.ReportViolation("C20", "discover_late_response", c, err)
		t.Errorf("C20/discover_late_response: %v", err)
		return
	}
	fx.Record("discover_late_response", fx.Class{NonTrivial: true, Fingerprint: fmt.Sprint(c)}, c)
}
