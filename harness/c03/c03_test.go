// Package c03: UDP tunnels preserve datagram payloads, boundaries and reply addressing.
package c03

import (
	"bytes"
	"fmt"
	"net"
	"sort"
	"sync"
	"testing"
	"time"

	"github.com/samber/lo"

	"github.com/fatedier/frp/pkg/config/types"
	v1 "github.com/fatedier/frp/pkg/config/v1"
	"pgregory.net/rapid"

	"verifharness/fx"
)

func TestMain(m *testing.M) { fx.Main(m, "C03") }

type Send struct {
	User  int    `json:"user"`
	Proxy int    `json:"proxy"`
	Len   int    `json:"len"`
	Seed  uint32 `json:"seed"`
	GapUs int    `json:"gap_us"` // pause before this datagram
}

type Case struct {
	Kind       string `json:"kind"` // udp sudp
	Enc        bool   `json:"enc"`
	Comp       bool   `json:"comp"`
	TCPMux     bool   `json:"tcpmux"`
	Limit      string `json:"limit"` // "" client server (generous rate: exercises the wrapper, not the rate)
	PacketSize int    `json:"packet_size"`
	NUsers     int    `json:"nusers"`
	NProxies   int    `json:"nproxies"`
	Sends      []Send `json:"sends"`
	CutAt      int    `json:"cut_at"` // >= 0: the current work connection is killed before send #CutAt (udp, tcpMux off)
	DownAt     int    `json:"backend_down_at"` // >= 0: backend 0 is away while send #DownAt goes out (its socket is closed, then re-opened on the same port 400 ms later)
	CutPauseMs int    `json:"cut_pause_ms"` // the script pauses this long after the cut (longer than the re-establishment window: everything after must arrive)
}

func gen(t *rapid.T) Case {
	c := Case{Kind: rapid.SampledFrom([]string{"udp", "udp", "sudp"}).Draw(t, "kind"), Enc: rapid.Bool().Draw(t, "enc"), Comp: rapid.Bool().Draw(t, "comp"),
		TCPMux: rapid.Bool().Draw(t, "tcpmux"), PacketSize: rapid.SampledFrom([]int{1500, 1500, 576, 4000}).Draw(t, "pktsize"),
		NUsers: rapid.IntRange(1, 6).Draw(t, "nusers"), NProxies: rapid.IntRange(1, 2).Draw(t, "nproxies"), CutAt: -1, DownAt: -1}
	if rapid.IntRange(0, 5).Draw(t, "limited") == 0 {
		c.Limit = rapid.SampledFrom([]string{"client", "server"}).Draw(t, "limit")
	}
	n := rapid.IntRange(1, 120).Draw(t, "nsends")
	light := rapid.IntRange(0, 3).Draw(t, "light") != 0 // most scripts are light load (gap >= 1 ms): there nothing may be lost
	ps := c.PacketSize
	lens := []int{0, 1, 2, 3, 4, 16, 511, 512, 513, 575, 576, 1399, 1400, 1401, 1471, 1472, 1473, ps - 1, ps, ps / 2}
	for i := 0; i < n; i++ {
		l := fmt.Sprintf("s%d", i)
		s := Send{User: rapid.IntRange(0, c.NUsers-1).Draw(t, l+"/user"), Proxy: rapid.IntRange(0, c.NProxies-1).Draw(t, l+"/proxy"),
			Seed: rapid.Uint32().Draw(t, l+"/seed")}
		if rapid.Bool().Draw(t, l+"/cls") {
			s.Len = rapid.SampledFrom(lens).Draw(t, l+"/len")
		} else {
			s.Len = rapid.IntRange(0, ps).Draw(t, l+"/len")
		}
		if s.Len > ps {
			s.Len = ps
		}
		if light {
			s.GapUs = rapid.IntRange(1000, 4000).Draw(t, l+"/gap")
		} else {
			s.GapUs = rapid.SampledFrom([]int{0, 0, 0, 100, 1000}).Draw(t, l+"/gap")
		}
		c.Sends = append(c.Sends, s)
	}
	if !c.TCPMux && n >= 4 && rapid.IntRange(0, 3).Draw(t, "fault") == 0 {
		// udp: the server's work connection is cut; sudp: the owner's work connections are cut, which makes the visitor reconnect
		c.CutAt = rapid.IntRange(1, n-1).Draw(t, "cutat")
		c.CutPauseMs = rapid.SampledFrom([]int{0, 1800}).Draw(t, "cutpause")
	} else if n >= 6 && rapid.IntRange(0, 4).Draw(t, "downfault") == 0 {
		c.DownAt = rapid.IntRange(1, n-3).Draw(t, "downat")
	}
	return c
}

// payload: byte 0 = proxy<<4 | user, bytes 1..2 = index of the send, rest pseudo-random
func payload(i int, s Send) []byte {
	b := make([]byte, s.Len)
	x := uint64(s.Seed)*2654435761 + 12345
	for k := range b {
		x = x*6364136223846793005 + 1442695040888963407
		b[k] = byte(x >> 33)
	}
	if s.Len >= 1 {
		b[0] = byte(s.Proxy<<4 | s.User)
	}
	if s.Len >= 3 {
		b[1], b[2] = byte(i>>8), byte(i)
	}
	return b
}

// the backend answers every datagram with its bytes complemented (same length); byte 0 additionally
// carries the backend's own index in bit 7 so a reply from the wrong backend is visible
func transform(p []byte, backend int) []byte {
	r := make([]byte, len(p))
	for i := range p {
		r[i] = ^p[i]
	}
	if len(r) >= 1 && backend == 1 {
		r[0] ^= 0x80
	}
	return r
}

type got struct {
	b    []byte
	from string
	at   time.Time
}

type sink struct {
	mu   sync.Mutex
	list []got
}

func (s *sink) add(b []byte, from string) {
	s.mu.Lock()
	s.list = append(s.list, got{b: append([]byte(nil), b...), from: from, at: time.Now()})
	s.mu.Unlock()
}
func (s *sink) n() int { s.mu.Lock(); defer s.mu.Unlock(); return len(s.list) }
func (s *sink) snapshot() []got {
	s.mu.Lock()
	defer s.mu.Unlock()
	return append([]got(nil), s.list...)
}

func serveBackend(pi int, bc *net.UDPConn, log *sink) {
	buf := make([]byte, 65536)
	for {
		n, from, e := bc.ReadFromUDP(buf)
		if e != nil {
			return
		}
		log.add(buf[:n], from.String())
		_, _ = bc.WriteToUDP(transform(buf[:n], pi), from)
	}
}

func limitLightLoad(c Case) bool {
	for _, s := range c.Sends {
		if s.GapUs < 1000 {
			return false
		}
	}
	return true
}

func brief(c Case) string {
	return fmt.Sprintf("[kind=%s enc=%v comp=%v tcpMux=%v limit=%q packetSize=%d users=%d proxies=%d sends=%d cutAt=%d cutPause=%dms backendDownAt=%d]", c.Kind, c.Enc, c.Comp, c.TCPMux, c.Limit, c.PacketSize, c.NUsers, c.NProxies, len(c.Sends), c.CutAt, c.CutPauseMs, c.DownAt)
}

func run(c Case) error {
	s, err := fx.StartServer(fx.WithServerTCPMux(c.TCPMux), fx.WithCfg(func(sc *v1.ServerConfig, b *fx.Block) { sc.UDPPacketSize = int64(c.PacketSize) }))
	if err != nil {
		return err
	}
	defer s.Close()

	// ---- backends
	backends := make([]*net.UDPConn, c.NProxies)
	blog := make([]*sink, c.NProxies)
	for pi := range backends {
		bc, e := net.ListenUDP("udp", &net.UDPAddr{IP: net.ParseIP("127.0.0.1")})
		if e != nil {
			return fx.Inconclusive("%v", e)
		}
		_ = bc.SetReadBuffer(8 << 20)
		backends[pi], blog[pi] = bc, &sink{}
		go serveBackend(pi, bc, blog[pi])
	}
	defer func() {
		for _, b := range backends {
			b.Close()
		}
	}()

	// ---- frpc (owner), through a relay when the script kills the work connection
	common := fx.BaseClientConfig(s)
	common.Transport.TCPMux = lo.ToPtr(c.TCPMux)
	common.UDPPacketSize = int64(c.PacketSize)
	common.User = "owner"
	var relay *fx.Relay
	if c.CutAt >= 0 {
		r, e := fx.NewRelay(s.Block.Port(fx.SlotExtra+6), s.BindAddr(), "")
		if e != nil {
			return fx.Inconclusive("relay: %v", e)
		}
		relay = r
		defer relay.Close()
		common.ServerPort = relay.Port
	}
	var pcs []v1.ProxyConfigurer
	var names []string
	for pi := 0; pi < c.NProxies; pi++ {
		name := fmt.Sprintf("u%d", pi)
		bport := backends[pi].LocalAddr().(*net.UDPAddr).Port
		var base *v1.ProxyBaseConfig
		if c.Kind == "udp" {
			p := &v1.UDPProxyConfig{RemotePort: s.AllowPort(pi)}
			base = &p.ProxyBaseConfig
			base.Type = "udp"
			pcs = append(pcs, p)
		} else {
			p := &v1.SUDPProxyConfig{Secretkey: "sk", AllowUsers: []string{"*"}}
			base = &p.ProxyBaseConfig
			base.Type = "sudp"
			pcs = append(pcs, p)
		}
		base.Name, base.LocalIP, base.LocalPort = name, "127.0.0.1", bport
		base.Transport.UseEncryption, base.Transport.UseCompression = c.Enc, c.Comp
		if c.Limit != "" {
			base.Transport.BandwidthLimitMode = c.Limit
			base.Transport.BandwidthLimit, _ = types.NewBandwidthQuantity("4MB")
		}
		names = append(names, "owner."+name)
	}
	cl, err := fx.StartClient(common, pcs, nil)
	if err != nil {
		return fx.Inconclusive("client: %v", err)
	}
	defer cl.Close()
	if e := cl.WaitRunning(10*time.Second, names...); e != nil {
		return fx.Inconclusive("proxies did not come up: %v %s", e, brief(c))
	}
	public := make([]*net.UDPAddr, c.NProxies)
	for pi := range public {
		public[pi] = &net.UDPAddr{IP: net.ParseIP("127.0.0.1"), Port: s.AllowPort(pi)}
	}
	if c.Kind == "sudp" {
		vc := fx.BaseClientConfig(s)
		vc.Transport.TCPMux = lo.ToPtr(c.TCPMux)
		vc.UDPPacketSize = int64(c.PacketSize)
		vc.User = "visitor"
		var vcs []v1.VisitorConfigurer
		for pi := 0; pi < c.NProxies; pi++ {
			v := &v1.SUDPVisitorConfig{}
			v.Name, v.Type, v.ServerUser, v.ServerName, v.SecretKey, v.BindAddr, v.BindPort = fmt.Sprintf("vu%d", pi), "sudp", "owner", fmt.Sprintf("u%d", pi), "sk", "127.0.0.1", s.Block.Port(fx.SlotExtra+pi)
			v.Transport.UseEncryption, v.Transport.UseCompression = c.Enc, c.Comp
			vcs = append(vcs, v)
			public[pi] = &net.UDPAddr{IP: net.ParseIP("127.0.0.1"), Port: v.BindPort}
		}
		vcl, e := fx.StartClient(vc, nil, vcs)
		if e != nil {
			return fx.Inconclusive("visitor client: %v", e)
		}
		defer vcl.Close()
	}

	// ---- users
	users := make([]*net.UDPConn, c.NUsers)
	ulog := make([]*sink, c.NUsers)
	for u := range users {
		uc, e := net.ListenUDP("udp", &net.UDPAddr{IP: net.ParseIP("127.0.0.1")})
		if e != nil {
			return fx.Inconclusive("%v", e)
		}
		_ = uc.SetReadBuffer(8 << 20)
		users[u], ulog[u] = uc, &sink{}
		defer uc.Close()
		go func(u int, uc *net.UDPConn) {
			buf := make([]byte, 65536)
			for {
				n, from, e := uc.ReadFromUDP(buf)
				if e != nil {
					return
				}
				ulog[u].add(buf[:n], from.String())
			}
		}(u, uc)
	}

	// The tunnel is ready some time after the proxy reports "running" (frps fetches the udp work connection
	// 500 ms later; the sudp visitor dials on its own): probe with user 0 until a reply comes back. Probe
	// datagrams are 5 bytes 0xF0.. and are removed from the logs by their first byte.
	probe := []byte{0xF0, 'p', 'r', 'b', 0}
	for pi := 0; pi < c.NProxies; pi++ {
		ok := false
		deadline := time.Now().Add(8 * time.Second)
		for time.Now().Before(deadline) && !ok {
			probe[4]++
			_, _ = users[0].WriteToUDP(probe, public[pi])
			t1 := time.Now().Add(150 * time.Millisecond)
			for time.Now().Before(t1) && !ok {
				for _, g := range ulog[0].snapshot() {
					if len(g.b) == 5 && g.b[0] == (^byte(0xF0))^byte(pi<<7) {
						ok = true
					}
				}
				time.Sleep(2 * time.Millisecond)
			}
		}
		if !ok {
			return fx.Inconclusive("udp tunnel %d did not start relaying within 8 s %s", pi, brief(c))
		}
	}
	time.Sleep(50 * time.Millisecond) // late probe replies
	isProbe := func(b []byte) bool { return len(b) == 5 && (b[0]&0x7F == 0x70 || b[0]&0x7F == 0x0F) }

	// ---- the script
	sentAt := make([]time.Time, len(c.Sends))
	var cutTime time.Time
	var downFrom, downTo time.Time
	for i, sd := range c.Sends {
		if i == c.DownAt {
			// backend 0 goes away, one datagram is sent into the void (the client's per-user socket learns "connection
			// refused"), the backend comes back on the same port
			port := backends[0].LocalAddr().(*net.UDPAddr).Port
			downFrom = time.Now()
			backends[0].Close()
			time.Sleep(20 * time.Millisecond)
			sentAt[i] = time.Now()
			_, _ = users[sd.User].WriteToUDP(payload(i, sd), public[sd.Proxy])
			time.Sleep(400 * time.Millisecond)
			nb, e := net.ListenUDP("udp", &net.UDPAddr{IP: net.ParseIP("127.0.0.1"), Port: port})
			if e != nil {
				return fx.Inconclusive("backend could not come back on its port: %v", e)
			}
			_ = nb.SetReadBuffer(8 << 20)
			backends[0] = nb
			go serveBackend(0, nb, blog[0])
			downTo = time.Now()
			time.Sleep(450 * time.Millisecond) // everything sent from here on is outside the fault window and must arrive
			continue
		}
		if i == c.CutAt {
			if relay.CutAfterFirst() == 0 {
				return fx.Inconclusive("no work connection to cut")
			}
			cutTime = time.Now()
			time.Sleep(time.Duration(c.CutPauseMs)*time.Millisecond + time.Duration(sd.GapUs)*time.Microsecond)
		} else if sd.GapUs > 0 {
			time.Sleep(time.Duration(sd.GapUs) * time.Microsecond)
		}
		sentAt[i] = time.Now()
		if _, e := users[sd.User].WriteToUDP(payload(i, sd), public[sd.Proxy]); e != nil {
			return fx.Inconclusive("user send: %v", e)
		}
	}

	// ---- wait: until everything expected has arrived (light load, no fault) or a quiet period
	light := limitLightLoad(c) && c.CutAt < 0 && c.DownAt < 0
	total := func() int {
		n := 0
		for _, l := range blog {
			n += l.n()
		}
		for _, l := range ulog {
			n += l.n()
		}
		return n
	}
	expectAll := 2 * len(c.Sends)
	deadline := time.Now().Add(3 * time.Second)
	lastN, lastChange := -1, time.Now()
	for time.Now().Before(deadline) {
		n := 0
		for _, l := range blog {
			for _, g := range l.snapshot() {
				if !isProbe(g.b) {
					n++
				}
			}
		}
		for _, l := range ulog {
			for _, g := range l.snapshot() {
				if !isProbe(g.b) {
					n++
				}
			}
		}
		if n >= expectAll {
			break
		}
		if t := total(); t != lastN {
			lastN, lastChange = t, time.Now()
		}
		if !light && time.Since(lastChange) > 700*time.Millisecond {
			break
		}
		time.Sleep(5 * time.Millisecond)
	}
	time.Sleep(30 * time.Millisecond) // anything duplicated would trail the expected datagrams

	// ---- oracle
	// what was sent, per proxy (for the backends) and per user (for the replies)
	sentProxy := make([]map[string]int, c.NProxies)
	for pi := range sentProxy {
		sentProxy[pi] = map[string]int{}
	}
	sentUser := make([]map[string]int, c.NUsers)
	for u := range sentUser {
		sentUser[u] = map[string]int{}
	}
	for i, sd := range c.Sends {
		p := payload(i, sd)
		sentProxy[sd.Proxy][string(p)]++
		sentUser[sd.User][string(transform(p, sd.Proxy))]++
	}
	describe := func(b []byte) string {
		if len(b) > 24 {
			return fmt.Sprintf("%d bytes %x..%x", len(b), b[:12], b[len(b)-8:])
		}
		return fmt.Sprintf("%d bytes %x", len(b), b)
	}
	// (1) backend log ⊆ sent (per proxy, with multiplicity)
	gotProxy := make([]map[string]int, c.NProxies)
	srcOf := map[string]map[string]bool{} // "proxy/user" -> source addresses seen by the backend
	for pi, l := range blog {
		gotProxy[pi] = map[string]int{}
		probeSeen := map[string]int{}
		for _, g := range l.snapshot() {
			if isProbe(g.b) {
				// every readiness probe was sent once (its last byte counts up): it is a datagram like any other
				probeSeen[string(g.b)]++
				if probeSeen[string(g.b)] > 1 {
					return fmt.Errorf("backend %d received the datagram %x, which was sent once (before the script, to see the tunnel come up), %d times %s", pi, g.b, probeSeen[string(g.b)], brief(c))
				}
				continue
			}
			gotProxy[pi][string(g.b)]++
			if gotProxy[pi][string(g.b)] > sentProxy[pi][string(g.b)] {
				why := "was never sent to this proxy"
				if sentProxy[pi][string(g.b)] > 0 {
					why = fmt.Sprintf("was sent %d time(s) but delivered %d times", sentProxy[pi][string(g.b)], gotProxy[pi][string(g.b)])
				} else {
					for pj := range sentProxy {
						if pj != pi && sentProxy[pj][string(g.b)] > 0 {
							why = fmt.Sprintf("was sent to proxy %d", pj)
						}
					}
					if len(g.b) > c.PacketSize {
						why += " (longer than the packet size)"
					}
				}
				return fmt.Errorf("backend %d received a datagram (%s) that %s %s", pi, describe(g.b), why, brief(c))
			}
			if len(g.b) >= 1 {
				k := fmt.Sprintf("%d/%d", pi, g.b[0]&0x0F)
				if srcOf[k] == nil {
					srcOf[k] = map[string]bool{}
				}
				srcOf[k][g.from] = true
			}
		}
	}
	// (2) each user's replies ⊆ transform(own datagrams) with multiplicity; replies come from the public endpoint
	gotUser := make([]map[string]int, c.NUsers)
	for u, l := range ulog {
		gotUser[u] = map[string]int{}
		for _, g := range l.snapshot() {
			if isProbe(g.b) {
				continue
			}
			gotUser[u][string(g.b)]++
			if gotUser[u][string(g.b)] > sentUser[u][string(g.b)] {
				why := "answers nothing this user sent"
				if sentUser[u][string(g.b)] > 0 {
					why = fmt.Sprintf("answers a datagram sent %d time(s) but arrived %d times", sentUser[u][string(g.b)], gotUser[u][string(g.b)])
				} else {
					for v := range sentUser {
						if v != u && sentUser[v][string(g.b)] > 0 {
							why = fmt.Sprintf("answers a datagram of user %d", v)
						}
					}
				}
				return fmt.Errorf("user %d received a reply (%s) that %s %s", u, describe(g.b), why, brief(c))
			}
			okFrom := false
			for _, pa := range public {
				if g.from == pa.String() {
					okFrom = true
				}
			}
			if !okFrom {
				return fmt.Errorf("user %d received a reply from %s, not from a public endpoint %s", u, g.from, brief(c))
			}
		}
	}
	// (3) delivery: at light load nothing is lost; around a replacement only what was sent inside the window may be.
	// Identical payloads are interchangeable, so the count that MUST have arrived is compared, per payload.
	const window = 1500 * time.Millisecond
	if limitLightLoad(c) {
		mustProxy := make([]map[string]int, c.NProxies)
		for pi := range mustProxy {
			mustProxy[pi] = map[string]int{}
		}
		mustUser := make([]map[string]int, c.NUsers)
		for u := range mustUser {
			mustUser[u] = map[string]int{}
		}
		first := map[string]int{}
		for i, sd := range c.Sends {
			p := payload(i, sd)
			inWindow := c.CutAt >= 0 && sentAt[i].After(cutTime.Add(-200*time.Millisecond)) && sentAt[i].Before(cutTime.Add(window))
			if inWindow {
				continue // the work connection is being re-established: this datagram or its reply may be lost
			}
			if c.CutAt >= 0 && c.Kind == "sudp" && !sentAt[i].Before(cutTime) {
				continue // the sudp visitor reconnects on demand: after the cut only "nothing twice, nothing foreign" is asserted
			}
			if c.DownAt >= 0 && sd.Proxy == 0 && sentAt[i].After(downFrom.Add(-300*time.Millisecond)) && sentAt[i].Before(downTo.Add(300*time.Millisecond)) {
				continue // sent while backend 0 was away
			}
			mustProxy[sd.Proxy][string(p)]++
			if _, ok := first[string(p)]; !ok {
				first[string(p)] = i
			}
			if c.CutAt >= 0 && sentAt[i].Before(cutTime) {
				continue // replies to the per-user sockets of the old work connection are not carried over
			}
			mustUser[sd.User][string(transform(p, sd.Proxy))]++
		}
		for i, sd := range c.Sends {
			p := payload(i, sd)
			if first[string(p)] != i {
				continue
			}
			if g, m := gotProxy[sd.Proxy][string(p)], mustProxy[sd.Proxy][string(p)]; g < m {
				return fmt.Errorf("light load (gaps >= 1 ms, %d datagrams): datagram #%d (%s) of user %d to proxy %d: %d copies were sent outside any re-establishment window, the backend received %d%s %s", len(c.Sends), i, describe(p), sd.User, sd.Proxy, m, g, cutNote(c, sentAt[i], cutTime), brief(c))
			}
		}
		for i, sd := range c.Sends {
			r := transform(payload(i, sd), sd.Proxy)
			if g, m := gotUser[sd.User][string(r)], mustUser[sd.User][string(r)]; g < m {
				return fmt.Errorf("light load (gaps >= 1 ms, %d datagrams): replies to datagram #%d (%s) of user %d: %d were due, %d arrived%s %s", len(c.Sends), i, describe(payload(i, sd)), sd.User, m, g, cutNote(c, sentAt[i], cutTime), brief(c))
			}
		}
	}
	_ = bytes.Equal
	_ = sort.Strings
	return nil
}

func cutNote(c Case, at, cut time.Time) string {
	if c.CutAt < 0 {
		return ""
	}
	return fmt.Sprintf(" (sent %.0f ms after the work connection was cut)", at.Sub(cut).Seconds()*1000)
}

func classify(c Case) fx.Class {
	usersSeen := map[int]bool{}
	big := false
	for _, s := range c.Sends {
		usersSeen[s.User] = true
		if s.Len >= 1000 {
			big = true
		}
	}
	labels := []string{"kind=" + c.Kind, fmt.Sprintf("enc=%v,comp=%v", c.Enc, c.Comp), fmt.Sprintf("pkt=%d", c.PacketSize)}
	if c.CutAt >= 0 {
		labels = append(labels, "workconn-replaced")
	}
	if c.DownAt >= 0 {
		labels = append(labels, "backend-away")
	}
	if limitLightLoad(c) {
		labels = append(labels, "light-load")
	} else {
		labels = append(labels, "bursty")
	}
	if c.Limit != "" {
		labels = append(labels, "limit="+c.Limit)
	}
	fp := brief(c)
	for _, s := range c.Sends {
		fp += fmt.Sprintf("|%d.%d.%d", s.User, s.Proxy, s.Len)
	}
	return fx.Class{NonTrivial: len(usersSeen) >= 2 || big || c.CutAt >= 0, Fingerprint: fp, Labels: labels}
}

func TestUDPTunnels(t *testing.T) {
	fx.Run(t, fx.Spec[Case]{Prop: "C03", Name: "udp_tunnels", Quick: 400, Thorough: 8000, Gen: gen, Run: run, Class: classify, Retry: true, Journal: true, ShrinkTime: "60s"})
}
