package fx

import (
	"context"
	"fmt"
	"net"
	"sync"
	"time"

	"github.com/samber/lo"

	"github.com/fatedier/frp/client"
	"github.com/fatedier/frp/pkg/config/types"
	v1 "github.com/fatedier/frp/pkg/config/v1"
	"github.com/fatedier/frp/pkg/util/log"
	"github.com/fatedier/frp/server"
)

func init() {
	// quiet: only errors; colour off. The level can be raised with VERIF_LOG.
	lvl := "error"
	if v := getenv("VERIF_LOG"); v != "" {
		lvl = v
	}
	log.InitLogger("console", lvl, 0, true)
}

// Port slots inside a leased block.
const (
	SlotBind = iota
	SlotVhostHTTP
	SlotVhostHTTPS
	SlotTCPMux
	SlotKCP
	SlotQUIC
	SlotDash
	SlotSSH
	SlotAdmin
	SlotExtra     // SlotExtra..SlotExtra+4: free for the check (visitor binds etc.)
	SlotAllow = 16 // allowPorts = [Base+16, Base+39]
)

const Token = "verif-token-7f3a9c"

// Server is an in-process frps.
type Server struct {
	Cfg    *v1.ServerConfig
	Svc    *server.Service
	Block  *Block
	cancel context.CancelFunc
	done   chan struct{}
	closed bool
	mu     sync.Mutex
	// keepBlock: the port block belongs to the caller (server restarts on the same ports)
	keepBlock bool
}

type ServerOpt func(*v1.ServerConfig, *Block)

// BaseServerConfig returns a config with pre-made certificates, a small
// allowPorts range and the standard port slots; vhost ports are NOT enabled by
// default (opts enable them).
func BaseServerConfig(b *Block) *v1.ServerConfig {
	c := GetCerts()
	cfg := &v1.ServerConfig{}
	cfg.BindAddr = "127.0.0.1"
	cfg.BindPort = b.Port(SlotBind)
	cfg.Auth.Token = Token
	cfg.Transport.TLS.CertFile = c.ServerCert
	cfg.Transport.TLS.KeyFile = c.ServerKey
	cfg.AllowPorts = []types.PortsRange{{Start: b.Port(SlotAllow), End: b.Port(BlockSize - 1)}}
	cfg.Log.Level = "error"
	return cfg
}

func WithVhostHTTP() ServerOpt {
	return func(c *v1.ServerConfig, b *Block) { c.VhostHTTPPort = b.Port(SlotVhostHTTP) }
}
func WithVhostHTTPS() ServerOpt {
	return func(c *v1.ServerConfig, b *Block) { c.VhostHTTPSPort = b.Port(SlotVhostHTTPS) }
}
func WithTCPMux(passthrough bool) ServerOpt {
	return func(c *v1.ServerConfig, b *Block) {
		c.TCPMuxHTTPConnectPort = b.Port(SlotTCPMux)
		c.TCPMuxPassthrough = passthrough
	}
}
func WithKCP() ServerOpt  { return func(c *v1.ServerConfig, b *Block) { c.KCPBindPort = b.Port(SlotKCP) } }
func WithQUIC() ServerOpt { return func(c *v1.ServerConfig, b *Block) { c.QUICBindPort = b.Port(SlotQUIC) } }
func WithServerTCPMux(on bool) ServerOpt {
	return func(c *v1.ServerConfig, b *Block) { c.Transport.TCPMux = lo.ToPtr(on) }
}
func WithCfg(f func(c *v1.ServerConfig, b *Block)) ServerOpt { return f }

// StartServerOn starts frps on a block the caller already holds (server restart on the
// same ports). The block is NOT released by Close of the returned server when keep is true.
func StartServerOn(b *Block, opts ...ServerOpt) (*Server, error) {
	cfg := BaseServerConfig(b)
	for _, o := range opts {
		o(cfg, b)
	}
	cfg.Complete()
	svc, err := server.NewService(cfg)
	if err != nil {
		return nil, Inconclusive("cannot start frps on held block: %v", err)
	}
	ctx, cancel := context.WithCancel(context.Background())
	s := &Server{Cfg: cfg, Svc: svc, Block: b, cancel: cancel, done: make(chan struct{}), keepBlock: true}
	go func() {
		svc.Run(ctx)
		close(s.done)
	}()
	return s, nil
}

// StartServer leases a block and starts frps on it. Bind failures are retried
// with another block and are reported as inconclusive, never as a violation.
func StartServer(opts ...ServerOpt) (*Server, error) {
	var lastErr error
	for attempt := 0; attempt < 4; attempt++ {
		b, err := Lease()
		if err != nil {
			return nil, Inconclusive("port lease: %v", err)
		}
		cfg := BaseServerConfig(b)
		for _, o := range opts {
			o(cfg, b)
		}
		cfg.Complete()
		svc, err := server.NewService(cfg)
		if err != nil {
			// NewService does not release what it already bound when it fails part-way:
			// this block is not reused by this process.
			lastErr = err
			continue
		}
		ctx, cancel := context.WithCancel(context.Background())
		s := &Server{Cfg: cfg, Svc: svc, Block: b, cancel: cancel, done: make(chan struct{})}
		go func() {
			svc.Run(ctx)
			close(s.done)
		}()
		return s, nil
	}
	return nil, Inconclusive("cannot start frps: %v", lastErr)
}

func (s *Server) Close() {
	s.mu.Lock()
	if s.closed {
		s.mu.Unlock()
		return
	}
	s.closed = true
	s.mu.Unlock()
	// Service.Close releases listeners and sessions. Run() itself does not return
	// (the mux default listener's Accept is not woken by Close); that goroutine is
	// constant per server and irrelevant to any property, so it is not waited for.
	// bounded: a server wedged by the code under test (a lock left held) must not wedge the check as well - the
	// case's own verdict has been computed by now; the block is then not reused
	closed := make(chan struct{})
	go func() { _ = s.Svc.Close(); close(closed) }()
	select {
	case <-closed:
	case <-time.After(8 * time.Second):
		s.cancel()
		return
	}
	s.cancel()
	if !s.closeExtra() && s.Cfg.VhostHTTPPort > 0 && s.Cfg.VhostHTTPPort != s.Cfg.BindPort {
		// without the hook the vhost HTTP listener stays bound: never reuse this block
		return
	}
	if !s.keepBlock {
		s.Block.Release()
	}
}

func (s *Server) BindAddr() string { return fmt.Sprintf("127.0.0.1:%d", s.Cfg.BindPort) }
func (s *Server) Addr(slot int) string {
	return fmt.Sprintf("127.0.0.1:%d", s.Block.Port(slot))
}
func (s *Server) AllowPort(i int) int { return s.Block.Port(SlotAllow + i) }

// ---------- in-process frpc ----------------------------------------------------

type Client struct {
	Svc    *client.Service
	Common *v1.ClientCommonConfig
	cancel context.CancelFunc
	done   chan struct{}
}

// BaseClientConfig: plain tcp, TLS on (default), tcpMux on (default).
func BaseClientConfig(s *Server) *v1.ClientCommonConfig {
	c := &v1.ClientCommonConfig{}
	c.ServerAddr = "127.0.0.1"
	c.ServerPort = s.Cfg.BindPort
	c.Auth.Token = Token
	c.LoginFailExit = lo.ToPtr(false)
	c.Log.Level = "error"
	c.Transport.DialServerTimeout = 5
	return c
}

func StartClient(common *v1.ClientCommonConfig, pxys []v1.ProxyConfigurer, vis []v1.VisitorConfigurer) (*Client, error) {
	common.Complete()
	for _, p := range pxys {
		p.Complete(common.User) // as config.LoadClientConfig does: names get the "<user>." prefix
	}
	for _, v := range vis {
		v.Complete(common)
	}
	svc, err := client.NewService(client.ServiceOptions{Common: common, ProxyCfgs: pxys, VisitorCfgs: vis})
	if err != nil {
		return nil, err
	}
	ctx, cancel := context.WithCancel(context.Background())
	c := &Client{Svc: svc, Common: common, cancel: cancel, done: make(chan struct{})}
	go func() {
		_ = svc.Run(ctx)
		close(c.done)
	}()
	return c, nil
}

func (c *Client) Close() {
	c.cancel()
	select {
	case <-c.done:
	case <-time.After(5 * time.Second):
	}
}

// WaitRunning polls until all named proxies are in phase "running".
func (c *Client) WaitRunning(timeout time.Duration, names ...string) error {
	deadline := time.Now().Add(timeout)
	for {
		ok := true
		var last string
		for _, n := range names {
			st, found := c.Svc.StatusExporter().GetProxyStatus(n)
			if !found || st.Phase != "running" {
				ok = false
				if found {
					last = n + ":" + st.Phase + ":" + st.Err
				} else {
					last = n + ":absent"
				}
				break
			}
		}
		if ok {
			return nil
		}
		if time.Now().After(deadline) {
			return fmt.Errorf("proxies not running after %v (%s)", timeout, last)
		}
		time.Sleep(2 * time.Millisecond)
	}
}

// ---------- misc ---------------------------------------------------------------

// WaitListen waits until a TCP connect to addr succeeds.
func WaitListen(addr string, timeout time.Duration) error {
	deadline := time.Now().Add(timeout)
	for {
		c, err := net.DialTimeout("tcp", addr, 200*time.Millisecond)
		if err == nil {
			c.Close()
			return nil
		}
		if time.Now().After(deadline) {
			return err
		}
		time.Sleep(2 * time.Millisecond)
	}
}

// CanConnect reports whether something accepts TCP connections on addr now.
func CanConnect(addr string) bool {
	c, err := net.DialTimeout("tcp", addr, 300*time.Millisecond)
	if err != nil {
		return false
	}
	c.Close()
	return true
}

// SnapshotDiff compares two snapshots of the server tables; "" means equal.
func SnapshotDiff(a, b *Snapshot) string {
	if a == nil || b == nil {
		return ""
	}
	ja, _ := jsonMarshal(a)
	jb, _ := jsonMarshal(b)
	if string(ja) == string(jb) {
		return ""
	}
	return fmt.Sprintf("before=%s after=%s", ja, jb)
}
