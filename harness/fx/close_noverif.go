//go:build !verif

package fx

func (s *Server) closeExtra() bool { return false }
