//go:build !verif

package fx

import "time"

// Without hooks there are no gates: HoldGate returns a gate that never arrives.
type Gate struct{}

const GatesAvailable = false

func HoldGate(point string, nth int, match func(keys []string) bool) *Gate { return &Gate{} }
func (g *Gate) WaitArrived(timeout time.Duration) bool                       { return false }
func (g *Gate) Release()                                                     {}
func ClearGates()                                                            {}
func KeyIs(i int, v string) func([]string) bool                              { return func([]string) bool { return false } }
