package fx

import (
	"bytes"
	"fmt"
	"net"
	"sync"
	"time"
)

// Relay is a recording man-in-the-middle between frpc and frps (TCP and UDP on the
// same port number): everything that crosses the "network path" is captured.
type Relay struct {
	Port   int
	target string
	tln    net.Listener
	uconn  *net.UDPConn

	mu    sync.Mutex
	buf   [][]byte // one buffer per direction per connection, concatenated on demand
	total int
	conns []net.Conn
	done  chan struct{}

	npairs       int // connections accepted so far
	frozenBefore int // connections with a smaller index are "dark": kept open, nothing forwarded any more
}

const relayCap = 64 << 20

func NewRelay(listenPort int, targetTCP string, targetUDP string) (*Relay, error) {
	r := &Relay{Port: listenPort, target: targetTCP, done: make(chan struct{})}
	ln, err := net.Listen("tcp", fmt.Sprintf("127.0.0.1:%d", listenPort))
	if err != nil {
		return nil, err
	}
	r.tln = ln
	go r.acceptLoop()
	if targetUDP != "" {
		uc, err := net.ListenUDP("udp", &net.UDPAddr{IP: net.ParseIP("127.0.0.1"), Port: listenPort})
		if err != nil {
			ln.Close()
			return nil, err
		}
		r.uconn = uc
		go r.udpLoop(targetUDP)
	}
	return r, nil
}

func (r *Relay) record(idx int, b []byte) {
	r.mu.Lock()
	if r.total < relayCap {
		r.buf[idx] = append(r.buf[idx], b...)
		r.total += len(b)
	}
	r.mu.Unlock()
}

func (r *Relay) newStream() int {
	r.mu.Lock()
	defer r.mu.Unlock()
	r.buf = append(r.buf, nil)
	return len(r.buf) - 1
}

func (r *Relay) acceptLoop() {
	for {
		c, err := r.tln.Accept()
		if err != nil {
			return
		}
		s, err := net.DialTimeout("tcp", r.target, 2*time.Second)
		if err != nil {
			c.Close()
			continue
		}
		r.mu.Lock()
		r.conns = append(r.conns, c, s)
		pair := r.npairs
		r.npairs++
		r.mu.Unlock()
		up, down := r.newStream(), r.newStream()
		pipe := func(dst, src net.Conn, idx int) {
			buf := make([]byte, 32*1024)
			for {
				n, err := src.Read(buf)
				if n > 0 {
					r.mu.Lock()
					dark := pair < r.frozenBefore
					r.mu.Unlock()
					if dark {
						continue // the path went dark for this connection: bytes vanish, both sockets stay open
					}
					r.record(idx, buf[:n])
					if _, e := dst.Write(buf[:n]); e != nil {
						break
					}
				}
				if err != nil {
					break
				}
			}
			r.mu.Lock()
			dark := pair < r.frozenBefore
			r.mu.Unlock()
			if dark {
				// a dark path does not carry the close either: the other side keeps a half-open connection
				// (it is closed with the relay)
				src.Close()
				return
			}
			dst.Close()
			src.Close()
		}
		go pipe(s, c, up)
		go pipe(c, s, down)
	}
}

func (r *Relay) udpLoop(target string) {
	taddr, err := net.ResolveUDPAddr("udp", target)
	if err != nil {
		return
	}
	idx := r.newStream()
	back := map[string]*net.UDPConn{}
	var bmu sync.Mutex
	buf := make([]byte, 65536)
	for {
		n, from, err := r.uconn.ReadFromUDP(buf)
		if err != nil {
			bmu.Lock()
			for _, c := range back {
				c.Close()
			}
			bmu.Unlock()
			return
		}
		r.record(idx, buf[:n])
		bmu.Lock()
		c := back[from.String()]
		if c == nil {
			c, err = net.DialUDP("udp", nil, taddr)
			if err != nil {
				bmu.Unlock()
				continue
			}
			back[from.String()] = c
			go func(c *net.UDPConn, from *net.UDPAddr) {
				b := make([]byte, 65536)
				for {
					n, err := c.Read(b)
					if err != nil {
						return
					}
					r.record(idx, b[:n])
					_, _ = r.uconn.WriteToUDP(b[:n], from)
				}
			}(c, from)
		}
		bmu.Unlock()
		_, _ = c.Write(buf[:n])
	}
}

// Captured returns everything recorded so far (all directions and connections; each
// stream contiguous, so a marker cannot be missed by interleaving).
func (r *Relay) Captured() [][]byte {
	r.mu.Lock()
	defer r.mu.Unlock()
	out := make([][]byte, len(r.buf))
	for i, b := range r.buf {
		out[i] = append([]byte(nil), b...)
	}
	return out
}

func (r *Relay) Total() int {
	r.mu.Lock()
	defer r.mu.Unlock()
	return r.total
}

// Contains reports whether any captured stream contains the marker.
func (r *Relay) Contains(marker []byte) bool {
	for _, b := range r.Captured() {
		if bytes.Contains(b, marker) {
			return true
		}
	}
	return false
}

// Cut closes every relayed TCP connection (the listener stays).
func (r *Relay) Cut() {
	r.mu.Lock()
	cs := r.conns
	r.conns = nil
	r.mu.Unlock()
	for _, c := range cs {
		c.Close()
	}
}

// GoDark makes the path dark for every connection established so far: the sockets stay open but nothing is
// forwarded in either direction any more; connections made afterwards work normally (a stalled path / half-open
// connections after a NAT or firewall state loss).
func (r *Relay) GoDark() {
	r.mu.Lock()
	r.frozenBefore = r.npairs
	r.mu.Unlock()
}

// CutAfterFirst closes every relayed TCP connection except the first one accepted (with stream
// multiplexing off the first one is the control connection, the others are work connections).
// It returns how many connections were closed.
func (r *Relay) CutAfterFirst() int {
	r.mu.Lock()
	var cs []net.Conn
	if len(r.conns) > 2 {
		cs = append(cs, r.conns[2:]...)
		r.conns = r.conns[:2]
	}
	r.mu.Unlock()
	for _, c := range cs {
		c.Close()
	}
	return len(cs) / 2
}

func (r *Relay) Close() {
	r.tln.Close()
	if r.uconn != nil {
		r.uconn.Close()
	}
	r.Cut()
}
