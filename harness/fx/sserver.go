package fx

import (
	"fmt"
	"io"
	"net"
	"sync"
	"time"

	"github.com/fatedier/frp/pkg/msg"
	netpkg "github.com/fatedier/frp/pkg/util/net"
)

// ScriptedServer speaks frps' side of the control protocol by hand (plain TCP, no
// TLS, no multiplexing): it owns reply order, delay, omission and outages.
type ScriptedServer struct {
	Token string
	ln    net.Listener
	addr  string

	mu       sync.Mutex
	events   []SEvent
	attempts map[string]int
	ctls     []*sctl
	work     chan net.Conn
	logins   int
	closed   bool
	start    time.Time

	// Reply decides how a registration is answered: kind in {"ok","err","late","never"}.
	Reply func(name string, attempt int, m *msg.NewProxy) (kind string, delay time.Duration)
	// LoginReply: "" = accept, otherwise the error text to refuse with ("drop" = close without answer)
	LoginReply func(n int, l *msg.Login) string
	// MutePong: when true pings are not answered
	MutePong bool
}

// SEvent is one observed control-protocol event with its time since server start.
type SEvent struct {
	T    time.Duration `json:"t"`
	Kind string        `json:"kind"` // Login NewProxy CloseProxy Ping Resp
	Name string        `json:"name,omitempty"`
	Msg  any           `json:"msg,omitempty"`
	Conn int           `json:"conn"`
}

type sctl struct {
	id   int
	conn net.Conn
	rw   io.ReadWriter
	wmu  sync.Mutex
}

func NewScriptedServer(port int) (*ScriptedServer, error) {
	ln, err := net.Listen("tcp", fmt.Sprintf("127.0.0.1:%d", port))
	if err != nil {
		return nil, err
	}
	s := &ScriptedServer{Token: Token, ln: ln, addr: ln.Addr().String(), attempts: map[string]int{}, work: make(chan net.Conn, 256), start: time.Now()}
	go s.acceptLoop(ln)
	return s, nil
}

func (s *ScriptedServer) Port() int { return s.ln.Addr().(*net.TCPAddr).Port }

func (s *ScriptedServer) log(e SEvent) {
	if e.T == 0 {
		e.T = time.Since(s.start) // incoming messages carry their ARRIVAL time (set by the reader), not the time their turn came
	}
	s.mu.Lock()
	s.events = append(s.events, e)
	s.mu.Unlock()
}

func (s *ScriptedServer) Events() []SEvent {
	s.mu.Lock()
	defer s.mu.Unlock()
	return append([]SEvent(nil), s.events...)
}

func (s *ScriptedServer) Now() time.Duration { return time.Since(s.start) }

func (s *ScriptedServer) acceptLoop(ln net.Listener) {
	for {
		c, err := ln.Accept()
		if err != nil {
			return
		}
		go s.handle(c)
	}
}

func (s *ScriptedServer) handle(c net.Conn) {
	_ = c.SetReadDeadline(time.Now().Add(10 * time.Second))
	m, err := msg.ReadMsg(c)
	if err != nil {
		c.Close()
		return
	}
	_ = c.SetReadDeadline(time.Time{})
	switch v := m.(type) {
	case *msg.Login:
		s.mu.Lock()
		s.logins++
		n := s.logins
		fn := s.LoginReply
		s.mu.Unlock()
		s.log(SEvent{Kind: "Login", Conn: n, Msg: v.RunID})
		if fn != nil {
			if r := fn(n, v); r != "" {
				if r != "drop" {
					_ = msg.WriteMsg(c, &msg.LoginResp{Error: r})
				}
				c.Close()
				return
			}
		}
		runID := v.RunID
		if runID == "" {
			runID = fmt.Sprintf("scripted%08d", n)
		}
		if err := msg.WriteMsg(c, &msg.LoginResp{Version: "0.62.0", RunID: runID}); err != nil {
			c.Close()
			return
		}
		rw, err := netpkg.NewCryptoReadWriter(c, []byte(s.Token))
		if err != nil {
			c.Close()
			return
		}
		ctl := &sctl{id: n, conn: c, rw: rw}
		s.mu.Lock()
		s.ctls = append(s.ctls, ctl)
		s.mu.Unlock()
		s.serveControl(ctl)
	case *msg.NewWorkConn:
		select {
		case s.work <- c:
		default:
			c.Close()
		}
	case *msg.NewVisitorConn:
		_ = msg.WriteMsg(c, &msg.NewVisitorConnResp{ProxyName: v.ProxyName})
		s.log(SEvent{Kind: "NewVisitorConn", Name: v.ProxyName})
		go func() { _, _ = io.Copy(c, c); c.Close() }()
	default:
		c.Close()
	}
}

func (ctl *sctl) send(m any) error {
	ctl.wmu.Lock()
	defer ctl.wmu.Unlock()
	return msg.WriteMsg(ctl.rw, m)
}

func (s *ScriptedServer) serveControl(ctl *sctl) {
	defer ctl.conn.Close()
	// a reader of its own stamps every message when it arrives; answering (which may sleep for "late" answers)
	// happens in order behind it, so a slow answer never shifts the recorded send times of later messages
	type arrival struct {
		m   msg.Message
		err error
		at  time.Duration
	}
	in := make(chan arrival, 4096)
	go func() {
		for {
			m, err := msg.ReadMsg(ctl.rw)
			in <- arrival{m, err, time.Since(s.start)}
			if err != nil {
				return
			}
		}
	}()
	for {
		a := <-in
		m, err, at := a.m, a.err, a.at
		if err != nil {
			s.log(SEvent{Kind: "ControlClosed", Conn: ctl.id})
			return
		}
		switch v := m.(type) {
		case *msg.NewProxy:
			s.mu.Lock()
			s.attempts[v.ProxyName]++
			att := s.attempts[v.ProxyName]
			fn := s.Reply
			s.mu.Unlock()
			cp := *v
			s.log(SEvent{T: at, Kind: "NewProxy", Name: v.ProxyName, Msg: &cp, Conn: ctl.id})
			kind, delay := "ok", time.Duration(0)
			if fn != nil {
				kind, delay = fn(v.ProxyName, att, v)
			}
			resp := &msg.NewProxyResp{ProxyName: v.ProxyName, RemoteAddr: ":1"}
			if kind == "err" {
				resp = &msg.NewProxyResp{ProxyName: v.ProxyName, Error: "scripted refusal"}
			}
			if kind == "never" {
				continue
			}
			// like frps, registrations are handled one after the other on the control's reader: a slow
			// ("late") answer delays everything behind it, answers are never reordered
			if delay > 0 {
				time.Sleep(delay)
			}
			s.log(SEvent{Kind: "Resp:" + kind, Name: resp.ProxyName, Conn: ctl.id})
			_ = ctl.send(resp)
		case *msg.CloseProxy:
			s.log(SEvent{T: at, Kind: "CloseProxy", Name: v.ProxyName, Conn: ctl.id})
		case *msg.Ping:
			s.log(SEvent{T: at, Kind: "Ping", Conn: ctl.id})
			s.mu.Lock()
			mute := s.MutePong
			s.mu.Unlock()
			if !mute {
				_ = ctl.send(&msg.Pong{})
			}
		}
	}
}

// SendAll sends a message on every live control connection.
func (s *ScriptedServer) SendAll(m any) {
	s.mu.Lock()
	ctls := append([]*sctl(nil), s.ctls...)
	s.mu.Unlock()
	for _, c := range ctls {
		_ = c.send(m)
	}
}

// TakeWorkConn waits for a work connection offered by the client.
func (s *ScriptedServer) TakeWorkConn(timeout time.Duration) net.Conn {
	select {
	case c := <-s.work:
		return c
	case <-time.After(timeout):
		return nil
	}
}

// Registered replays the event log: names with an accepted NewProxy and no later CloseProxy,
// per control connection (a control that closed forgets everything).
func (s *ScriptedServer) Registered() map[string]*msg.NewProxy {
	out := map[string]*msg.NewProxy{}
	pending := map[string]*msg.NewProxy{}
	for _, e := range s.Events() {
		switch e.Kind {
		case "NewProxy":
			pending[e.Name] = e.Msg.(*msg.NewProxy)
		case "Resp:ok", "Resp:late":
			if p := pending[e.Name]; p != nil {
				out[e.Name] = p
			}
		case "Resp:err":
			delete(out, e.Name)
		case "CloseProxy":
			delete(out, e.Name)
			delete(pending, e.Name)
		case "ControlClosed":
			out = map[string]*msg.NewProxy{}
			pending = map[string]*msg.NewProxy{}
		}
	}
	return out
}

// Intent replays the log by what the client SENT: name -> last NewProxy not followed by a CloseProxy,
// with the server's verdict on it ("ok", "err", "pending" = not answered).
func (s *ScriptedServer) Intent() (map[string]*msg.NewProxy, map[string]string) {
	intent := map[string]*msg.NewProxy{}
	state := map[string]string{}
	for _, e := range s.Events() {
		switch e.Kind {
		case "NewProxy":
			intent[e.Name] = e.Msg.(*msg.NewProxy)
			state[e.Name] = "pending"
		case "Resp:ok", "Resp:late":
			if _, ok := intent[e.Name]; ok {
				state[e.Name] = "ok"
			}
		case "Resp:err":
			if _, ok := intent[e.Name]; ok {
				state[e.Name] = "err"
			}
		case "CloseProxy":
			delete(intent, e.Name)
			delete(state, e.Name)
		case "ControlClosed":
			intent, state = map[string]*msg.NewProxy{}, map[string]string{}
		}
	}
	return intent, state
}

// DropControls closes every control connection (the listener stays).
func (s *ScriptedServer) DropControls() {
	s.mu.Lock()
	ctls := s.ctls
	s.ctls = nil
	s.mu.Unlock()
	for _, c := range ctls {
		c.conn.Close()
	}
}

// StopListening closes the listener (server unreachable); Restart reopens it on the same port.
func (s *ScriptedServer) StopListening() { s.ln.Close() }

func (s *ScriptedServer) Restart() error {
	ln, err := net.Listen("tcp", s.addr)
	if err != nil {
		return err
	}
	s.mu.Lock()
	s.ln = ln
	s.mu.Unlock()
	go s.acceptLoop(ln)
	return nil
}

func (s *ScriptedServer) Close() {
	s.mu.Lock()
	s.closed = true
	s.mu.Unlock()
	s.ln.Close()
	s.DropControls()
	for {
		select {
		case c := <-s.work:
			c.Close()
		default:
			return
		}
	}
}
