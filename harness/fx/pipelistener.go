package fx

import (
	"errors"
	"net"
	"sync"
)

// PipeListener is an in-memory net.Listener (net.Pipe pairs): high-volume checks of pure HTTP handlers use it
// instead of loopback sockets so that tens of thousands of short connections do not exhaust ephemeral ports.
type PipeListener struct {
	ch   chan net.Conn
	done chan struct{}
	once sync.Once
}

func NewPipeListener() *PipeListener {
	return &PipeListener{ch: make(chan net.Conn), done: make(chan struct{})}
}

type pipeAddr struct{}

func (pipeAddr) Network() string { return "pipe" }
func (pipeAddr) String() string  { return "127.0.0.1:0" }

type pipeConn struct {
	net.Conn
}

func (pipeConn) RemoteAddr() net.Addr { return &net.TCPAddr{IP: net.IPv4(127, 0, 0, 1), Port: 40000} }
func (pipeConn) LocalAddr() net.Addr  { return &net.TCPAddr{IP: net.IPv4(127, 0, 0, 1), Port: 80} }

func (l *PipeListener) Accept() (net.Conn, error) {
	select {
	case c := <-l.ch:
		return c, nil
	case <-l.done:
		return nil, errors.New("pipe listener closed")
	}
}

func (l *PipeListener) Close() error   { l.once.Do(func() { close(l.done) }); return nil }
func (l *PipeListener) Addr() net.Addr { return pipeAddr{} }

// Dial returns the client end of a fresh connection to the listener.
func (l *PipeListener) Dial() (net.Conn, error) {
	a, b := net.Pipe()
	select {
	case l.ch <- pipeConn{b}:
		return pipeConn{a}, nil
	case <-l.done:
		a.Close()
		b.Close()
		return nil, errors.New("pipe listener closed")
	}
}
