// Package fx holds the fixtures shared by all property checks: the
// gen -> run -> oracle runner, statistics for the evidence files, replay files,
// known findings, port leasing, scripted peers and in-process worlds.
package fx

import (
	"encoding/json"
	"errors"
	"flag"
	"fmt"
	"hash/fnv"
	"os"
	"path/filepath"
	"sort"
	"strconv"
	"strings"
	"sync"
	"testing"
	"time"

	"pgregory.net/rapid"
)

// Class describes one generated case for the evidence file.
type Class struct {
	NonTrivial  bool
	Fingerprint string   // abstract identity of the case (distinct-counting)
	Labels      []string // histogram labels
}

// ErrInconclusive marks a case whose outcome could not be decided (port clash,
// timing bound missed once and not reproduced, ...). Never a violation.
type inconclusive struct{ msg string }

func (e *inconclusive) Error() string { return "inconclusive: " + e.msg }

func Inconclusive(format string, a ...any) error {
	return &inconclusive{fmt.Sprintf(format, a...)}
}

func IsInconclusive(err error) bool {
	var i *inconclusive
	return errors.As(err, &i)
}

// Spec is one generated sub-check of a property.
type Spec[C any] struct {
	Prop     string // "C17"
	Name     string // sub-check name, unique within the property
	Quick    int    // total cases in the quick tier (all shards together)
	Thorough int    // total cases in the thorough tier
	Gen      func(t *rapid.T) C
	Run      func(c C) error // run + oracle: nil = property held on this case
	Class    func(c C) Class
	// Retry: when true a failing case is re-executed once in isolation and only a
	// reproduced failure is a violation (timing / schedule dependent oracles).
	Retry bool
	// Journal: write every case to a journal file before running it, so that the
	// driver can turn the last case into a replay when the process dies (in-process
	// frps brought down by an unrecovered panic / fatal error).
	Journal bool
	// ShrinkTime bounds rapid's minimisation (default 30s): slow cases must not
	// turn a found violation into a blown time budget.
	ShrinkTime string
}

type checkStats struct {
	Evaluations  int            `json:"evaluations"`
	NonTrivial   int            `json:"nontrivial"`
	Inconclusive int            `json:"inconclusive"`
	Flaky        int            `json:"flaky_unreproduced"`
	Fingerprints []string       `json:"fingerprints"`
	Labels       map[string]int `json:"labels"`
	Samples      []any          `json:"samples"`
	Notes        []string       `json:"notes,omitempty"`
	fp           map[uint64]struct{}
}

type procStats struct {
	Property   string                 `json:"property"`
	Shard      int                    `json:"shard"`
	Seed       uint64                 `json:"seed"`
	Tier       string                 `json:"tier"`
	Checks     map[string]*checkStats `json:"checks"`
	Violations []violation            `json:"violations"`
	Known      []string               `json:"known_findings_reproduced"`
	Skipped    []string               `json:"skipped_subchecks,omitempty"`
	WallS      float64                `json:"wall_s"`
}

type violation struct {
	Property string `json:"property"`
	Check    string `json:"check"`
	Replay   string `json:"replay"`
	Error    string `json:"error"`
}

var (
	mu    sync.Mutex
	stats = procStats{Checks: map[string]*checkStats{}}
	start = time.Now()
)

func envInt(name string, def int) int {
	if v := os.Getenv(name); v != "" {
		if n, err := strconv.Atoi(v); err == nil {
			return n
		}
	}
	return def
}

func Tier() string {
	if os.Getenv("VERIF_TIER") == "thorough" {
		return "thorough"
	}
	return "quick"
}

func Thorough() bool { return Tier() == "thorough" }

func Shard() int   { return envInt("VERIF_SHARD", 0) }
func NShards() int { return max(1, envInt("VERIF_NSHARDS", 1)) }

func BaseSeed() uint64 {
	if v := os.Getenv("VERIF_SEED"); v != "" {
		if n, err := strconv.ParseUint(v, 10, 64); err == nil {
			return n
		}
		if n, err := strconv.ParseInt(v, 10, 64); err == nil {
			return uint64(n)
		}
	}
	return 20260101
}

func mix(seed uint64, name string, shard int) uint64 {
	h := fnv.New64a()
	fmt.Fprintf(h, "%d|%s|%d", seed, name, shard)
	v := h.Sum64()
	if v == 0 {
		v = 1
	}
	return v
}

func hash64(s string) uint64 {
	h := fnv.New64a()
	h.Write([]byte(s))
	return h.Sum64()
}

func getStats(name string) *checkStats {
	cs := stats.Checks[name]
	if cs == nil {
		cs = &checkStats{Labels: map[string]int{}, fp: map[uint64]struct{}{}}
		stats.Checks[name] = cs
	}
	return cs
}

func truncateSample(v any) any {
	b, err := json.Marshal(v)
	if err != nil {
		return fmt.Sprintf("%+v", v)
	}
	if len(b) > 3000 {
		return string(b[:3000]) + "...(truncated)"
	}
	return json.RawMessage(b)
}

// Record adds one evaluated case to the statistics of a sub-check.
func Record(name string, cl Class, sample any) {
	mu.Lock()
	defer mu.Unlock()
	cs := getStats(name)
	cs.Evaluations++
	for _, l := range cl.Labels {
		cs.Labels[l]++
	}
	if cs.Evaluations == 1 && !cl.NonTrivial {
		cs.Samples = append(cs.Samples, truncateSample(sample))
	}
	if cl.NonTrivial {
		cs.NonTrivial++
		h := hash64(cl.Fingerprint)
		if _, ok := cs.fp[h]; !ok {
			cs.fp[h] = struct{}{}
			n := len(cs.fp)
			// keep a few samples spread over the run: 1st, 2nd, then powers of 4
			if n <= 2 || (n&(n-1)) == 0 && len(cs.Samples) < 6 {
				cs.Samples = append(cs.Samples, truncateSample(sample))
			}
		}
	}
}

func Note(name, format string, a ...any) {
	mu.Lock()
	defer mu.Unlock()
	cs := getStats(name)
	if len(cs.Notes) < 20 {
		cs.Notes = append(cs.Notes, fmt.Sprintf(format, a...))
	}
}

func AddLabel(name, label string, n int) {
	mu.Lock()
	defer mu.Unlock()
	getStats(name).Labels[label] += n
}

func SkipSubcheck(name, why string) {
	mu.Lock()
	defer mu.Unlock()
	stats.Skipped = append(stats.Skipped, name+": "+why)
}

type replayFile struct {
	Property string          `json:"property"`
	Check    string          `json:"check"`
	Error    string          `json:"error"`
	Case     json.RawMessage `json:"case"`
}

func replayDir(prop string) string {
	d := os.Getenv("VERIF_REPLAY_DIR")
	if d == "" {
		d = filepath.Join(os.TempDir(), "verif-replays")
	}
	d = filepath.Join(d, prop)
	_ = os.MkdirAll(d, 0o755)
	return d
}

func writeReplay(prop, name string, c any, err error) string {
	b, _ := json.MarshalIndent(c, "", " ")
	rf := replayFile{Property: prop, Check: name, Error: err.Error(), Case: b}
	out, _ := json.MarshalIndent(rf, "", " ")
	p := filepath.Join(replayDir(prop), fmt.Sprintf("%s-%s-%016x.json", prop, name, hash64(string(b))))
	_ = os.WriteFile(p, out, 0o644)
	return p
}

// ReportViolation prints the VIOLATION line and remembers it for the stats file.
func ReportViolation(prop, name string, c any, err error) string {
	p := writeReplay(prop, name, c, err)
	mu.Lock()
	stats.Violations = append(stats.Violations, violation{prop, name, p, err.Error()})
	mu.Unlock()
	fmt.Printf("VIOLATION property=%s replay=%s\n", prop, p)
	fmt.Printf("  check=%s error=%s\n", name, oneLine(err.Error()))
	return p
}

func oneLine(s string) string {
	s = strings.ReplaceAll(s, "\n", " | ")
	if len(s) > 600 {
		s = s[:600] + "..."
	}
	return s
}

func journal(prop, name string, c any) {
	out := os.Getenv("VERIF_STATS_OUT")
	if out == "" {
		return
	}
	b, _ := json.Marshal(c)
	rf := replayFile{Property: prop, Check: name, Error: "process died while running this case", Case: b}
	j, _ := json.Marshal(rf)
	_ = os.WriteFile(out+".journal", j, 0o644)
}

// JournalCase records the case about to run, so that the driver can turn a dying process into a violation with a replay.
func JournalCase(prop, name string, c any) { journal(prop, name, c) }

var replayers = map[string]func(json.RawMessage) error{}

// Run executes one sub-check under rapid with the tier's case count and the
// shard's seed. A falsified case is shrunk by rapid; the minimal failing case is
// written as a replay file and reported as a violation.
func Run[C any](t *testing.T, s Spec[C]) {
	t.Helper()
	register(s)
	if os.Getenv("VERIF_REPLAY") != "" {
		return
	}
	if only := os.Getenv("VERIF_ONLY"); only != "" && !strings.Contains(","+only+",", ","+s.Name+",") {
		return
	}
	total := s.Quick
	if Thorough() {
		total = s.Thorough
	}
	if f := os.Getenv("VERIF_SCALE"); f != "" {
		if x, err := strconv.ParseFloat(f, 64); err == nil {
			total = int(float64(total) * x)
		}
	}
	n := (total + NShards() - 1) / NShards()
	if n < 1 {
		n = 1
	}
	seed := mix(BaseSeed(), s.Prop+"/"+s.Name, Shard())
	_ = flag.Set("rapid.checks", strconv.Itoa(n))
	_ = flag.Set("rapid.seed", strconv.FormatUint(seed, 10))
	_ = flag.Set("rapid.nofailfile", "true")
	st := s.ShrinkTime
	if st == "" {
		st = "30s"
	}
	if v := os.Getenv("VERIF_SHRINKTIME"); v != "" {
		st = v
	}
	_ = flag.Set("rapid.shrinktime", st)
	mu.Lock()
	stats.Property, stats.Shard, stats.Seed, stats.Tier = s.Prop, Shard(), BaseSeed(), Tier()
	mu.Unlock()

	var lastFail *C
	var lastErr error
	// rapid looks at its shrink deadline only between passes; with cases that take seconds to fail one pass can last
	// many minutes. Once the budget is used up every further candidate is reported as passing, which ends the
	// minimisation with the smallest failing case found so far.
	var firstFailAt time.Time
	budget, _ := time.ParseDuration(st)
	if budget <= 0 {
		budget = 30 * time.Second
	}
	defer func() {
		if lastFail != nil {
			ReportViolation(s.Prop, s.Name, *lastFail, lastErr)
		}
	}()
	rapid.Check(t, func(rt *rapid.T) {
		c := s.Gen(rt)
		if !firstFailAt.IsZero() && time.Since(firstFailAt) > budget+budget/2 {
			return
		}
		if s.Journal {
			journal(s.Prop, s.Name, c)
		}
		err := s.Run(c)
		if err != nil && !IsInconclusive(err) && s.Retry {
			err2 := s.Run(c)
			if err2 == nil || IsInconclusive(err2) {
				mu.Lock()
				getStats(s.Name).Flaky++
				mu.Unlock()
				fmt.Printf("NOTE %s/%s: failure not reproduced on retry (counted as flaky_unreproduced): %s\n", s.Prop, s.Name, oneLine(err.Error()))
				err = nil
			} else {
				err = err2
			}
		}
		if IsInconclusive(err) {
			mu.Lock()
			getStats(s.Name).Inconclusive++
			mu.Unlock()
			Note(s.Name, "%s", oneLine(err.Error()))
			return
		}
		cl := Class{}
		if s.Class != nil {
			cl = s.Class(c)
		}
		if err != nil {
			cc := c
			lastFail, lastErr = &cc, err
			if firstFailAt.IsZero() {
				firstFailAt = time.Now()
			}
			rt.Fatalf("%s/%s violated: %v", s.Prop, s.Name, err)
		}
		Record(s.Name, cl, c)
	})
}

func register[C any](s Spec[C]) {
	mu.Lock()
	defer mu.Unlock()
	replayers[s.Name] = func(raw json.RawMessage) error {
		var c C
		if err := json.Unmarshal(raw, &c); err != nil {
			return fmt.Errorf("bad replay case: %v", err)
		}
		return s.Run(c)
	}
}

// RegisterReplay registers a replay function for checks that do not go through Run.
func RegisterReplay(name string, fn func(json.RawMessage) error) {
	mu.Lock()
	defer mu.Unlock()
	replayers[name] = fn
}

// Main is called from every package's TestMain.
func Main(m *testing.M, prop string) {
	flag.Parse()
	mu.Lock()
	stats.Property, stats.Shard, stats.Seed, stats.Tier = prop, Shard(), BaseSeed(), Tier()
	mu.Unlock()
	code := m.Run()
	if rp := os.Getenv("VERIF_REPLAY"); rp != "" {
		code = doReplay(rp)
	}
	mu.Lock()
	stats.WallS = time.Since(start).Seconds()
	for _, cs := range stats.Checks {
		cs.Fingerprints = cs.Fingerprints[:0]
		for h := range cs.fp {
			cs.Fingerprints = append(cs.Fingerprints, strconv.FormatUint(h, 36))
		}
		sort.Strings(cs.Fingerprints)
	}
	if out := os.Getenv("VERIF_STATS_OUT"); out != "" {
		b, _ := json.Marshal(&stats)
		_ = os.WriteFile(out, b, 0o644)
	}
	mu.Unlock()
	CleanupCerts()
	os.Exit(code)
}

// Replaying reports whether this process only replays a saved case.
func Replaying() bool { return os.Getenv("VERIF_REPLAY") != "" }

func doReplay(path string) int {
	b, err := os.ReadFile(path)
	if err != nil {
		fmt.Printf("replay: %v\n", err)
		return 2
	}
	var rf replayFile
	if err := json.Unmarshal(b, &rf); err != nil {
		fmt.Printf("replay: %v\n", err)
		return 2
	}
	mu.Lock()
	fn := replayers[rf.Check]
	mu.Unlock()
	if fn == nil {
		fmt.Printf("replay: unknown check %q\n", rf.Check)
		return 2
	}
	err = fn(rf.Case)
	if err != nil && !IsInconclusive(err) {
		fmt.Printf("VIOLATION property=%s replay=%s\n  check=%s error=%s\n", rf.Property, path, rf.Check, oneLine(err.Error()))
		return 1
	}
	fmt.Printf("replay %s: property held (%v)\n", path, err)
	return 0
}

// ---- known findings -------------------------------------------------------

var (
	knownOnce sync.Once
	knownSet  map[string]string
)

func loadKnown() {
	knownSet = map[string]string{}
	p := os.Getenv("VERIF_KNOWN")
	if p == "" {
		p = "/verif/known_findings.txt"
	}
	b, err := os.ReadFile(p)
	if err != nil {
		return
	}
	for _, line := range strings.Split(string(b), "\n") {
		line = strings.TrimSpace(line)
		if !strings.HasPrefix(line, "finding:") {
			continue
		}
		var prop, key string
		for _, f := range strings.Fields(line) {
			if strings.HasPrefix(f, "property=") {
				prop = strings.TrimPrefix(f, "property=")
			}
			if strings.HasPrefix(f, "key=") {
				key = strings.TrimPrefix(f, "key=")
			}
		}
		if prop != "" && key != "" {
			knownSet[prop+"/"+key] = line
		}
	}
}

// Known reports whether a finding with this key is listed in known_findings.txt.
func Known(prop, key string) bool {
	knownOnce.Do(loadKnown)
	_, ok := knownSet[prop+"/"+key]
	return ok
}

// KnownFinding handles the outcome of a deterministic probe for a listed or
// unlisted finding: err is what the probe observed (nil = property holds).
// Listed + reproduces -> KNOWN-FINDING line, no violation. Unlisted + reproduces
// -> violation. Listed + no longer reproduces -> note only.
func KnownFinding(t *testing.T, prop, name, key string, c any, err error) {
	if IsInconclusive(err) {
		Note(name, "%s", err.Error())
		return
	}
	listed := Known(prop, key)
	switch {
	case err != nil && listed:
		fmt.Printf("KNOWN-FINDING: property=%s key=%s %s\n", prop, key, oneLine(err.Error()))
		mu.Lock()
		stats.Known = append(stats.Known, key)
		mu.Unlock()
	case err != nil:
		ReportViolation(prop, name, c, err)
		t.Errorf("%s/%s: %v", prop, name, err)
	case listed:
		Note(name, "listed finding %s no longer reproduces", key)
	}
}
