//go:build verif

package fx

import (
	"fmt"
	"time"

	"github.com/fatedier/frp/server"
)

const Hooked = true

type Snapshot = server.VerifSnapshot

// Snapshot returns the server's internal tables (accessor hook). The accessors take the tables' own locks; if the
// code under test has left one of them held for good, the snapshot never comes back - the caller then gets nil
// (as without hooks) and a note, and goes on to observe the stall through the protocol.
func (s *Server) Snapshot() *Snapshot {
	ch := make(chan *Snapshot, 1)
	go func() {
		v := s.Svc.VerifSnapshot()
		ch <- &v
	}()
	select {
	case v := <-ch:
		return v
	case <-time.After(5 * time.Second):
		fmt.Printf("NOTE snapshot: the server's tables could not be read within 5 s (a lock is held)\n")
		return nil
	}
}
