//go:build verif

package fx

import "github.com/fatedier/frp/server"

const Hooked = true

type Snapshot = server.VerifSnapshot

// Snapshot returns the server's internal tables (accessor hook).
func (s *Server) Snapshot() *Snapshot {
	v := s.Svc.VerifSnapshot()
	return &v
}
