//go:build verif

package fx

func (s *Server) closeExtra() bool { s.Svc.VerifCloseExtra(); return true }
