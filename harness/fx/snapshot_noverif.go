//go:build !verif

package fx

const Hooked = false

type Snapshot struct {
	Sessions     []string
	Proxies      []string
	SessionPxys  map[string]int
	PortsUsedNum map[string]int
	Pooled       map[string]int
	TCPUsed      []int
	UDPUsed      []int
	TCPFree      int
	UDPFree      int
	Visitors     []string
	TCPGroups    []string
	HTTPGroups   []string
	TCPMuxGroups []string
	HTTPRoutes   int
	HTTPSRoutes  int
	TCPMuxRoutes int
	NatSessions  int
	NatClients   int
}

// Snapshot is unavailable without hooks: returns nil (callers skip those oracles).
func (s *Server) Snapshot() *Snapshot { return nil }
