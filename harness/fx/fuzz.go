package fx

import (
	"fmt"
	"testing"

	"pgregory.net/rapid"
)

// Fuzz drives a spec's generator with Go's native coverage-guided fuzzer: the fuzz input bytes are the
// random source of the rapid generators (rapid.MakeFuzz), so the fuzzer mutates towards new coverage in the
// code under test while every input stays inside the generator's domain. The oracle is the spec's Run.
// A failure is written as a JSON replay (same format as the rapid tier) before the fuzzer records its
// own crasher, so `./check <ID> --replay <file>` re-runs it without the fuzzer.
func Fuzz[C any](f *testing.F, s Spec[C]) {
	register(s)
	f.Fuzz(rapid.MakeFuzz(func(rt *rapid.T) {
		c := s.Gen(rt)
		var err error
		func() {
			defer func() {
				if r := recover(); r != nil {
					err = fmt.Errorf("panic: %v", r)
				}
			}()
			err = s.Run(c)
		}()
		if err == nil || IsInconclusive(err) {
			return
		}
		ReportViolation(s.Prop, s.Name, c, err)
		rt.Fatalf("%s/%s violated: %v", s.Prop, s.Name, err)
	}))
}
