package fx

import (
	"bufio"
	"context"
	"errors"
	"fmt"
	"io"
	"net"
	"net/http"
	"strings"
	"sync"
	"time"

	"github.com/samber/lo"

	"github.com/fatedier/frp/client"
	v1 "github.com/fatedier/frp/pkg/config/v1"
	"github.com/fatedier/frp/pkg/msg"
	netpkg "github.com/fatedier/frp/pkg/util/net"
	"github.com/fatedier/frp/pkg/util/util"
)

// ScriptedClient speaks frpc's side of the control protocol by hand. It owns
// message order, timing, omission and the point at which connections drop.
type ScriptedClient struct {
	LoginRespTimeout time.Duration // how long SendLogin waits for the LoginResp (default 10 s)
	Common    *v1.ClientCommonConfig
	Connector client.Connector
	Conn      net.Conn      // control connection (raw)
	RW        io.ReadWriter // control channel after login (AES-CFB keyed by token)
	RunID     string
	LoginResp msg.LoginResp
	Token     string

	mu         sync.Mutex
	cond       *sync.Cond
	proxyResps map[string][]*msg.NewProxyResp
	reqWork    int // number of ReqWorkConn received
	pongs      []*msg.Pong
	nathole    []*msg.NatHoleResp
	others     []msg.Message
	readErr    error
	closed     bool
	wmu        sync.Mutex

	// AutoWork, when set before Login, answers every ReqWorkConn by opening a work
	// connection; the handler gets the connection after StartWorkConn was read.
	AutoWork func(sc *ScriptedClient, wc net.Conn, start *msg.StartWorkConn)
	// Log of every StartWorkConn received on auto work connections.
	Starts []msg.StartWorkConn
	// WorkConns opened automatically that are still waiting for StartWorkConn or in use.
	autoConns []net.Conn
	autoWG    sync.WaitGroup
	noAuto    bool
	// SignWork, when set, fills the credential fields of automatically opened work connections.
	SignWork func(m *msg.NewWorkConn)
}

type ClientOpt func(*v1.ClientCommonConfig)

// ScriptedCommon builds a client common config for scripted peers: TLS off by
// default (opts can turn it on), tcpMux as the server has it.
func ScriptedCommon(s *Server, opts ...ClientOpt) *v1.ClientCommonConfig {
	c := BaseClientConfig(s)
	c.Transport.TLS.Enable = lo.ToPtr(false)
	c.Transport.TCPMux = lo.ToPtr(lo.FromPtr(s.Cfg.Transport.TCPMux))
	for _, o := range opts {
		o(c)
	}
	c.Complete()
	return c
}

// Dial opens the underlying transport and one control stream but sends nothing.
func Dial(common *v1.ClientCommonConfig) (*ScriptedClient, error) {
	ctx := context.Background()
	conn := client.NewConnector(ctx, common)
	if err := conn.Open(); err != nil {
		return nil, err
	}
	c, err := conn.Connect()
	if err != nil {
		conn.Close()
		return nil, err
	}
	sc := &ScriptedClient{Common: common, Connector: conn, Conn: c, Token: common.Auth.Token, proxyResps: map[string][]*msg.NewProxyResp{}}
	sc.cond = sync.NewCond(&sc.mu)
	return sc, nil
}

// LoginMsg builds a well-formed login for this client.
func (sc *ScriptedClient) LoginMsg(user, runID string, poolCount int) *msg.Login {
	ts := time.Now().Unix()
	return &msg.Login{Version: "0.62.0", Os: "linux", Arch: "amd64", User: user, Timestamp: ts, RunID: runID,
		PrivilegeKey: util.GetAuthKey(sc.Token, ts), PoolCount: poolCount}
}

// SendLogin writes the login, reads the plain LoginResp and, on success, starts
// the reader of the encrypted control channel.
func (sc *ScriptedClient) SendLogin(l *msg.Login) error {
	if err := msg.WriteMsg(sc.Conn, l); err != nil {
		return err
	}
	to := sc.LoginRespTimeout
	if to <= 0 {
		to = 10 * time.Second
	}
	_ = sc.Conn.SetReadDeadline(time.Now().Add(to))
	if err := msg.ReadMsgInto(sc.Conn, &sc.LoginResp); err != nil {
		return fmt.Errorf("read LoginResp: %w", err)
	}
	_ = sc.Conn.SetReadDeadline(time.Time{})
	if sc.LoginResp.Error != "" {
		return &LoginRefused{sc.LoginResp.Error}
	}
	sc.RunID = sc.LoginResp.RunID
	rw, err := netpkg.NewCryptoReadWriter(sc.Conn, []byte(sc.Token))
	if err != nil {
		return err
	}
	sc.RW = rw
	go sc.readLoop()
	return nil
}

type LoginRefused struct{ Msg string }

func (e *LoginRefused) Error() string { return "login refused: " + e.Msg }

// Connect = Dial + Login with defaults.
func Connect(s *Server, user string, poolCount int, opts ...ClientOpt) (*ScriptedClient, error) {
	return ConnectCommon(ScriptedCommon(s, opts...), user, "", poolCount, nil)
}

func ConnectCommon(common *v1.ClientCommonConfig, user, runID string, poolCount int, auto func(*ScriptedClient, net.Conn, *msg.StartWorkConn)) (*ScriptedClient, error) {
	sc, err := Dial(common)
	if err != nil {
		return nil, err
	}
	sc.AutoWork = auto
	if err := sc.SendLogin(sc.LoginMsg(user, runID, poolCount)); err != nil {
		sc.Close()
		return nil, err
	}
	return sc, nil
}

func (sc *ScriptedClient) readLoop() {
	for {
		m, err := msg.ReadMsg(sc.RW)
		sc.mu.Lock()
		if err != nil {
			sc.readErr = err
			sc.cond.Broadcast()
			sc.mu.Unlock()
			return
		}
		switch v := m.(type) {
		case *msg.NewProxyResp:
			sc.proxyResps[v.ProxyName] = append(sc.proxyResps[v.ProxyName], v)
		case *msg.ReqWorkConn:
			sc.reqWork++
			if sc.AutoWork != nil && !sc.closed && !sc.noAuto {
				sc.autoWG.Add(1)
				go sc.autoWork()
			}
		case *msg.Pong:
			sc.pongs = append(sc.pongs, v)
		case *msg.NatHoleResp:
			sc.nathole = append(sc.nathole, v)
		default:
			sc.others = append(sc.others, m)
		}
		sc.cond.Broadcast()
		sc.mu.Unlock()
	}
}

// StopAuto stops answering ReqWorkConn and waits until every answer already
// under way has sent its NewWorkConn.
func (sc *ScriptedClient) StopAuto() {
	sc.mu.Lock()
	sc.noAuto = true
	sc.mu.Unlock()
	sc.autoWG.Wait()
}

func (sc *ScriptedClient) autoWork() {
	wc, err := sc.OpenWorkConn(sc.RunID)
	sc.autoWG.Done()
	if err != nil {
		return
	}
	sc.mu.Lock()
	sc.autoConns = append(sc.autoConns, wc)
	sc.mu.Unlock()
	start, err := ReadStart(wc, 0)
	if err != nil {
		wc.Close()
		return
	}
	sc.mu.Lock()
	sc.Starts = append(sc.Starts, *start)
	h := sc.AutoWork
	sc.cond.Broadcast()
	sc.mu.Unlock()
	if start.Error != "" || h == nil {
		wc.Close()
		return
	}
	h(sc, wc, start)
}

// Send writes one control message.
func (sc *ScriptedClient) Send(m any) error {
	sc.wmu.Lock()
	defer sc.wmu.Unlock()
	if sc.RW == nil {
		return errors.New("not logged in")
	}
	return msg.WriteMsg(sc.RW, m)
}

// wait blocks until pred holds, the control connection fails or the timeout expires.
func (sc *ScriptedClient) wait(timeout time.Duration, pred func() bool) error {
	deadline := time.Now().Add(timeout)
	timer := time.AfterFunc(timeout, func() { sc.mu.Lock(); sc.cond.Broadcast(); sc.mu.Unlock() })
	defer timer.Stop()
	sc.mu.Lock()
	defer sc.mu.Unlock()
	for !pred() {
		if sc.readErr != nil {
			return fmt.Errorf("control connection ended: %w", sc.readErr)
		}
		if time.Now().After(deadline) {
			return errTimeout
		}
		sc.cond.Wait()
	}
	return nil
}

var errTimeout = errors.New("timeout")

func IsTimeout(err error) bool { return errors.Is(err, errTimeout) }

// NewProxy sends the registration and waits for its response.
func (sc *ScriptedClient) NewProxy(m *msg.NewProxy, timeout time.Duration) (*msg.NewProxyResp, error) {
	sc.mu.Lock()
	before := len(sc.proxyResps[m.ProxyName])
	sc.mu.Unlock()
	if err := sc.Send(m); err != nil {
		return nil, err
	}
	var resp *msg.NewProxyResp
	err := sc.wait(timeout, func() bool {
		if l := sc.proxyResps[m.ProxyName]; len(l) > before {
			resp = l[before]
			return true
		}
		return false
	})
	return resp, err
}

func (sc *ScriptedClient) CloseProxy(name string) error {
	return sc.Send(&msg.CloseProxy{ProxyName: name})
}

// Ping sends a ping and waits for the next pong.
func (sc *ScriptedClient) Ping(p *msg.Ping, timeout time.Duration) (*msg.Pong, error) {
	sc.mu.Lock()
	before := len(sc.pongs)
	sc.mu.Unlock()
	if err := sc.Send(p); err != nil {
		return nil, err
	}
	var pong *msg.Pong
	err := sc.wait(timeout, func() bool {
		if len(sc.pongs) > before {
			pong = sc.pongs[before]
			return true
		}
		return false
	})
	return pong, err
}

// Sync makes sure the server has processed everything sent so far on the control
// channel (handlers for NewProxy/CloseProxy/Ping run in order on one goroutine).
func (sc *ScriptedClient) Sync(timeout time.Duration) error {
	_, err := sc.Ping(&msg.Ping{}, timeout)
	return err
}

func (sc *ScriptedClient) ReqWorkCount() int {
	sc.mu.Lock()
	defer sc.mu.Unlock()
	return sc.reqWork
}

// WaitReqWork waits until at least n ReqWorkConn messages have arrived.
func (sc *ScriptedClient) WaitReqWork(n int, timeout time.Duration) error {
	return sc.wait(timeout, func() bool { return sc.reqWork >= n })
}

func (sc *ScriptedClient) NatHoleResps() []*msg.NatHoleResp {
	sc.mu.Lock()
	defer sc.mu.Unlock()
	return append([]*msg.NatHoleResp(nil), sc.nathole...)
}

func (sc *ScriptedClient) WaitNatHole(n int, timeout time.Duration) error {
	return sc.wait(timeout, func() bool { return len(sc.nathole) >= n })
}

func (sc *ScriptedClient) StartsSeen() []msg.StartWorkConn {
	sc.mu.Lock()
	defer sc.mu.Unlock()
	return append([]msg.StartWorkConn(nil), sc.Starts...)
}

// ControlAlive reports whether the control channel reader is still running.
func (sc *ScriptedClient) ControlAlive() bool {
	sc.mu.Lock()
	defer sc.mu.Unlock()
	return sc.readErr == nil
}

// WaitControlClosed waits until the server closed the control connection.
func (sc *ScriptedClient) WaitControlClosed(timeout time.Duration) error {
	deadline := time.Now().Add(timeout)
	timer := time.AfterFunc(timeout, func() { sc.mu.Lock(); sc.cond.Broadcast(); sc.mu.Unlock() })
	defer timer.Stop()
	sc.mu.Lock()
	defer sc.mu.Unlock()
	for sc.readErr == nil {
		if time.Now().After(deadline) {
			return errTimeout
		}
		sc.cond.Wait()
	}
	return nil
}

// OpenWorkConn dials a new connection/stream and sends NewWorkConn for runID.
func (sc *ScriptedClient) OpenWorkConn(runID string) (net.Conn, error) {
	m := &msg.NewWorkConn{RunID: runID}
	if sc.SignWork != nil {
		sc.SignWork(m)
	}
	return sc.OpenWorkConnMsg(m)
}

func (sc *ScriptedClient) OpenWorkConnMsg(m *msg.NewWorkConn) (net.Conn, error) {
	wc, err := sc.Connector.Connect()
	if err != nil {
		return nil, err
	}
	if err := msg.WriteMsg(wc, m); err != nil {
		wc.Close()
		return nil, err
	}
	return wc, nil
}

// RawConn dials a new connection/stream to the server without sending anything.
func (sc *ScriptedClient) RawConn() (net.Conn, error) { return sc.Connector.Connect() }

// ReadStart reads the StartWorkConn on a work connection (timeout 0 = none).
func ReadStart(wc net.Conn, timeout time.Duration) (*msg.StartWorkConn, error) {
	if timeout > 0 {
		_ = wc.SetReadDeadline(time.Now().Add(timeout))
		defer wc.SetReadDeadline(time.Time{})
	}
	var s msg.StartWorkConn
	if err := msg.ReadMsgInto(wc, &s); err != nil {
		return nil, err
	}
	return &s, nil
}

// Drop closes the control connection and the transport abruptly.
func (sc *ScriptedClient) Drop() { sc.Close() }

func (sc *ScriptedClient) Close() {
	sc.mu.Lock()
	sc.closed = true
	conns := sc.autoConns
	sc.autoConns = nil
	sc.mu.Unlock()
	if sc.Conn != nil {
		sc.Conn.Close()
	}
	for _, c := range conns {
		c.Close()
	}
	if sc.Connector != nil {
		sc.Connector.Close()
	}
}

// ---------- simple work-connection handlers --------------------------------------

// EchoWork echoes everything back on the work connection (no wrappers).
func EchoWork(_ *ScriptedClient, wc net.Conn, _ *msg.StartWorkConn) {
	defer wc.Close()
	_, _ = io.Copy(wc, wc)
}

// TagWork answers with "<tag>:<proxyname>\n" then echoes: identifies which
// session/backend served a user connection.
func TagWork(tag string) func(*ScriptedClient, net.Conn, *msg.StartWorkConn) {
	return func(_ *ScriptedClient, wc net.Conn, s *msg.StartWorkConn) {
		defer wc.Close()
		_, _ = wc.Write([]byte(tag + ":" + s.ProxyName + "\n"))
		_, _ = io.Copy(wc, wc)
	}
}

// VisitorConn opens a visitor connection for an stcp/sudp proxy through the
// visitor's own transport and returns the connection after the response.
func (sc *ScriptedClient) VisitorConn(m *msg.NewVisitorConn, timeout time.Duration) (net.Conn, *msg.NewVisitorConnResp, error) {
	c, err := sc.Connector.Connect()
	if err != nil {
		return nil, nil, err
	}
	if err := msg.WriteMsg(c, m); err != nil {
		c.Close()
		return nil, nil, err
	}
	_ = c.SetReadDeadline(time.Now().Add(timeout))
	var resp msg.NewVisitorConnResp
	if err := msg.ReadMsgInto(c, &resp); err != nil {
		c.Close()
		return nil, nil, err
	}
	_ = c.SetReadDeadline(time.Time{})
	return c, &resp, nil
}

// SignedVisitor builds a correctly signed NewVisitorConn.
func SignedVisitor(runID, proxy, sk string) *msg.NewVisitorConn {
	ts := time.Now().Unix()
	return &msg.NewVisitorConn{RunID: runID, ProxyName: proxy, Timestamp: ts, SignKey: util.GetAuthKey(sk, ts)}
}

// ReadLine reads up to the first '\n' with a deadline.
func ReadLine(c net.Conn, timeout time.Duration) (string, error) {
	_ = c.SetReadDeadline(time.Now().Add(timeout))
	defer c.SetReadDeadline(time.Time{})
	var out []byte
	b := make([]byte, 1)
	for len(out) < 4096 {
		n, err := c.Read(b)
		if n == 1 {
			if b[0] == '\n' {
				return string(out), nil
			}
			out = append(out, b[0])
		}
		if err != nil {
			return string(out), err
		}
	}
	return string(out), fmt.Errorf("line too long")
}

// HTTPTagWork answers every HTTP request on the work connection with a 200 whose
// body is "<tag>:<proxyname>" and closes (no keep-alive): identifies the member
// that served a request through the vhost HTTP reverse proxy.
func HTTPTagWork(tag string) func(*ScriptedClient, net.Conn, *msg.StartWorkConn) {
	return func(_ *ScriptedClient, wc net.Conn, s *msg.StartWorkConn) {
		defer wc.Close()
		br := bufio.NewReader(wc)
		for {
			line, err := br.ReadString('\n')
			if err != nil {
				return
			}
			if line == "\r\n" || line == "\n" {
				break
			}
		}
		body := tag + ":" + s.ProxyName
		fmt.Fprintf(wc, "HTTP/1.1 200 OK\r\nContent-Length: %d\r\nConnection: close\r\nX-Served-By: %s\r\n\r\n%s", len(body), body, body)
	}
}

// UDPSinkWork behaves like frpc on a udp proxy's work connection: it reads
// protocol messages (UDPPacket, Ping) until the server closes the connection.
func UDPSinkWork(_ *ScriptedClient, wc net.Conn, _ *msg.StartWorkConn) {
	defer wc.Close()
	for {
		if _, err := msg.ReadMsg(wc); err != nil {
			return
		}
	}
}

// KindWork dispatches by proxy name: names starting with "h" speak HTTP, names
// containing "udp" get the udp message loop, everything else the tag line + echo.
func KindWork(tag string) func(*ScriptedClient, net.Conn, *msg.StartWorkConn) {
	h, t := HTTPTagWork(tag), TagWork(tag)
	return func(sc *ScriptedClient, wc net.Conn, s *msg.StartWorkConn) {
		switch {
		case len(s.ProxyName) > 0 && s.ProxyName[0] == 'h':
			h(sc, wc, s)
		case strings.Contains(s.ProxyName, "udp"):
			UDPSinkWork(sc, wc, s)
		default:
			t(sc, wc, s)
		}
	}
}

// HTTPGet issues one HTTP/1.1 GET on a fresh connection and returns status and body.
func HTTPGet(addr, host, path string, hdr map[string]string, timeout time.Duration) (int, string, error) {
	c, err := net.DialTimeout("tcp", addr, timeout)
	if err != nil {
		return 0, "", err
	}
	defer c.Close()
	_ = c.SetDeadline(time.Now().Add(timeout))
	req := "GET " + path + " HTTP/1.1\r\nHost: " + host + "\r\nConnection: close\r\n"
	for k, v := range hdr {
		req += k + ": " + v + "\r\n"
	}
	req += "\r\n"
	if _, err := c.Write([]byte(req)); err != nil {
		return 0, "", err
	}
	resp, err := http.ReadResponse(bufio.NewReader(c), nil)
	if err != nil {
		return 0, "", err
	}
	defer resp.Body.Close()
	b, _ := io.ReadAll(io.LimitReader(resp.Body, 1<<20))
	return resp.StatusCode, string(b), nil
}

// Connect issues an HTTP CONNECT to a tcpmux port and returns the status and, on 200, the connection.
func HTTPConnect(addr, host string, hdr map[string]string, timeout time.Duration) (int, net.Conn, *bufio.Reader, error) {
	c, err := net.DialTimeout("tcp", addr, timeout)
	if err != nil {
		return 0, nil, nil, err
	}
	_ = c.SetDeadline(time.Now().Add(timeout))
	req := "CONNECT " + host + " HTTP/1.1\r\nHost: " + host + "\r\n"
	for k, v := range hdr {
		req += k + ": " + v + "\r\n"
	}
	req += "\r\n"
	if _, err := c.Write([]byte(req)); err != nil {
		c.Close()
		return 0, nil, nil, err
	}
	br := bufio.NewReader(c)
	resp, err := http.ReadResponse(br, &http.Request{Method: "CONNECT"})
	if err != nil {
		c.Close()
		return 0, nil, nil, err
	}
	if resp.StatusCode != 200 {
		c.Close()
		return resp.StatusCode, nil, nil, nil
	}
	_ = c.SetDeadline(time.Time{})
	return 200, c, br, nil
}

// PeekProxyResp returns the latest NewProxyResp received for a proxy name, if any.
func (sc *ScriptedClient) PeekProxyResp(name string) (*msg.NewProxyResp, int) {
	sc.mu.Lock()
	defer sc.mu.Unlock()
	l := sc.proxyResps[name]
	if len(l) == 0 {
		return nil, 0
	}
	return l[len(l)-1], len(l)
}

// HTTPKeepAliveWork serves any number of HTTP/1.1 requests on one work connection
// (keep-alive), each answered 200 with header X-Owner and body "<tag>:<proxyname>":
// lets the vhost reverse proxy pool and reuse connections to this backend.
func HTTPKeepAliveWork(tag string) func(*ScriptedClient, net.Conn, *msg.StartWorkConn) {
	return func(_ *ScriptedClient, wc net.Conn, s *msg.StartWorkConn) {
		defer wc.Close()
		br := bufio.NewReader(wc)
		for {
			req, err := http.ReadRequest(br)
			if err != nil {
				return
			}
			if req.Body != nil {
				_, _ = io.Copy(io.Discard, req.Body)
				req.Body.Close()
			}
			body := tag + ":" + s.ProxyName
			if _, err := fmt.Fprintf(wc, "HTTP/1.1 200 OK\r\nContent-Length: %d\r\nX-Owner: %s\r\nX-Seen-Host: %s\r\n\r\n%s", len(body), body, req.Host, body); err != nil {
				return
			}
		}
	}
}
