package fx

import (
	"encoding/json"
	"os"
)

func getenv(k string) string { return os.Getenv(k) }

func jsonMarshal(v any) ([]byte, error) { return json.Marshal(v) }
