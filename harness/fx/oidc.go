package fx

import (
	"crypto"
	"crypto/rand"
	"crypto/rsa"
	"crypto/sha256"
	"encoding/base64"
	"encoding/json"
	"fmt"
	"math/big"
	"net/http"
	"net/http/httptest"
	"sync"
	"time"
)

// Issuer is an in-harness OIDC issuer: discovery + JWKS served by httptest,
// RS256 tokens signed by hand.
type Issuer struct {
	Srv      *httptest.Server
	Key      *rsa.PrivateKey
	OtherKey *rsa.PrivateKey // not published: "wrong signature"
}

var (
	issuerOnce sync.Once
	issuer     *Issuer
)

func b64(b []byte) string { return base64.RawURLEncoding.EncodeToString(b) }

func GetIssuer() *Issuer {
	issuerOnce.Do(func() {
		k, _ := rsa.GenerateKey(rand.Reader, 2048)
		k2, _ := rsa.GenerateKey(rand.Reader, 2048)
		is := &Issuer{Key: k, OtherKey: k2}
		mux := http.NewServeMux()
		is.Srv = httptest.NewServer(mux)
		mux.HandleFunc("/.well-known/openid-configuration", func(w http.ResponseWriter, r *http.Request) {
			_ = json.NewEncoder(w).Encode(map[string]any{
				"issuer": is.Srv.URL, "jwks_uri": is.Srv.URL + "/jwks", "authorization_endpoint": is.Srv.URL + "/auth",
				"token_endpoint": is.Srv.URL + "/token", "id_token_signing_alg_values_supported": []string{"RS256"},
			})
		})
		mux.HandleFunc("/jwks", func(w http.ResponseWriter, r *http.Request) {
			_ = json.NewEncoder(w).Encode(map[string]any{"keys": []any{map[string]any{
				"kty": "RSA", "alg": "RS256", "use": "sig", "kid": "k1",
				"n": b64(k.N.Bytes()), "e": b64(big.NewInt(int64(k.E)).Bytes()),
			}}})
		})
		issuer = is
	})
	return issuer
}

// JWTOpts selects how a token deviates from a valid one.
type JWTOpts struct {
	Sub      string
	Aud      string
	Iss      string // "" = issuer URL
	Expired  bool
	ExpIn    time.Duration // non-zero: the token expires that long from now
	WrongKey bool
	AlgNone  bool
}

func (is *Issuer) Token(o JWTOpts) string {
	hdr := map[string]any{"alg": "RS256", "kid": "k1", "typ": "JWT"}
	if o.AlgNone {
		hdr = map[string]any{"alg": "none", "typ": "JWT"}
	}
	iss := o.Iss
	if iss == "" {
		iss = is.Srv.URL
	}
	exp := time.Now().Add(time.Hour).Unix()
	if o.Expired {
		exp = time.Now().Add(-time.Hour).Unix()
	}
	if o.ExpIn != 0 {
		exp = time.Now().Add(o.ExpIn).Unix()
	}
	claims := map[string]any{"iss": iss, "sub": o.Sub, "aud": o.Aud, "exp": exp, "iat": time.Now().Add(-time.Minute).Unix()}
	h, _ := json.Marshal(hdr)
	c, _ := json.Marshal(claims)
	signing := b64(h) + "." + b64(c)
	if o.AlgNone {
		return signing + "."
	}
	key := is.Key
	if o.WrongKey {
		key = is.OtherKey
	}
	sum := sha256.Sum256([]byte(signing))
	sig, err := rsa.SignPKCS1v15(rand.Reader, key, crypto.SHA256, sum[:])
	if err != nil {
		panic(fmt.Sprint(err))
	}
	return signing + "." + b64(sig)
}
