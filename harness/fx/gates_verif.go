//go:build verif

package fx

import (
	"sync"
	"time"

	"github.com/fatedier/frp/pkg/util/verifhook"
)

// Gate holds the n-th arrival at a named point (matching keys) until released.
type Gate struct {
	point    string
	match    func(keys []string) bool
	nth      int
	count    int
	arrived  chan struct{}
	release  chan struct{}
	released bool
}

var (
	gateMu sync.Mutex
	gates  []*Gate
	gateOn sync.Once
)

const GatesAvailable = true

func gateHandler(point string, keys []string) {
	gateMu.Lock()
	var hold *Gate
	for _, g := range gates {
		if g.point != point || g.released {
			continue
		}
		if g.match != nil && !g.match(keys) {
			continue
		}
		g.count++
		if g.count == g.nth {
			hold = g
			break
		}
	}
	gateMu.Unlock()
	if hold == nil {
		return
	}
	close(hold.arrived)
	select {
	case <-hold.release:
	case <-time.After(15 * time.Second): // safety: never wedge the server for good
	}
}

// HoldGate arms a gate: the nth matching arrival at point blocks until Release.
func HoldGate(point string, nth int, match func(keys []string) bool) *Gate {
	gateOn.Do(func() { verifhook.Set(gateHandler) })
	g := &Gate{point: point, match: match, nth: nth, arrived: make(chan struct{}), release: make(chan struct{})}
	gateMu.Lock()
	gates = append(gates, g)
	gateMu.Unlock()
	return g
}

// WaitArrived reports whether the held arrival happened within the timeout.
func (g *Gate) WaitArrived(timeout time.Duration) bool {
	select {
	case <-g.arrived:
		return true
	case <-time.After(timeout):
		return false
	}
}

func (g *Gate) Release() {
	gateMu.Lock()
	if !g.released {
		g.released = true
		close(g.release)
	}
	gateMu.Unlock()
}

// ClearGates releases and removes all gates.
func ClearGates() {
	gateMu.Lock()
	for _, g := range gates {
		if !g.released {
			g.released = true
			close(g.release)
		}
	}
	gates = nil
	gateMu.Unlock()
}

func KeyIs(i int, v string) func([]string) bool {
	return func(k []string) bool { return len(k) > i && k[i] == v }
}
