package fx

import (
	"crypto/ecdsa"
	"crypto/elliptic"
	"crypto/rand"
	"crypto/x509"
	"crypto/x509/pkix"
	"encoding/pem"
	"math/big"
	"net"
	"os"
	"path/filepath"
	"sync"
	"time"
)

// Certs holds pre-made certificates (ECDSA P-256, cheap) in a per-process temp dir.
type Certs struct {
	Dir                         string
	CA, ServerCert, ServerKey   string // CA-signed server cert for names localhost/frps.test/127.0.0.1
	ClientCert, ClientKey       string // CA-signed client cert
	OtherCA                     string // a foreign CA
	OtherCert, OtherKey         string // cert signed by the foreign CA (same names)
	SelfCert, SelfKey           string // self-signed
	WrongNameCert, WrongNameKey string // CA-signed but for name other.test only
}

var (
	certOnce sync.Once
	certs    *Certs
)

func writePEM(path, typ string, der []byte) {
	_ = os.WriteFile(path, pem.EncodeToMemory(&pem.Block{Type: typ, Bytes: der}), 0o600)
}

func mkCert(dir, name string, tmpl *x509.Certificate, parent *x509.Certificate, parentKey *ecdsa.PrivateKey) (*x509.Certificate, *ecdsa.PrivateKey, string, string) {
	key, _ := ecdsa.GenerateKey(elliptic.P256(), rand.Reader)
	if parent == nil {
		parent, parentKey = tmpl, key
	}
	der, err := x509.CreateCertificate(rand.Reader, tmpl, parent, &key.PublicKey, parentKey)
	if err != nil {
		panic(err)
	}
	c, _ := x509.ParseCertificate(der)
	cp, kp := filepath.Join(dir, name+".crt"), filepath.Join(dir, name+".key")
	writePEM(cp, "CERTIFICATE", der)
	kder, _ := x509.MarshalECPrivateKey(key)
	writePEM(kp, "EC PRIVATE KEY", kder)
	return c, key, cp, kp
}

var certDir string

// CleanupCerts removes the per-process certificate directory (called by Main on exit).
func CleanupCerts() {
	if certDir != "" {
		_ = os.RemoveAll(certDir)
	}
}

func GetCerts() *Certs {
	certOnce.Do(func() {
		dir, err := os.MkdirTemp("", "frp-verif-certs")
		if err != nil {
			panic(err)
		}
		certDir = dir
		serial := int64(100)
		tmpl := func(cn string, ca bool, names ...string) *x509.Certificate {
			serial++
			t := &x509.Certificate{
				SerialNumber: big.NewInt(serial), Subject: pkix.Name{CommonName: cn},
				NotBefore: time.Now().Add(-time.Hour), NotAfter: time.Now().Add(240 * time.Hour),
				KeyUsage:    x509.KeyUsageDigitalSignature | x509.KeyUsageKeyEncipherment,
				ExtKeyUsage: []x509.ExtKeyUsage{x509.ExtKeyUsageServerAuth, x509.ExtKeyUsageClientAuth},
				DNSNames:    names, BasicConstraintsValid: true,
			}
			if ca {
				t.IsCA = true
				t.KeyUsage |= x509.KeyUsageCertSign
			} else if len(names) > 0 && names[0] != "other.test" {
				t.IPAddresses = []net.IP{net.ParseIP("127.0.0.1")}
			}
			return t
		}
		c := &Certs{Dir: dir}
		ca, caKey, caPath, _ := mkCert(dir, "ca", tmpl("verif-ca", true), nil, nil)
		c.CA = caPath
		_, _, c.ServerCert, c.ServerKey = mkCert(dir, "server", tmpl("frps", false, "localhost", "frps.test"), ca, caKey)
		_, _, c.ClientCert, c.ClientKey = mkCert(dir, "client", tmpl("frpc", false, "frpc.test"), ca, caKey)
		_, _, c.WrongNameCert, c.WrongNameKey = mkCert(dir, "wrongname", tmpl("other", false, "other.test"), ca, caKey)
		oca, ocaKey, ocaPath, _ := mkCert(dir, "otherca", tmpl("other-ca", true), nil, nil)
		c.OtherCA = ocaPath
		_, _, c.OtherCert, c.OtherKey = mkCert(dir, "other", tmpl("frps", false, "localhost", "frps.test"), oca, ocaKey)
		_, _, c.SelfCert, c.SelfKey = mkCert(dir, "self", tmpl("self", false, "localhost", "frps.test"), nil, nil)
		certs = c
	})
	return certs
}
