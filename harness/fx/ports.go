package fx

import (
	"fmt"
	"net"
	"os"
	"path/filepath"
	"sync"
	"syscall"
)

// Port leasing: blocks of BlockSize consecutive non-ephemeral ports, leased with
// flock on files in os.TempDir()/frp-verif-ports so that parallel shards and
// parallel checks never collide. A block is held for the life of the process
// and reused by the sequential worlds of that process.

const (
	BlockSize  = 40
	portBase   = 10000
	portBlocks = 540 // 10000 .. 31600
)

type Block struct {
	Base int
	f    *os.File
}

var (
	portMu     sync.Mutex
	freeBlocks []*Block
	nextProbe  int
)

func leaseNew() (*Block, error) {
	dir := filepath.Join(os.TempDir(), "frp-verif-ports")
	_ = os.MkdirAll(dir, 0o777)
	start := (os.Getpid()*7 + nextProbe) % portBlocks
	for i := 0; i < portBlocks; i++ {
		idx := (start + i) % portBlocks
		f, err := os.OpenFile(filepath.Join(dir, fmt.Sprintf("block%03d.lock", idx)), os.O_CREATE|os.O_RDWR, 0o666)
		if err != nil {
			continue
		}
		if err := syscall.Flock(int(f.Fd()), syscall.LOCK_EX|syscall.LOCK_NB); err != nil {
			f.Close()
			continue
		}
		nextProbe = idx + 1
		b := &Block{Base: portBase + idx*BlockSize, f: f}
		if !b.allFree() {
			// somebody outside the lease protocol uses a port of this block: keep the
			// lock (so nobody else trips over it either) and try the next one
			continue
		}
		return b, nil
	}
	return nil, fmt.Errorf("no free port block")
}

func (b *Block) allFree() bool {
	for p := b.Base; p < b.Base+BlockSize; p++ {
		l, err := net.Listen("tcp", fmt.Sprintf("127.0.0.1:%d", p))
		if err != nil {
			return false
		}
		l.Close()
	}
	return true
}

// Lease returns a block of BlockSize ports that no other harness process uses.
func Lease() (*Block, error) {
	portMu.Lock()
	defer portMu.Unlock()
	if n := len(freeBlocks); n > 0 {
		// FIFO reuse so that a block rests before it is used again
		b := freeBlocks[0]
		freeBlocks = freeBlocks[1:]
		return b, nil
	}
	return leaseNew()
}

// Release puts the block back into this process's pool.
func (b *Block) Release() {
	portMu.Lock()
	defer portMu.Unlock()
	freeBlocks = append(freeBlocks, b)
}

// Drop gives up a block for good (something is wrong with its ports).
func (b *Block) Drop() {}

// Prelease makes sure the process pool holds at least n blocks, so that
// successive worlds rotate over several blocks.
func Prelease(n int) {
	var got []*Block
	for i := 0; i < n; i++ {
		b, err := Lease()
		if err != nil {
			break
		}
		got = append(got, b)
	}
	for _, b := range got {
		b.Release()
	}
}

func (b *Block) Port(i int) int { return b.Base + i }
