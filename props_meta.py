"""Per-property metadata for the driver: shard counts, wall limits, evidence rule text."""

ADDENDA = {
    "C11": " Behaviour 'reset': the work connection is delivered and then aborted (RST) while it sits in the pool, so the server's StartWorkConn write fails.",
    "C01": " long_lived: connections that still carry data 30 s after accept. abort_then_transfer: an aborted connection followed by a full transfer on the same proxy.",
    "C02": " http routes are in a third of the cases the only member of a load-balancing group (the route is then made by the group controller, not by the proxy).",
    "C03": " Faults: the control connection is cut (udp and sudp) or the backend goes away for a while; after the fault the sender pauses longer than the re-establishment window, so later datagrams are outside the exclusion.",
    "C04": " ssh_gateway ops (thorough and quick): logins through the ssh tunnel gateway with authorized / unauthorized keys. invalid_heartbeats: a session fed only wrong-key heartbeats must end by the heartbeat timeout. sequences also runs the ssh gateway WITHOUT authorized_keys (any ssh peer passes the ssh 'none' method; the token given on the command line is the credential): with the right token the tunnel comes up, with a wrong / empty / absent token no session and no proxy may appear. oidc_token_expiry: the session logs in with an OIDC token that expires 2..3 s later, presents it 0..3 more times while valid and keeps itself alive with fresh tokens; after the expiry a work connection carrying the old token must be refused and closed, and heartbeats carrying it must not keep the session alive. invalid_heartbeats: in half of the cases the session also sends a CloseProxy for a name it does not own with every heartbeat (other control traffic is no heartbeat). sequences draws the quic listener in the quick tier too.",
    "C05": " A fault variant removes the client's TLS material after the first login (re-login must not fall back to clear text). Half of the wire cases give frpc its configuration as a file (TOML, or legacy INI) read by frp's own loader. identity_matrix also draws a server without certificate files of its own (generated certificate) for every combination.",
    "C06": " https_wire: real ClientHellos against the https muxer with multi-route proxies; a name matching no live route must be closed, never bridged and never left hanging.",
    "C07": " tcpmux_group_credentials: credential-protected tcpmux groups; http_routes also draws the '/' location and empty request paths.",
    "C08": " gated_handoff_vs_reregistration: a visitor stream is held between 'request checked' and the hand-off while the proxy is closed and its name registered again (other key / other allow-list, same or other session); it must never be bridged to the new registration. A wrong-signature NAT-hole / visitor request must be answered with an error within the bound (the harness's own table snapshot is bounded, so a wedged server is reported, not waited for).",
    "C09": " server_histories also drops a session while one of its registrations is in flight. manager_model: a quarter of the acquisitions are bound by their owner only after the next operation (the port manager grants, the proxy listens later: two registrations in flight at once).",
    "C10": " Also server-chosen (-any) port kinds and joins by a wrong-key intruder; the bystander also owns an http and a tcpmux route for user bob on the very domains the session under test uses (kept apart by routeByHTTPUser only) and is probed after every cycle. same_session_churn: ONE long-lived session registers, uses (0..3 exchanges per proxy, http users with or without keep-alive, stcp/sudp visitors) and closes 1..4 of 13 proxy kinds for 2..12 cycles (what a reload does); after every CloseProxy the work connections started for the closed proxies must be closed by the server within 4 s, the identical registration right after the close request must succeed, the tables must be back at the state before the cycle, two proxies of the same session that are never closed (a tcp tunnel with one user connection held open over all cycles, an http route used over one keep-alive connection) must keep working, and 12 identical cycles must not grow goroutines / descriptors; in half of the cases users of the udp kinds keep sending datagrams while the proxy is closed (frps must survive). listen_fails_after_acquire: deterministic probes (gate between port acquisition and listen, tcp and udp, maxPortsPerClient = 1): another process binds the port in that window, the registration must be refused, the tables must return to the state before, and the identical registration must succeed once the port is free.",
    "C12": " Also a session drop with a registration in flight (regdrop), two sessions asking for the same name at the same moment (race: at most one is granted, a free name is granted to one of them), and sessions holding 10 / 40 / 120 further names (bulk) so that the teardown a re-login waits for takes a while; every name is re-registered right after the re-login is acknowledged. slow_teardown_relogin: the old session owns 1..3 live proxies and is in the middle of a registration that a NewProxy server plugin holds for 0.3 .. 3.5 s (userConnTimeout 1..2 s) when the client logs in again with its run id: once the login is acknowledged every earlier name must be registrable at once, the half-done registration must not outlive the old session, and the tunnels answer from the new session. histories: one of the four names has upper-case letters; op regfail = a registration of that name that fails while the proxy is started (port outside allowPorts) must be refused and leave nothing behind.",
    "C13": " Odd-numbered http / tcpmux groups spell their domain with upper-case letters.",
    "C14": " server_watchdog draws timeouts of 2 / 3 / 5 / 6 s with 0..8 heartbeats before the silence (every phase of the server's checking rhythm). backoff_bound: the delay sequence of the login loop for generated option sets (incl. the production ones) and up to 40 attempts: never above the maximum, never zero after a failure, grown by the factor in between. client_watchdog_backoff also checks run-id continuity (every re-login presents the run id the server last gave). healing faults: refuse, cut, black hole, dark (half-open) relay, reload during the outage, default loginFailExit, 120+ proxies.",
    "C15": " Outcomes also include content with trailing JSON after the response object. call_sites with heartbeatTimeout 2 s (a third of the cases): a session whose every heartbeat is refused by the Ping plugins must be gone within 7 s however often it pings; accepted heartbeats keep it alive for the rest of the script. manager_chains also draws the outcome 'scrub' - an edit that REMOVES something (the metas entry 'role' of a Login / NewProxy, leaving the entry 'keep'): every later plugin and the server must see the content without it. call_sites endings: close, drop, or relogin (the session is replaced by a login with its run id; every proxy of the replaced session is announced as closed).",
    "C16": " frps_barrage also sends 0..8 generated hostile requests of anonymous users (HTTP-shaped with hostile methods / targets / header names and values such as a bare 'Basic', unterminated heads, smuggled second requests; mangled TLS ClientHellos) to the vhost http / https, tcpmux and bind ports. frps_churn also draws visitor floods, twin re-logins, registrations beyond the limits, quota, and checks that bystander heartbeats keep being answered. frpc_stop_at_login: stop while the login is outstanding. frps_churn also registers udp proxies whose owner answers every user datagram on the work connection with hand-made UDPPacket frames (no / null / empty address, port out of range, zone, content that is not base64 or of the wrong JSON type, other message types) before the proper reply. frpc_bad_source_address: deterministic probes - the scripted server starts a work connection for a proxy that sends the PROXY-protocol header (its local service listens) naming user addresses that do not resolve; frpc must survive and keep answering on its admin API (it does on the unchanged tree).",
    "C17": " live_first_message also keeps 0..3 peers stalled in the middle of their first frame while an honest login must complete within 3 s, and a peer that pipelines Login + encrypted Ping in one write (3 split variants). udp_content: payloads handed out by the udp packet decoder keep their content while further packets are decoded. nathole_datagram: the encrypted one-frame datagrams of hole punching (nathole.EncodeMessage / DecodeMessageInto): round trip under the same key, every proper prefix of a valid datagram is an error, 0..48 random bytes and correctly keyed envelopes around 0..24-byte plaintexts / hand-made frames with hostile type and length fields never panic. nathole_datagram also compares with the released format: the datagram deciphers (golib crypto, same key, also the empty key) to exactly the control frame, and a reference-enciphered frame is read back.",
    "C18": " env_template: {{ .Envs.X }} with values containing '=', base64, leading / trailing space, empty. concurrent_strict: strict and non-strict loads of 1..120-proxy files running concurrently; the strict ones must still reject an unknown key.",
    "C19": " reload_while_disconnected: the session is cut and logins are refused / dropped, one or two configurations are loaded meanwhile, logins are accepted again: exactly the last loaded set is registered on the new session. health_gating: the first registration of a proxy may be answered 1.5 / 2.6 s late, so the verdict changes while the answer is outstanding. health_flap_backoff: a backend flapping up/down; stop_during_send and stale_visitor_config are deterministic probes. visitor_reload: a real frps, a real owner (stcp, sudp, xtcp proxies with echo backends) and a real frpc holding 0..3 visitors of kinds stcp / sudp / xtcp; 1..3 reloads replace the visitor set while tcp users hold connections and (half of the cases) udp users keep sending: removed visitors' ports are free within 3 s, the connection a user opened through an unchanged visitor before the reload still echoes afterwards, every configured visitor is bound within 13 s and carries an echo to the owner's backend, and frpc survives. reload_at_login: deterministic probe - a configuration is loaded while a login is between copying the configuration and publishing its control (gate); the server must end with the loaded set. health_gating: a third of the http checks have timeout 3 s > interval 1 s and scripts with 'slow' probes (200 after 1.6 s: later than the interval, within the timeout - a success). reload_convergence variants include a change the server never sees (only the local port differs): the entry changed all the same and must be closed and registered again. local_start_failure: deterministic probe - the server accepts a proxy that cannot be started at the client (https2http plugin with nonexistent certificate files); it must be withdrawn at the server.",
    "C20": " controller_exchange also checks that each party's answer carries its own transaction id and that the receiver is still reading when the sender starts. controller_history: the same pair asks 7 or 9 times without a success report, so every behaviour of the controller's list is produced; each answer pair must satisfy the same oracle. discover_late_response: deterministic probe.",
}


def register_all(prop0):
    def prop(pid, **kw):
        if pid in ADDENDA and "rule" in kw:
            kw["rule"] = kw["rule"] + ADDENDA[pid]
        return prop0(pid, **kw)
    prop("C17", qshards=8, tshards=16, qlimit=300, tlimit=2400, fuzz=[("FuzzDecodeTotal", 90), ("FuzzRoundTrip", 90), ("FuzzNatHoleDatagram", 45)],
         rule=("roundtrip: rapid draws a message type and a value for every field of the PINNED released schema "
               "(strings incl. empty/unicode/control/10KiB, extreme ints, maps, lists, nil/zero/IPv4/IPv6 UDP addrs), "
               "reference-encodes it, feeds the frame to msg.ReadMsg, checks field binding by reflection, re-encodes with "
               "msg.WriteMsg and compares header, key set and content; non-trivial = at least one non-zero field; distinct = "
               "distinct (type, reference body). decode_total: structure-aware mutations of valid frames (type byte, length "
               "field, truncation, byte flips, wrong JSON types) and raw bytes through a counting reader; non-trivial = passes "
               "the type-byte check; distinct = distinct byte string. live_first_message: the same byte strings sent as first "
               "bytes to a live frps that also hosts a legitimate tunnel."),
         assumptions=["encoding/json of the Go standard library is the reference encoder for the generic tree",
                      "strings inside messages are valid UTF-8 (invalid UTF-8 is covered by C16)"])
    prop("C12", qshards=8, tshards=16, qlimit=420, tlimit=3000,
         rule=("histories: rapid draws 3..18 operations over 3 client slots and 4 proxy names (2 tcp with fixed ports, 1 stcp, 1 http): "
               "fresh login, re-login with the slot's run id (single, or 2..3 at once), register, close (own or foreign name), disconnect, "
               "user connection. A reference map name -> owning session is the oracle; every session's scripted backend tags its answers, "
               "so who served a user connection is observed, not inferred. non-trivial = the history has a cross-session name collision or a "
               "re-login while the old session still holds proxies; distinct = distinct (tcpMux, op sequence)."),
         assumptions=["loopback transport; scripted client speaks the released protocol", "after a plain disconnect the harness waits until the server's session table no longer lists the run id (hook) before expecting the names to be free"])
    prop("C04", qshards=8, tshards=16, qlimit=420, tlimit=3000,
         rule=("sequences: rapid draws the auth method (token / OIDC against an in-harness issuer), a subset of additional scopes, the listener "
               "(tcp, tls, websocket; kcp and quic in thorough), tcpMux, and 2..12 peer operations: logins with bad keys (wrong token, other "
               "timestamp, empty, garbage, prefix, upper-cased, token in clear; expired / wrong-key / wrong-issuer / wrong-audience / alg=none JWTs) "
               "combined with client_spec.always_auth_pass and type, run id = none / a live session's / unknown, repeated up to 20x; valid logins; "
               "every non-login message type as first message; pings and work connections with valid / invalid / other-subject keys for live, "
               "unknown and empty run ids; user connections to a bystander's tunnel. Oracle: reference acceptance predicate (key equals the keyed "
               "digest / valid JWT; nothing sent by the peer exempts it), refused => error response + connection closed, no StartWorkConn on a "
               "refused work connection, table snapshot after == before, bystander tunnel answers from legitimate sessions only. non-trivial = "
               ">=1 refused and >=1 accepted operation, or always_auth_pass claimed, or a scope-protected message; distinct = distinct case."),
         assumptions=["ssh tunnel gateway: driven with authorized and unauthorized ssh keys (ssh_test.go); its virtual-client path is the only place where always_auth_pass is honoured", "the end of a session fed only invalid heartbeats is checked here (invalid_heartbeats) and in C14"])
    prop("C09", qshards=8, tshards=16, qlimit=480, tlimit=3000,
         rule=("manager_model: action sequences (acquire name/port in {0, in range, outside, negative, >65535}, release, squat/unsquat by the harness) "
               "on ports.Manager over a leased real range of 1..6 ports, tcp and udp, against a reference allocator; the harness binds every granted "
               "port as the proxy code does. server_histories: 1..3 scripted sessions issue tcp/udp NewProxy (fixed / 0 / invalid ports, grouped or "
               "not), CloseProxy, duplicate names and session drops against allowPorts of 3..8 ports, maxPortsPerClient 0..3 and harness squatters; "
               "oracle = reference allocator + truthfulness (dialling the reported address reaches exactly that proxy) + OS view == model == "
               "server accounting (hook). non-trivial = history with a refusal and a re-acquisition after release, or a port-0 request by a name "
               "that held a port before; distinct = distinct case."),
         assumptions=["127.0.0.1 only", "port-0 failure is accepted when the bounded probing (5 tries) could have hit only squatted ports"])
    prop("C13", qshards=8, tshards=16, qlimit=480, tlimit=3000,
         rule=("histories: 4..26 operations over 3 scripted sessions and tcp / http / tcpmux groups (2 groups per kind, 4 member names each): "
               "join with right/wrong key and same/different endpoint parameters (fixed port, other port, server-chosen port; domain), leave, session "
               "drop, single connections and bursts (3n consecutive http requests for rotation, 2..8 concurrent tcp/CONNECT connections). Oracle = "
               "reference membership model; tagged backends show which member and which session served each connection; endpoint exists iff members; "
               "after everybody left the server's group/route/port tables are empty (hook) and every kind of group can be created again at once; the "
               "in-process frps must survive (a dead process is turned into a violation with the journaled case). gated_join_vs_last_leave: the join "
               "is held between the controller's group lookup and the group's own lock while the last member leaves. non-trivial = history with a "
               "refused join and a last leave; distinct = distinct op sequence."),
         assumptions=["groups of different kinds and ids use disjoint endpoints, so cross-group conflicts are outside the generated domain"])
    prop("C10", qshards=8, tshards=16, qlimit=480, tlimit=3000,
         rule=("cycles: rapid draws 1..4 of 11 proxy kinds (tcp, tcp-group, udp, http with 2 domains x 2 locations, http-group, https, tcpmux, "
               "tcpmux-group, stcp, sudp, xtcp), a termination path (CloseProxy then identical re-registration on the same session; control "
               "connection cut after k messages of the script incl. with a registration in flight; re-login with the same run id; heartbeat "
               "timeout; registration failing part-way because its last domain / its port belongs to a bystander), pool size, tcpMux, traffic "
               "or not, and 1..12 repetitions. Oracle: the identical registration afterwards succeeds; the server's tables (sessions, names, "
               "ports, routes, visitors, groups, nat clients; snapshot hook) equal the state before the cycle; a bystander's tcp / http / "
               "tcpmux tunnels keep answering; over 12 identical cycles goroutines and descriptors do not grow by one per cycle. non-trivial = "
               "termination other than a plain close, or >= 10 cycles; distinct = distinct (types, path, cut point, cycles, options)."),
         assumptions=["after a cut or timeout the harness waits until the session table no longer lists the run id before re-registering ('shortly after the old one ended')",
                      "goroutine/descriptor counts are process-wide (harness included) and compared between the middle and the end of identical cycles"])
    prop("C11", qshards=8, tshards=16, qlimit=480, tlimit=3000,
         rule=("pool_protocol: a scripted client owns the frpc side: poolCount 0..8 vs maxPoolCount {default,1,2,5}, userConnTimeout 1..2 s, accept "
               "path (direct tcp listener, tcp group, tcpmux CONNECT muxer, stcp visitor listener), 0..12 simultaneous users, a cyclic behaviour "
               "script per requested work connection (prompt, late, deliver-then-die, never), unrequested surplus offers on top of a full pool, "
               "and a session end (control cut / re-login) overlapping the users. Oracle: requests in advance == min(poolCount, maxPoolCount); "
               "pool <= capacity and >= surplus offers closed; every work connection gets <= 1 StartWorkConn naming the proxy and (direct paths) "
               "the user's real address and carries exactly one user's tagged data; every user is bridged or closed within timeout + 3 s, never "
               "open without a peer; all-prompt scripts bridge every user; after the session ends every unconsumed work connection sees EOF in "
               "4 s. gated_late_workconn: a work connection held inside registration while the session is torn down must be closed, not parked. "
               "non-trivial = >= 2 users, hostile delivery, surplus, or a session end with users; distinct = distinct case."),
         assumptions=["timing oracles (bounds of seconds) use confirm-on-retry", "https muxer path is exercised in C01/C06, not here"])
    prop("C08", qshards=8, tshards=16, qlimit=480, tlimit=3000,
         rule=("admission: 1..2 scripted owners (users '', alice, bob) register 1..3 stcp / sudp / xtcp proxies with allowUsers in {absent, "
               "[alice], [bob,carol], [*], [''], [alice,*]} and their own encryption/compression flags; 2..14 requests from visitor sessions of users "
               "'', alice, bob, mallory: NewVisitorConn (proxy live / closed / never existed, any timestamp, signature correct / other key / other "
               "timestamp / empty, run id own / empty / another user's / unknown, enc/comp flags) and NatHoleVisitor with pre-check on/off; proxies are "
               "closed and re-opened in between. Oracle: admit <=> live AND signature == digest(sk, ts) AND (user(run id) in allowed OR '*'); refused "
               "=> error response, no StartWorkConn / session id at the owner, table snapshot unchanged; admitted stcp streams echo a payload "
               "bit-exactly through the visitor's wrappers (keyed by sk) and the proxy's (keyed by the token) in all 16 combinations. non-trivial = "
               "request against an existing proxy where signature validity and run-id validity differ, or an admitted stream with differing wrappers."),
         assumptions=["nathole.NatHoleTimeout (exported variable) is set to 1 s by the harness", "sudp admitted streams carry protocol messages: only admission is decided here, payloads in C03"])
    prop("C20", qshards=8, tshards=16, qlimit=480, tlimit=3600, fuzz=[("FuzzAnalyzerRoles", 90)],
         rule=("controller_exchange: generated NAT observations for visitor and owner (2..5 mapped addresses shaped easy / regular port change / irregular "
               "/ IP change / both / too short / one malformed or out-of-range entry; 0..3 assisted addresses; IPv4 and IPv6) go through "
               "nathole.Controller with stub transporters, incl. duplicate NatHoleClient, reports for unknown sids and a third control; oracle = same "
               "sid and mode, complementary roles, each side gets the other's compacted lists, port ranges within 1..65535 with from <= to, role rule "
               "by mode from an independent re-implementation of the documented classification, malformed => error to both and no instruction, "
               "exactly one response per party, none to third parties. analyzer_roles: the same oracle on nathole.Analyzer under histories of 0..30 "
               "earlier rounds with/without success reports; analyzer_exhaustive enumerates all 100 feature pairs x all 128 report histories of "
               "length 7. makehole_loopback: both instruction sets executed by nathole.MakeHole on loopback sockets. session_footprint (real frps): "
               "sessions exist only for signed requests naming a live xtcp proxy and are removed after timeout / completion. non-trivial = a hard side, a "
               "non-empty history, or malformed input."),
         assumptions=["real NATs are not simulated: 'find each other' is shown on unfiltered loopback only", "nathole.NatHoleTimeout set to 1 s through its exported variable"])
    prop("C15", qshards=8, tshards=16, qlimit=480, tlimit=3000,
         rule=("manager_chains: chains of 0..4 real HTTP plugins (plugin.NewHTTPPluginOptions) against an in-harness stub server, each plugin with a "
               "random subset of the six operations and a scripted outcome per operation from {accept unchanged, accept with edited content, reject, "
               "HTTP 500/404/302, connection reset, malformed JSON, wrong JSON types, empty body, truncated body}; every operation of plugin.Manager is "
               "called; oracle: consulted == the plugins registered for the operation, in order, up to the first refusal; allowed <=> all consulted "
               "accepted; each plugin receives its predecessors' edits; the returned content is the last edit; CloseProxy notifies all registered. "
               "call_sites: a real in-process frps configured with httpPlugins pointing at the stub, driven by a scripted client through Login, "
               "NewProxy, Ping, NewWorkConn and NewUserConn (tcp, stcp, tcpmux): the operation proceeds <=> the model allows it, the server acts on the "
               "edited content, unregistered operations reach no stub, CloseProxy notifications arrive for explicit close and session end. "
               "non-trivial = >= 2 plugins registered for the operation and >= 1 outcome other than accept-unchanged."),
         assumptions=["bodies 'null' and '{}' (valid JSON) are not generated: the property only speaks of unparsable bodies"])
    prop("C06", qshards=8, tshards=16, qlimit=480, tlimit=3000, fuzz=[("FuzzHTTPTable", 120)],
         rule=("http_table: 3..30 operations (register / unregister / duplicate or re-register by another owner / lookup) on vhost.HTTPReverseProxy; "
               "hosts over labels {a,b,c,d} with 1..4 labels, wildcards with >= 2 fixed labels, catch-all, random letter case; locations {'', /, /a, /ab, "
               "/a/b, /b}; users {'', u1, u2}; lookups are real requests through ServeHTTP (Host with port suffix / trailing dot / case, Basic user) "
               "answered by in-memory backends that name their owner; connections to backends are reused. Oracle: reference winner from the property "
               "text. muxer_table: the same table semantics through vhost.Muxer with TLS ClientHellos (https) and HTTP CONNECT (tcpmux) on a loopback "
               "listener. wire: real frps, scripted sessions, register / close / take-over by another session interleaved with requests incl. "
               "keep-alive user connections, h2c and a vhost port shared with the control port. non-trivial = lookup with >= 2 matching routes of "
               "different specificity, or unmatched lookup on a non-empty table; distinct = distinct case."),
         assumptions=["internationalised host names are outside the generated domain"])
    prop("C07", qshards=8, tshards=16, qlimit=480, tlimit=3000,
         rule=("http_routes: 1..5 routes on shared hosts (exact, wildcard, catch-all; locations) that are unprotected, protected, user-routed + protected "
               "or user-routed only, and 2..10 requests in origin-form, absolute-form, CONNECT, HTTP/1.0 and h2c with credentials in Authorization and/or "
               "Proxy-Authorization (exact, wrong password, wrong user, another pair, empty user, empty password, malformed base64, lower-case scheme, no "
               "scheme; header-name casing varied), sent over TCP to vhost.HTTPReverseProxy; in-memory backends log which request ids they saw. Negative "
               "oracle: a protected backend saw a request => the request carried exactly that route's user:password; a route restricted to a user is only "
               "reached by a request presenting that user; 401 => challenge present and no backend reached; positive control for exact credentials. "
               "tcpmux_connect, client_plugins (http_proxy, socks5, static_file through plugin.Create().Handle over pipes) and web_apis (frps dashboard "
               "and frpc admin API, every registered route x methods) use the same credential grammar. non-trivial = a protected route/service is addressed."),
         assumptions=["/healthz of the web servers is an unauthenticated liveness endpoint by design and is not claimed", "pprof endpoints are not enabled"])
    prop("C18", qshards=8, tshards=16, qlimit=480, tlimit=3000, fuzz=[("FuzzFormats", 90), ("FuzzValidation", 60)],
         rule=("formats: a logical client (common section + 0..4 proxies of the 8 types + 0..2 visitors, every documented field incl. plugins, health checks, "
               "header maps, unicode / dotted names) or server configuration is generated as a generic tree, rendered to JSON, YAML (sigs.k8s.io/yaml) and "
               "TOML (go-toml/v2) by independent encoders and loaded with config.LoadConfigure in both strict modes; the three loads must be identical and equal "
               "the document; an unknown key injected at a random nesting depth must be refused by strict mode in all three formats and ignored otherwise. "
               "msg_roundtrip: one proxy definition -> Complete -> MarshalToMsg -> wire codec -> NewProxyConfigurerFromMsg; every field the server acts on must be "
               "equal. flags: every flag of the server, client-common, proxy and visitor flag sets given explicitly vs. the file that sets the same fields. "
               "validation: accepted configurations respect port ranges and the custom-domain / subdomain-host rule in any letter case. literals: port-range "
               "and bandwidth literals round-trip; templates render to the independently computed expansion. non-trivial = >= 3 (formats) / >= 5 (msg) set "
               "fields, an unknown key at depth >= 2, or >= 5 flags."),
         assumptions=["free-form maps (metadatas, annotations, header sets) accept any key, so no unknown-key case exists inside them"])
    prop("C19", qshards=8, tshards=16, qlimit=480, tlimit=3600,
         rule=("reload_convergence: a real in-process frpc (wrapper timing constants shortened through the hook: status check 30 ms, wait-response 400 ms, "
               "start-error back-off 300 ms) against a scripted server; 2..7 steps of reloads (each a set over 4 proxy names x 3 variants, reordered, with "
               "identical duplicates, plus 0..2 stcp visitors) and waits of 0..450 ms relative to outstanding replies; per proxy a script of server replies "
               "{success, error, late, never}. Oracle over the server's event log: final registrations == last configuration (names and content); an "
               "unchanged running proxy sees neither CloseProxy nor NewProxy across a reload; removed/changed entries are closed; a refused registration "
               "is retried no sooner than the back-off and is retried; polled status only moves along legal paths; removed visitors unbind; a work "
               "connection for a stopped proxy is closed without contacting the backend. health_gating: tcp and http health checks served by harness "
               "endpoints that log every probe, scripts over {success, refusal, timeout, non-2xx}, maxFailed 1..4; oracle = reference counter over the "
               "logged probes. non-trivial = >= 2 reloads of which one changes a configured proxy, or a failure run shorter than maxFailed followed by a success."),
         assumptions=["duplicate names with different content are not generated (no defined meaning)", "health-check intervals are whole seconds in frp: those histories run in real seconds"])
    prop("C14", qshards=8, tshards=16, qlimit=600, tlimit=3600,
         rule=("server_watchdog: a scripted client sends valid heartbeats every 300..1100 ms for 0..5 rounds and then falls silent, sends only invalid "
               "heartbeats (HeartBeats scope), sends only non-heartbeat traffic, or keeps pinging; heartbeatTimeout 2..3 s, tcpMux on/off. Oracle: the "
               "control connection is closed within [T, T + 1 s + slack] of the last valid heartbeat, the name/port are re-acquirable at once, a pinging "
               "peer survives 3T. client_watchdog_backoff: a real frpc (interval 1 s, timeout 3 s) against a scripted server that stops answering pings, "
               "refuses or drops logins for 1.5..9 s, or cuts the control; oracle: silent session given up within timeout + slack but not early, all "
               "proxies registered again within the back-off ceiling, login attempts never < 80 ms apart and <= 20 per 10 s. healing: real frpc + real "
               "frps restarted on the same ports after outages of 0..4 s, 1..2 times; all tunnels carry traffic again within 28 s. non-trivial = fault "
               "placed inside a session with registered proxies / outage longer than one back-off step."),
         assumptions=["upper time bounds use confirm-on-retry; lower bounds do not need it", "outages are <= 9 s in the quick tier"])
    prop("C16", qshards=8, tshards=16, qlimit=600, tlimit=3600, race=True,
         rule=("frps_barrage: the real cmd/frps binary built from the current tree runs as a sacrificial child with a generated TOML configuration; 1..6 "
               "concurrent scripted peers - authenticated (valid login with pool_count in {0, 1, 3, -1, -10, -11, -1000, 2^31-1, 2^63-1, 100000}) or not - "
               "send 1..12 field-level hostile messages each over all 18 message types (hand-written JSON: extreme integers, empty / 9 KB / NUL / lone "
               "surrogate strings, nil / empty / nested maps and lists, malformed and out-of-range addresses, wrong JSON types, raw garbage), with abrupt "
               "disconnects, plus HTTP / TLS / CONNECT / HTTP2-preface garbage on the vhost ports, while a legitimate session holds tcp, xtcp and stcp "
               "proxies. Oracle: the child is alive, its output has no 'panic:' / 'fatal error:' (and, under -race in the thorough tier, no DATA RACE), "
               "the bystander still gets a Pong and its tunnel answers, a fresh login + registration works. frpc_hostile_server: the real cmd/frpc child "
               "against a scripted server sending hostile LoginResp, NewProxyResp, NatHoleResp, Pong, StartWorkConn and floods of ReqWorkConn; oracle: alive, "
               "no fatal output, admin API still answers. frps_churn: 2..6 scripted clients run short loops (5..40 rounds) at the same time against one frps child: "
               "join / leave the same tcp, http and tcpmux group, register / close the same stcp, xtcp and tcp names, visitor connections and NAT-hole requests "
               "for proxies that come and go, drops and re-logins, user connections; everything well formed, only the interleaving is hostile. Oracle: child "
               "alive, no fatal output, every surviving session still gets a Pong (no stalled message handling), a fresh session is answered when it joins "
               "the groups fought over. non-trivial = >= 1 authenticated peer and >= 3 messages / >= 2 hostile messages / two workers sharing an operation."),
         assumptions=["race-only failures are found probabilistically", "a dead child is not shrunk structurally beyond what rapid achieves by re-running cases against fresh children"])
    prop("C05", qshards=8, tshards=16, qlimit=600, tlimit=3600,
         rule=("wire_confidentiality: real frpc and frps talk through a recording relay (TCP, and UDP for kcp/quic in the thorough tier); per case fresh "
               "high-entropy markers for the auth token, an stcp secret key, an http password, a tcpmux password, the payload of both directions and "
               "control content (proxy name, custom domain, metadata); lattice TLS on/off x custom first byte x forced TLS x proxy encryption x "
               "compression x transport x tcpMux; payload flows through a tcp proxy and an stcp visitor. Oracle: no secret in raw / base64 / hex form "
               "in any configuration; no payload marker when TLS or proxy encryption is on; no control content when TLS is on; negative control: with "
               "everything off the payload marker must be visible (the observer works). identity_matrix: scripted peers against a server with forced "
               "TLS and/or a trusted CA (TLS or not, no / CA-signed / foreign-CA / self-signed certificate, every first byte 0..255 before a plaintext "
               "login) and a real frpc with/without trusted CA and server name against servers presenting good / foreign / self-signed / wrong-name "
               "certificates; oracle: model of 'session comes up' vs. observed, refused peers get no LoginResp and leave no state. non-trivial = TLS or "
               "proxy encryption on with >= 2 KB marker-bearing traffic, or an identity case whose expected outcome is refusal."),
         assumptions=["'in clear' means the marker bytes in raw, base64 or hex form; cryptographic strength is not assessed", "compression alone is not claimed to hide anything"])
    prop("C01", qshards=16, tshards=16, qlimit=600, tlimit=3600,
         rule=("tunnels: real in-process frps + frpc (+ a second frpc with visitors for stcp / xtcp-with-fallback); rapid draws the option vector (kind tcp / "
               "https via SNI / tcpmux via CONNECT with and without passthrough / stcp / xtcp falling back to stcp; encryption; compression; client- or "
               "server-side bandwidth limit; tcpMux; control transport tcp / websocket / kcp / quic; TLS and custom first byte; poolCount 0..3; proxy "
               "protocol v1/v2; vhost https port shared with the control port; 1..3 proxies) and 1..5 simultaneous connections, each with two independent "
               "streams (length classes 0..1 MiB around buffer boundaries, content random / zeros / periodic / text, write chunking one / small / mixed / "
               "big) and a close script (duplex until both received everything; backend answers and closes while the user only reads; user writes and "
               "closes while the backend only reads; early close by either side). Oracle: received bytes are a prefix of the written bytes (compared on "
               "the fly), completion per close script, every peer closed within 15 s, the tagged connection reaches the backend of the dialled proxy and "
               "no other, the PROXY header carries the user's real address, and with a limit the bytes delivered in the observed window <= limit x window "
               "+ burst. non-trivial = >= 1 byte through >= 1 wrapper or >= 2 concurrent connections; distinct = distinct (option vector, stream shapes)."),
         assumptions=["loopback only", "rate bound checked over the whole observed window (sound under load because receive times can only be later than pass-through times)",
                      "closing a raw kcp connection without stream multiplexing does not flush: completion after close is not asserted there"])
    prop("C03", qshards=16, tshards=16, qlimit=600, tlimit=3600,
         rule=("udp_tunnels: real in-process frps + frpc (+ a second frpc with the visitor for sudp); rapid draws kind udp / sudp, encryption, compression, "
               "tcpMux, a generous client/server bandwidth limit (wrapper only), udpPacketSize 576 / 1500 / 4000 (both sides), 1..2 proxies with their own "
               "backends, 1..6 user sockets and a script of 1..120 datagrams (user, proxy, length 0..packet size biased to 0/1/2/512/1400/1472/packet-size "
               "boundaries, pseudo-random bytes, gap 0..4 ms; three quarters of the scripts are light load with every gap >= 1 ms) and, for udp with tcpMux "
               "off, optionally a relay that kills the work connection before a drawn datagram. Each backend logs what it got and answers with the "
               "complemented payload. Oracle: backend log is a sub-multiset of what was sent to that proxy, each user's replies are a sub-multiset of the "
               "transforms of its own datagrams and come from the public endpoint, and at light load every datagram and every reply arrives within 3 s "
               "(around a replacement only datagrams outside the 1.5 s re-establishment window). non-trivial = >= 2 users interleaved or a payload >= 1000 "
               "bytes or a replaced work connection; distinct = distinct (options, (user, proxy, length) sequence)."),
         assumptions=["loopback only, 8 MiB socket buffers at the harness ends", "delivery asserted only for light-load scripts; bursty scripts check inclusion only",
                      "the 30 s idle eviction of per-user sockets is not exercised"])
    prop("C02", qshards=16, tshards=16, qlimit=600, tlimit=3600,
         rule=("http_fidelity: real in-process frps + frpc; rapid draws 1..2 routes (http proxy, or the client plugins http2http / http2https behind an http "
               "proxy and https2http / https2https behind an https proxy; encryption, compression, limiter wrapper, tcpMux; requestHeaders.set, "
               "responseHeaders.set, hostHeaderRewrite) and 1..3 concurrent keep-alive user connections of 1..6 requests written byte by byte by the harness: "
               "method, percent-encoded path segments, raw query, 0..6 headers (mixed case, multi-valued, empty, 16 KB, obs-text), user-sent X-Forwarded-For "
               "lines, a Connection-nominated header, body none / Content-Length / chunked up to 1 MiB with drawn write sizes; the response the recording "
               "backend must produce travels in a request header (status from 18 codes, 0..5 headers, body Content-Length / chunked / close-delimited). "
               "Oracle: reference model of the declared rewrites - identical method, request target, body digest; header multimap = user's + set-headers, "
               "Host per rewrite, X-Forwarded-For = user's values + user's address, nominated hop-by-hop header removed; user receives the scripted status, "
               "the backend's headers + configured response headers, identical body; served by the route's own backend exactly once. non-trivial = a body, "
               "a percent-encoding, a rewrite, X-Forwarded-For, or a request at position >= 2 of its connection; distinct = distinct (routes, request shapes). "
               "upgrade_connect_errors: a WebSocket-style Upgrade or a CONNECT through the vhost port followed by generated duplex byte streams (0..300 KB, drawn "
               "write sizes) and a close by either side - streams identical, request line seen by the backend identical, the peer closed within bounds; "
               "backend unreachable -> not-found page within 3 s; backend that never answers with vhostHTTPTimeout 1..2 s -> 504 within timeout + 3 s, "
               "while 0..3 requests to another proxy succeed within 3 s."),
         assumptions=["HTTP/1.1 framing at both ends (h2c is covered for routing/auth in C06/C07)", "queries with ';' or invalid escapes and paths needing normalisation are outside the generated domain (the standard library rewrites them)",
                      "Forwarded / X-Forwarded-Host / X-Forwarded-Proto sent by the user are not generated"])
