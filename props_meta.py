"""Per-property metadata for the driver: shard counts, wall limits, evidence rule text."""

def register_all(prop):
    prop("C17", qshards=8, tshards=16, qlimit=300, tlimit=2400,
         rule=("roundtrip: rapid draws a message type and a value for every field of the PINNED released schema "
               "(strings incl. empty/unicode/control/10KiB, extreme ints, maps, lists, nil/zero/IPv4/IPv6 UDP addrs), "
               "reference-encodes it, feeds the frame to msg.ReadMsg, checks field binding by reflection, re-encodes with "
               "msg.WriteMsg and compares header, key set and content; non-trivial = at least one non-zero field; distinct = "
               "distinct (type, reference body). decode_total: structure-aware mutations of valid frames (type byte, length "
               "field, truncation, byte flips, wrong JSON types) and raw bytes through a counting reader; non-trivial = passes "
               "the type-byte check; distinct = distinct byte string. live_first_message: the same byte strings sent as first "
               "bytes to a live frps that also hosts a legitimate tunnel."),
         assumptions=["encoding/json of the Go standard library is the reference encoder for the generic tree",
                      "strings inside messages are valid UTF-8 (invalid UTF-8 is covered by C16)"])
