#!/bin/bash
# usage: run_all.sh [tier] [seed]   runs every claimed check, prints one line per property
cd /verif
TIER=${1:-quick}; export VERIF_SEED=${2:-20260101}
for P in $(python3 -c "import json;print(' '.join(sorted(json.load(open('claims.json')).keys())))"); do
  S=$(date +%s)
  ./check $P --tier $TIER > /tmp/runall-$P-$TIER.log 2>&1; C=$?
  echo "$P exit=$C $(($(date +%s)-S))s $(tail -1 /tmp/runall-$P-$TIER.log | cut -c1-160)"
done
