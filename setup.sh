#!/bin/sh
# Offline setup: warm the Go build cache for the harness (fetches nothing).
set -e
cd "$(dirname "$0")"
export GOFLAGS=-mod=mod GOPROXY=off GOSUMDB=off GOTOOLCHAIN=local
mkdir -p .build evidence
cd harness
go build ./... 2>&1 | tail -5 || true
go vet ./fx >/dev/null 2>&1 || true
for d in c*/; do
  go test -c -vet=off -o /dev/null "./$d" >/dev/null 2>&1 || true
done
echo setup done
