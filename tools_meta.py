#!/usr/bin/env python3
"""usage: tools_meta.py <seed> [--strengthened]   writes /verif/seeded/<seed>/meta.json from NOTES.md and confirm.log"""
import sys, json, re, os
seed = sys.argv[1]
d = '/verif/seeded/' + seed
notes = open(d + '/NOTES.md').read() if os.path.exists(d + '/NOTES.md') else ''
m = re.search(r'(?is)#+\s*what is needed.*?\n(.*?)(\n#+ |\Z)', notes)
needs = (m.group(1).strip() if m else '')[:1500]
conf = [l.strip() for l in open(d + '/confirm.log') if l.strip()]
confirmed = [l for l in conf if not l.startswith('./check') and not l.startswith('recheck')]
ours = [l for l in conf if l.startswith('./check') or l.startswith('recheck')]
det = any(re.search(r'exit 1\s+[1-9]\d* violation', l) for l in ours)
first_missed = bool(ours) and not re.search(r'exit 1\s+[1-9]\d* violation', ours[0])
json.dump({"seed": seed, "breaks_property": seed.split('-')[0],
           "origin": "independent sub-agent given only the property text and a scratch worktree of /repo",
           "summary": notes[:900], "needs_to_manifest": needs, "confirmed": confirmed, "our_checks": ours,
           "detected": det, "detected_only_after_strengthening": det and first_missed}, open(d + '/meta.json', 'w'), indent=1)
print(seed, 'detected' if det else 'MISSED', '(after strengthening)' if det and first_missed else '')
