#!/bin/bash
# usage: tools_seed.sh <PROP> <wt-dir> <change-number> [extra props to run]
# Confirms a sub-agent's change in a scratch worktree (demo passes pristine / fails changed, build + pinned
# tests pass), stores it under /verif/seeded/<PROP>-<n>/ and runs ./check <PROP> against it in /repo.
set -u
export GOFLAGS=-mod=mod GOPROXY=off GOSUMDB=off GOTOOLCHAIN=local
P=$1; WT=$2; N=$3; shift 3
SRC=$WT/deliver/change$N
DN=${DSTN:-$N}   # DSTN: store under another index (second-round agents deliver change1/change2 again)
DST=/verif/seeded/$P-$DN
[ -f $SRC/patch.diff ] || { echo "no patch at $SRC"; exit 2; }
rm -rf $DST; mkdir -p $DST
cp -r $SRC/* $DST/
SCR=/tmp/seedscr-$P-$DN
git -C /repo worktree remove --force $SCR 2>/dev/null; rm -rf $SCR
git -C /repo worktree add -q --detach $SCR HEAD || exit 2
mkdir -p $SCR/deliver/change$N && cp -r $SRC/* $SCR/deliver/change$N/
DEMO=$(cd $SCR && find deliver/change$N -name '*_test.go' | head -1 | xargs -r dirname)
RUNDEMO="go test -vet=off -count=1 ./$DEMO/"
if [ -z "$DEMO" ]; then
  DEMO=$(cd $SCR && find deliver/change$N -name 'main.go' | head -1 | xargs -r dirname)
  RUNDEMO="go run ./$DEMO"
fi
# demos written for package server_test live next to the package they test
if [ -n "$DEMO" ] && grep -q '^package server_test' $SCR/$DEMO/*_test.go 2>/dev/null; then
  cp $SCR/$DEMO/*_test.go $SCR/server/zz_seed_demo_test.go
  RUNDEMO="go test -vet=off -count=1 -run TestC ./server/"
fi
res() { echo "$1" | tee -a $DST/confirm.log; }
: > $DST/confirm.log
( cd $SCR && timeout 600 $RUNDEMO > $DST/demo_pristine.log 2>&1 ); PR=$?
res "demo on pristine current tree: exit $PR"
( cd $SCR && git apply deliver/change$N/patch.diff ) || { res "patch does not apply to current HEAD"; git -C /repo worktree remove --force $SCR; exit 3; }
( cd $SCR && go build ./... > $DST/build.log 2>&1 ); B=$?
( cd $SCR && go test -vet=off -count=1 ./pkg/... > $DST/pinned.log 2>&1 ); T=$?
( cd $SCR && timeout 900 $RUNDEMO > $DST/demo_changed.log 2>&1 ); CH=$?
res "with change: build exit $B, pinned tests exit $T, demo exit $CH"
# now our checks, against the scratch copy (patch still applied there); /repo is not touched
( cd $SCR && rm -rf server/zz_seed_demo_test.go deliver )
ALTD=/tmp/seedalt-$P-$DN; rm -rf $ALTD; mkdir -p $ALTD
for Q in $P "$@"; do
  ( cd /verif && VERIF_REPO=$SCR VERIF_ALT=$ALTD timeout 1500 ./check $Q > $DST/check_$Q.log 2>&1 ); C=$?
  res "./check $Q against the change: exit $C  $(grep -c '^VIOLATION' $DST/check_$Q.log) violation lines; first: $(grep -m1 'check=' $DST/check_$Q.log | cut -c1-260)"
done
rm -rf $ALTD
git -C /repo worktree remove --force $SCR; rm -rf $SCR
