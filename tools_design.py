#!/usr/bin/env python3
"""Regenerates section 6 ("As built") of DESIGN.md: the fix list comes from /repo's git log, the seed table from seeded/*/meta.json."""
import json, glob, re, os, subprocess
rows = []
def keyf(d):
    m = re.match(r'.*/(C\d\d)-(\d+)/$', d)
    return (m.group(1), int(m.group(2)))
nseeds = 0
for d in sorted(glob.glob('/verif/seeded/*/'), key=keyf):
    if not os.path.exists(d + 'meta.json'):
        continue
    j = json.load(open(d + 'meta.json'))
    nseeds += 1
    title = ''
    for l in j.get('summary', '').split('\n'):
        l = l.strip('# ').strip()
        if l:
            title = l
            break
    title = re.sub(r'^(C\d\d\s*/?\s*)?[Cc]hange\s*\d\s*[—:-]+\s*', '', title)
    title = re.sub(r'^C\d\d\s+change\s*\d\s*-\s*', '', title)
    caught = ''
    for l in j.get('our_checks', []):
        mm = re.search(r'check (C\d\d).*?check=(\w+)', l)
        if mm and 'exit 1' in l:
            caught = mm.group(1) + '/' + mm.group(2)
    rows.append('| %s | %s | %s | %s |' % (j['seed'], title.replace('|', '/')[:120], caught,
                'only after strengthening' if j.get('detected_only_after_strengthening') else ('yes' if j.get('detected') else 'MISSED')))
table = '\n'.join(rows)
log = subprocess.run(['git', '-C', '/repo', 'log', '--reverse', '--format=%h %s'], capture_output=True, text=True).stdout
fixes = [l for l in log.splitlines() if ' fix:' in l]
fixlist = '\n'.join('- `%s` %s' % (l.split(' ', 1)[0], l.split(' ', 1)[1][5:]) for l in fixes)
static = open('/verif/design_section6.md').read()
doc = open('/verif/DESIGN.md').read()
marker = '\n## 6. As built'
if marker in doc:
    doc = doc[:doc.index(marker)]
doc += static.replace('@@FIXES@@', fixlist).replace('@@NFIX@@', str(len(fixes))).replace('@@TABLE@@', table).replace('@@NSEEDS@@', str(nseeds))
open('/verif/DESIGN.md', 'w').write(doc)
print('fixes', len(fixes), 'seeds', nseeds)
