#!/bin/bash
# usage: tools_recheck.sh <seed-dir-name> <PROP...>   re-runs checks against an already confirmed seeded change
S=/verif/seeded/$1; shift
cd /repo && git apply $S/patch.diff || exit 3
for Q in "$@"; do
  ( cd /verif && timeout 1500 ./check $Q > $S/check_$Q.log 2>&1 ); C=$?
  echo "recheck ./check $Q: exit $C  $(grep -c '^VIOLATION' $S/check_$Q.log) violation lines; first: $(grep -m1 'check=' $S/check_$Q.log | cut -c1-260)" | tee -a $S/confirm.log
done
cd /repo && git checkout -- . && git status --short | head -3
