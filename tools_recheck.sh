#!/bin/bash
# usage: tools_recheck.sh <seed-dir-name> <PROP...>   re-runs checks against an already confirmed seeded change (scratch copy)
S=/verif/seeded/$1; N=$1; shift
SCR=/tmp/recheck-$N; ALTD=/tmp/recheckalt-$N
git -C /repo worktree remove --force $SCR 2>/dev/null; rm -rf $SCR $ALTD; mkdir -p $ALTD
git -C /repo worktree add -q --detach $SCR HEAD || exit 2
( cd $SCR && git apply $S/patch.diff ) || { echo "patch does not apply"; exit 3; }
for Q in "$@"; do
  ( cd /verif && VERIF_REPO=$SCR VERIF_ALT=$ALTD timeout 1500 ./check $Q > $S/check_$Q.log 2>&1 ); C=$?
  echo "recheck ./check $Q: exit $C  $(grep -c '^VIOLATION' $S/check_$Q.log) violation lines; first: $(grep -m1 'check=' $S/check_$Q.log | cut -c1-260)" | tee -a $S/confirm.log
done
git -C /repo worktree remove --force $SCR; rm -rf $SCR $ALTD
